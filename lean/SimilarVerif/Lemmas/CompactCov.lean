import SimilarVerif.Lemmas.Compact
import SimilarVerif.Lemmas.PatienceTotal
/-! # The clean-up keeps the set of old positions reported Equal

`oCov a ops`: old position `a` lies in the old range of an `equal` op of `ops`.
`cleanup_oCov`: whenever `cleanup_diff_ops` returns on a valid `Replace`-free script, every old position
covered by an Equal op before is covered by an Equal op afterwards (an Insert slides over equal items, so
items move between neighbouring Equal ops; Deletes never slide).  The proof re-walks the case analysis of
`CompactP.shiftUp_pres` / `shiftDown_pres` with the relation `PresO` = `Pres` + coverage.
-/
namespace SimilarVerif.CompactCov
open SimilarVerif Spec CompactP

/-- old position `a` lies in the old range of an `equal` op -/
def oCov (a : Nat) : List Op → Prop
  | [] => False
  | .equal o _ l :: cs => (o ≤ a ∧ a < o + l) ∨ oCov a cs
  | _ :: cs => oCov a cs

theorem oCov_append (a : Nat) : ∀ (x y : List Op), oCov a (x ++ y) ↔ oCov a x ∨ oCov a y := by
  intro x y
  induction x with
  | nil => simp [oCov]
  | cons c cs ih => cases c <;> simp [oCov, ih, or_assoc]

theorem oCov_optEq (a o n k : Nat) (rest : List Op) :
    oCov a (optEq o n k ++ rest) ↔ (o ≤ a ∧ a < o + k) ∨ oCov a rest := by
  by_cases hk : k = 0
  · subst hk; simp [optEq]; omega
  · simp [optEq, hk, oCov]
theorem oCov_optEq_nil (a o n k : Nat) : oCov a (optEq o n k) ↔ (o ≤ a ∧ a < o + k) := by
  simpa [oCov] using oCov_optEq a o n k []

theorem oCov_iff_mem (a : Nat) : ∀ (ops : List Op),
    oCov a ops ↔ ∃ co cn len, Op.equal co cn len ∈ ops ∧ co ≤ a ∧ a < co + len := by
  intro ops
  induction ops with
  | nil => simp [oCov]
  | cons c cs ih =>
    cases c <;> simp only [oCov, ih, List.mem_cons] <;> constructor
    · rintro (h | ⟨co, cn, len, hm, h⟩)
      · exact ⟨_, _, _, .inl rfl, h⟩
      · exact ⟨co, cn, len, .inr hm, h⟩
    · rintro ⟨co, cn, len, hm | hm, h⟩
      · cases hm; exact .inl h
      · exact .inr ⟨co, cn, len, hm, h⟩
    all_goals first
      | (rintro ⟨co, cn, len, hm, h⟩; exact ⟨co, cn, len, .inr hm, h⟩)
      | (rintro ⟨co, cn, len, hm | hm, h⟩
         · cases hm
         · exact ⟨co, cn, len, hm, h⟩)

theorem oCov_iff_covered (a : Nat) (ops : List Op) : oCov a ops ↔ ∃ b, PatienceT.covered ops a b := by
  rw [oCov_iff_mem]
  constructor
  · rintro ⟨co, cn, len, hm, h1, h2⟩; exact ⟨_, co, cn, len, hm, h1, h2, rfl⟩
  · rintro ⟨b, co, cn, len, hm, h1, h2, -⟩; exact ⟨co, cn, len, hm, h1, h2⟩

/-- `Pres` plus: every old position covered by an Equal op of `a` is covered by an Equal op of `b` -/
def PresO (e : Nat → Nat → Bool) (rep : Bool) (a b : List Op) : Prop :=
  Pres e rep a b ∧ ∀ o n o' n', Walk e o n a o' n' → NoReplaceOp a → ∀ x, oCov x a → oCov x b

theorem PresO.refl (e rep) (a : List Op) : PresO e rep a a := ⟨Pres.refl e rep a, fun _ _ _ _ _ _ _ h => h⟩

theorem PresO.trans {e rep} {a b c : List Op} (h1 : PresO e rep a b) (h2 : PresO e rep b c) : PresO e rep a c := by
  refine ⟨h1.1.trans h2.1, ?_⟩
  intro o n o' n' hw hn x hx
  obtain ⟨a1, a2, -⟩ := h1.1 o n o' n' hw hn
  exact h2.2 o n o' n' a1 a2 x (h1.2 o n o' n' hw hn x hx)

theorem PresO.ctx {e rep} {m m' : List Op} (h : PresO e rep m m') (pre post : List Op) :
    PresO e rep (pre ++ (m ++ post)) (pre ++ (m' ++ post)) := by
  refine ⟨h.1.ctx pre post, ?_⟩
  intro o n o' n' hw hn x hx
  obtain ⟨o1, n1, hw1, hw'⟩ := (Replace.walk_append e _ _ _ _ _ _).1 hw
  obtain ⟨o2, n2, hw2, hw3⟩ := (Replace.walk_append e _ _ _ _ _ _).1 hw'
  obtain ⟨hn1, hn'⟩ := (noReplace_append _ _).1 hn
  obtain ⟨hn2, hn3⟩ := (noReplace_append _ _).1 hn'
  simp only [oCov_append] at hx ⊢
  rcases hx with hx | hx | hx
  · exact .inl hx
  · exact .inr (.inl (h.2 o1 n1 o2 n2 hw2 hn2 x hx))
  · exact .inr (.inr hx)

/-! ### the local rewrites -/

local macro "cov" : tactic =>
  `(tactic| (simp only [oCov_optEq, oCov_optEq_nil, oCov, List.cons_append, List.nil_append, List.append_nil,
      or_false, false_or] at *; omega))

theorem presO_swap (e : Nat → Nat → Bool) (rep : Bool) (a b : Op)
    (hab : (a.tag = .delete ∧ b.tag = .insert) ∨ (a.tag = .insert ∧ b.tag = .delete)) :
    PresO e rep [a, b] [(swapPair rep a b).1, (swapPair rep a b).2] := by
  refine ⟨pres_swap e rep a b hab, ?_⟩
  intro o n o' n' hw hn x hx
  cases a <;> cases b <;> simp [Op.tag] at hab <;> simp [oCov] at hx

theorem presO_merge_ins (e : Nat → Nat → Bool) (rep : Bool) (po pn pl co cn l : Nat) :
    PresO e rep [.insert po pn pl, .insert co cn l] [.insert po pn (pl + l)] :=
  ⟨pres_merge_ins e rep po pn pl co cn l, fun _ _ _ _ _ _ x hx => by simp [oCov] at hx⟩

theorem presO_merge_del (e : Nat → Nat → Bool) (rep : Bool) (po pl pn co l cn : Nat) :
    PresO e rep [.delete po pl pn, .delete co l cn] [.delete po (pl + l) pn] :=
  ⟨pres_merge_del e rep po pl pn co l cn, fun _ _ _ _ _ _ x hx => by simp [oCov] at hx⟩

theorem presO_up_next (e : Nat → Nat → Bool) (rep : Bool) (po pn pl co cn l o2 n2 l2 sl : Nat)
    (h1 : sl ≤ pl) (h2 : sl ≤ l)
    (hs : ∀ t, t < sl → e (po + pl - 1 - t) (cn + l - 1 - t) = true) :
    PresO e rep [.equal po pn pl, .insert co cn l, .equal o2 n2 l2]
      (optEq po pn (pl - sl) ++ [.insert (co - sl) (cn - sl) l, .equal (o2 - sl) (n2 - sl) (l2 + sl)]) := by
  refine ⟨pres_up_next e rep po pn pl co cn l o2 n2 l2 sl h1 h2 hs, ?_⟩
  intro o n o' n' hw hn x hx
  simp only [Walk] at hw
  obtain ⟨rfl, rfl, hpl, -, rfl, hl, rfl, rfl, hl2, -, -, -⟩ := hw
  clear hs
  cov

theorem presO_up_end (e : Nat → Nat → Bool) (rep : Bool) (po pn pl co cn l sl : Nat)
    (h0 : 0 < sl) (h1 : sl ≤ pl) (h2 : sl ≤ l)
    (hs : ∀ t, t < sl → e (po + pl - 1 - t) (cn + l - 1 - t) = true) :
    PresO e rep [.equal po pn pl, .insert co cn l]
      (optEq po pn (pl - sl) ++ [.insert (co - sl) (cn - sl) l, .equal (po + pl - sl) (cn + l - sl) sl]) := by
  refine ⟨pres_up_end e rep po pn pl co cn l sl h0 h1 h2 hs, ?_⟩
  intro o n o' n' hw hn x hx
  clear hs hw
  cov

theorem presO_down_prev (e : Nat → Nat → Bool) (rep : Bool) (po pn plen co cn l o2 n2 l2 pl : Nat)
    (h1 : pl ≤ l2)
    (hs : ∀ t, t < pl → e (o2 + t) (cn + t) = true) :
    PresO e rep [.equal po pn plen, .insert co cn l, .equal o2 n2 l2]
      ([.equal po pn (plen + pl), .insert (co + pl) (cn + pl) l] ++ optEq (o2 + pl) (n2 + pl) (l2 - pl)) := by
  refine ⟨pres_down_prev e rep po pn plen co cn l o2 n2 l2 pl h1 hs, ?_⟩
  intro o n o' n' hw hn x hx
  simp only [Walk] at hw
  obtain ⟨rfl, rfl, hpl, -, rfl, hl, rfl, rfl, hl2, -, -, -⟩ := hw
  clear hs
  cov

theorem presO_down_noprev (e : Nat → Nat → Bool) (rep : Bool) (co cn l o2 n2 l2 pl : Nat)
    (h0 : 0 < pl) (h1 : pl ≤ l2)
    (hs : ∀ t, t < pl → e (o2 + t) (cn + t) = true) :
    PresO e rep [.insert co cn l, .equal o2 n2 l2]
      ([.equal o2 cn pl, .insert (co + pl) (cn + pl) l] ++ optEq (o2 + pl) (n2 + pl) (l2 - pl)) := by
  refine ⟨pres_down_noprev e rep co cn l o2 n2 l2 pl h0 h1 hs, ?_⟩
  intro o n o' n' hw hn x hx
  clear hs hw
  cov

theorem presO_drop_empty (e : Nat → Nat → Bool) (rep : Bool) (x : Op) (ht : x.tag = .equal) (he : x.isEmpty = true) :
    PresO e rep [x] [] := by
  refine ⟨pres_drop_empty e rep x ht he, ?_⟩
  obtain ⟨o, n, l, rfl⟩ := tag_equal ht
  rw [isEmpty_equal] at he; subst he
  intro o n o' n' hw; simp [Walk] at hw

/-- the simp set that computes `set` / `eraseIdx` / `insertIdx` / `[·]?` on `pre ++ a :: b :: post` -/
local macro "idx" : tactic =>
  `(tactic| simp only [get_pre, set_pre, erase_pre, insert_pre, get_pre0, set_pre0, erase_pre0, insert_pre0,
      Nat.add_sub_cancel, Nat.add_assoc, Nat.reduceAdd, List.set_cons_zero, List.set_cons_succ,
      List.eraseIdx_cons_zero, List.eraseIdx_cons_succ, List.insertIdx_zero, List.insertIdx_succ_cons,
      List.getElem?_cons_zero, List.getElem?_cons_succ] at *)

theorem shiftUp_presO (E : Env) (repair : Bool) (fuel : Nat) (ops : List Op) (pointer : Nat) (w : World) :
    ∀ ops' p' w', shiftUp E repair fuel ops pointer w = .ok (ops', p', w') →
      PresO (eqB E) repair ops ops' ∧ w'.clock = w.clock ∧ w'.probes = w.probes := by
  fun_induction shiftUp E repair fuel ops pointer w
  case case7 fuel ops p w hp prev h1 this h2 ht1 ht2 sl w1 hs hsl ops1 hx this' prev' h3 h4 ops2 hemp ih
     | case8 fuel ops p w hp prev h1 this h2 ht1 ht2 sl w1 hs hsl ops1 hx this' prev' h3 h4 ops2 hemp ih =>
    intro ops' p' w' h
    obtain ⟨ihP, ihc, ihp⟩ := ih _ _ _ h
    obtain ⟨pre, post, rfl, rfl⟩ := window_up hp h1 h2
    obtain ⟨hs1, hs2, hs3, -, hW⟩ := commonSuffixLen_spec hs
    refine ⟨PresO.trans ?_ ihP, by rw [ihc]; exact hW.1, by rw [ihp]; exact hW.2.1⟩
    clear ih h ihP h1 h2 hs hW
    obtain ⟨po, pn, pl, rfl⟩ := tag_equal ht1
    obtain ⟨co, cn, l, rfl⟩ := tag_insert ht2
    simp only [ops2]
    simp only [shrinkLeft_equal_ok, shiftLeft_insert_ok] at h3 h4
    obtain ⟨h3a, rfl⟩ := h3
    obtain ⟨h4a, h4b, rfl⟩ := h4
    simp only [isEmpty_equal] at hemp
    simp only [Op.oStart, Op.oEnd, Op.nStart, Op.nEnd, Op.oLen, Op.nLen] at *
    idx
    split at hx
    · rename_i o2 n2 l2 hnext
      obtain ⟨post', rfl⟩ := head_eq hnext
      simp only [map_ok, growLeft_equal_ok] at hx
      obtain ⟨_, ⟨hg1, hg2, rfl⟩, rfl⟩ := hx
      idx
      have := (presO_up_next (eqB E) repair po pn pl co cn l o2 n2 l2 sl h3a (by omega) hs3).ctx pre post'
      simpa [optEq, hemp] using this
    · split at hx
      · rename_i eo en heo hen
        simp only [csub_ok] at heo hen
        obtain ⟨-, rfl⟩ := heo
        obtain ⟨-, rfl⟩ := hen
        simp only [Op.tag] at hx
        cases hx
        idx
        have := (presO_up_end (eqB E) repair po pn pl co cn l sl hsl h3a (by omega) hs3).ctx pre post
        simpa [optEq, hemp] using this
      · cases hx
  case case14 fuel ops p w hp prev h1 this h2 ht1 ht2 sl w1 hs hsl ops1 hx this' prev' h3 h4 ops2 hemp ih
     | case15 fuel ops p w hp prev h1 this h2 ht1 ht2 sl w1 hs hsl ops1 hx this' prev' h3 h4 ops2 hemp ih =>
    rw [nEnd_delete ht2] at hs; have := csl_empty hs; omega
  case case10 fuel ops p w hp prev h1 this h2 ht1 ht2 sl w1 hs hsl hemp ih
     | case17 fuel ops p w hp prev h1 this h2 ht1 ht2 sl w1 hs hsl hemp ih =>
    intro ops' p' w' h
    obtain ⟨ihP, ihc, ihp⟩ := ih _ _ _ h
    obtain ⟨pre, post, rfl, rfl⟩ := window_up hp h1 h2
    obtain ⟨-, -, -, -, hW⟩ := commonSuffixLen_spec hs
    refine ⟨PresO.trans ?_ ihP, by rw [ihc]; exact hW.1, by rw [ihp]; exact hW.2.1⟩
    idx
    exact (presO_drop_empty (eqB E) repair prev ht1 hemp).ctx pre (this :: post)
  case case11 fuel ops p w hp prev h1 this h2 ht1 ht2 sl w1 hs hsl hemp
     | case18 fuel ops p w hp prev h1 this h2 ht1 ht2 sl w1 hs hsl hemp =>
    intro ops' p' w' h
    cases h
    obtain ⟨-, -, -, -, hW⟩ := commonSuffixLen_spec hs
    exact ⟨PresO.refl _ _ _, hW.1, hW.2.1⟩
  case case19 fuel ops p w hp prev h1 this h2 ht1 ht2 x y hxy ih
     | case20 fuel ops p w hp prev h1 this h2 ht1 ht2 x y hxy ih =>
    intro ops' p' w' h
    obtain ⟨ihP, ihc, ihp⟩ := ih _ _ _ h
    obtain ⟨pre, post, rfl, rfl⟩ := window_up hp h1 h2
    refine ⟨PresO.trans ?_ ihP, ihc, ihp⟩
    idx
    have := (presO_swap (eqB E) repair prev this (by simp [ht1, ht2])).ctx pre post
    rw [hxy] at this
    exact this
  case case21 fuel ops p w hp prev h1 this h2 ht1 ht2 ih =>
    intro ops' p' w' h
    obtain ⟨ihP, ihc, ihp⟩ := ih _ _ _ h
    obtain ⟨pre, post, rfl, rfl⟩ := window_up hp h1 h2
    refine ⟨PresO.trans ?_ ihP, ihc, ihp⟩
    obtain ⟨po, pn, pl, rfl⟩ := tag_insert ht1
    obtain ⟨co, cn, l, rfl⟩ := tag_insert ht2
    idx
    exact (presO_merge_ins (eqB E) repair po pn pl co cn l).ctx pre post
  case case22 fuel ops p w hp prev h1 this h2 ht1 ht2 ih =>
    intro ops' p' w' h
    obtain ⟨ihP, ihc, ihp⟩ := ih _ _ _ h
    obtain ⟨pre, post, rfl, rfl⟩ := window_up hp h1 h2
    refine ⟨PresO.trans ?_ ihP, ihc, ihp⟩
    obtain ⟨po, pl, pn, rfl⟩ := tag_delete ht1
    obtain ⟨co, l, cn, rfl⟩ := tag_delete ht2
    idx
    exact (presO_merge_del (eqB E) repair po pl pn co l cn).ctx pre post
  all_goals (intro _ _ _ h; cases h)
  all_goals exact ⟨PresO.refl _ _ _, rfl, rfl⟩

theorem shiftDown_presO (E : Env) (repair : Bool) (fuel : Nat) (ops : List Op) (pointer : Nat) (w : World) :
    ∀ ops' p' w', shiftDown E repair fuel ops pointer w = .ok (ops', p', w') →
      PresO (eqB E) repair ops ops' ∧ w'.clock = w.clock ∧ w'.probes = w.probes := by
  fun_induction shiftDown E repair fuel ops pointer w
  case case6 fuel ops p w next h1 this h2 ht1 ht2 pl w1 hs hpl prevIsEq ops1 p1 hx t nx hnx ht nx' h3 ops2 hemp ih
     | case7 fuel ops p w next h1 this h2 ht1 ht2 pl w1 hs hpl prevIsEq ops1 p1 hx t nx hnx ht nx' h3 ops2 hemp ih =>
    intro ops' p' w' h
    obtain ⟨ihP, ihc, ihp⟩ := ih _ _ _ h
    obtain ⟨pre, post, rfl, rfl⟩ := window_down h1 h2
    obtain ⟨hs1, hs2, hs3, -, hW⟩ := commonPrefixLen_spec hs
    refine ⟨PresO.trans ?_ ihP, by rw [ihc]; exact hW.1, by rw [ihp]; exact hW.2.1⟩
    clear ih h ihP h1 h2 hs hW
    obtain ⟨o2, n2, l2, rfl⟩ := tag_equal ht1
    obtain ⟨co, cn, l, rfl⟩ := tag_insert ht2
    simp only [ops2]
    simp only [prevIsEq] at hx
    simp only [Op.oStart, Op.oEnd, Op.nStart, Op.nEnd, Op.oLen, Op.nLen] at *
    have hx' : (ops1 = pre ++ .equal o2 cn pl :: .insert co cn l :: .equal o2 n2 l2 :: post ∧ p1 = pre.length + 1) ∨
        (∃ pre' qo qn ql, pre = pre' ++ [.equal qo qn ql] ∧
          ops1 = pre' ++ .equal qo qn (ql + pl) :: .insert co cn l :: .equal o2 n2 l2 :: post ∧ p1 = pre.length) := by
      by_cases hpe : pre.length = 0
      · left
        simp only [hpe, if_true, Bool.false_eq_true, if_false] at hx
        obtain rfl := List.eq_nil_of_length_eq_zero hpe
        cases hx
        exact ⟨rfl, rfl⟩
      · simp only [hpe, if_false] at hx
        cases hq : (pre ++ Op.insert co cn l :: Op.equal o2 n2 l2 :: post)[pre.length - 1]? with
        | none =>
          simp only [hq, Bool.false_eq_true, if_false] at hx
          left
          cases hx
          exact ⟨by simp only [insert_pre0, List.insertIdx_zero], rfl⟩
        | some q =>
          obtain ⟨pre', rfl⟩ := last_of_pre hpe hq
          simp only [hq] at hx
          cases q
          · right
            simp only [if_true] at hx
            cases hx
            refine ⟨pre', _, _, _, rfl, ?_, rfl⟩
            simp [Op.growRight, Op.addLen]
          all_goals
            left
            simp only [Bool.false_eq_true, if_false] at hx
            cases hx
            exact ⟨by simp only [insert_pre0, List.insertIdx_zero], rfl⟩
    clear hx
    rcases hx' with ⟨rfl, rfl⟩ | ⟨pre', qo, qn, ql, rfl, rfl, rfl⟩
    · simp only [opAt_ok_iff] at ht hnx
      idx
      cases ht
      cases hnx
      simp only [shrinkRight_equal_ok] at h3
      obtain ⟨h3a, rfl⟩ := h3
      simp only [isEmpty_equal] at hemp
      have := (presO_down_noprev (eqB E) repair co cn l o2 n2 l2 pl hpl h3a hs3).ctx pre post
      simpa [optEq, hemp, Op.shiftRight] using this
    · simp only [opAt_ok_iff, List.length_append, List.length_cons, List.length_nil, List.append_assoc,
        List.cons_append, List.nil_append] at ht hnx ⊢
      idx
      cases ht
      cases hnx
      simp only [shrinkRight_equal_ok] at h3
      obtain ⟨h3a, rfl⟩ := h3
      simp only [isEmpty_equal] at hemp
      have := (presO_down_prev (eqB E) repair qo qn ql co cn l o2 n2 l2 pl h3a hs3).ctx pre' post
      simpa [optEq, hemp, Op.shiftRight] using this
  case case13 fuel ops p w next h1 this h2 ht1 ht2 pl w1 hs hpl prevIsEq ops1 p1 hx t nx hnx ht nx' h3 ops2 hemp ih
     | case14 fuel ops p w next h1 this h2 ht1 ht2 pl w1 hs hpl prevIsEq ops1 p1 hx t nx hnx ht nx' h3 ops2 hemp ih =>
    rw [nEnd_delete ht2] at hs; have := cpl_empty hs; omega
  case case9 fuel ops p w next h1 this h2 ht1 ht2 pl w1 hs hpl hemp ih
     | case16 fuel ops p w next h1 this h2 ht1 ht2 pl w1 hs hpl hemp ih =>
    intro ops' p' w' h
    obtain ⟨ihP, ihc, ihp⟩ := ih _ _ _ h
    obtain ⟨pre, post, rfl, rfl⟩ := window_down h1 h2
    obtain ⟨-, -, -, -, hW⟩ := commonPrefixLen_spec hs
    refine ⟨PresO.trans ?_ ihP, by rw [ihc]; exact hW.1, by rw [ihp]; exact hW.2.1⟩
    idx
    have := (presO_drop_empty (eqB E) repair next ht1 hemp).ctx (pre ++ [this]) post
    simpa using this
  case case10 fuel ops p w next h1 this h2 ht1 ht2 pl w1 hs hpl hemp
     | case17 fuel ops p w next h1 this h2 ht1 ht2 pl w1 hs hpl hemp =>
    intro ops' p' w' h
    cases h
    obtain ⟨-, -, -, -, hW⟩ := commonPrefixLen_spec hs
    exact ⟨PresO.refl _ _ _, hW.1, hW.2.1⟩
  case case18 fuel ops p w next h1 this h2 ht1 ht2 x y hxy ih
     | case19 fuel ops p w next h1 this h2 ht1 ht2 x y hxy ih =>
    intro ops' p' w' h
    obtain ⟨ihP, ihc, ihp⟩ := ih _ _ _ h
    obtain ⟨pre, post, rfl, rfl⟩ := window_down h1 h2
    refine ⟨PresO.trans ?_ ihP, ihc, ihp⟩
    idx
    have := (presO_swap (eqB E) repair this next (by simp [ht1, ht2])).ctx pre post
    rw [hxy] at this
    exact this
  case case20 fuel ops p w next h1 this h2 ht1 ht2 ih =>
    intro ops' p' w' h
    obtain ⟨ihP, ihc, ihp⟩ := ih _ _ _ h
    obtain ⟨pre, post, rfl, rfl⟩ := window_down h1 h2
    refine ⟨PresO.trans ?_ ihP, ihc, ihp⟩
    obtain ⟨o2, n2, l2, rfl⟩ := tag_insert ht1
    obtain ⟨co, cn, l, rfl⟩ := tag_insert ht2
    idx
    exact (presO_merge_ins (eqB E) repair co cn l o2 n2 l2).ctx pre post
  case case21 fuel ops p w next h1 this h2 ht1 ht2 ih =>
    intro ops' p' w' h
    obtain ⟨ihP, ihc, ihp⟩ := ih _ _ _ h
    obtain ⟨pre, post, rfl, rfl⟩ := window_down h1 h2
    refine ⟨PresO.trans ?_ ihP, ihc, ihp⟩
    obtain ⟨o2, l2, n2, rfl⟩ := tag_delete ht1
    obtain ⟨co, l, cn, rfl⟩ := tag_delete ht2
    idx
    exact (presO_merge_del (eqB E) repair co l cn o2 l2 n2).ctx pre post
  all_goals (intro _ _ _ h; cases h)
  all_goals exact ⟨PresO.refl _ _ _, rfl, rfl⟩

/-! ### the two passes and `cleanup_diff_ops` -/

theorem cleanupPass_presO (E : Env) (repair : Bool) (which : Tag) (inner : Nat) (fuel : Nat) (ops : List Op)
    (pointer : Nat) (w : World) :
    ∀ ops' w', cleanupPass E repair which inner fuel ops pointer w = .ok (ops', w') →
      PresO (eqB E) repair ops ops' ∧ w'.clock = w.clock ∧ w'.probes = w.probes := by
  fun_induction cleanupPass E repair which inner fuel ops pointer w
  case case5 fuel ops p w op hop htag ops1 p1 w1 hup ops2 p2 w2 hdown ih =>
    intro ops' w' h
    obtain ⟨a1, a2, a3⟩ := shiftUp_presO E repair _ _ _ _ _ _ _ hup
    obtain ⟨b1, b2, b3⟩ := shiftDown_presO E repair _ _ _ _ _ _ _ hdown
    obtain ⟨c1, c2, c3⟩ := ih _ _ h
    exact ⟨(a1.trans b1).trans c1, by rw [c2, b2, a2], by rw [c3, b3, a3]⟩
  case case6 fuel ops p w op hop htag ih =>
    intro ops' w' h
    exact ih _ _ h
  all_goals (intro _ _ h; cases h)
  all_goals exact ⟨PresO.refl _ _ _, rfl, rfl⟩

theorem cleanup_presO (E : Env) (repair : Bool) (ops : List Op) (w : World) (ops' : List Op) (w' : World)
    (h : cleanupDiffOps E repair ops w = .ok (ops', w')) :
    PresO (eqB E) repair ops ops' ∧ w'.clock = w.clock ∧ w'.probes = w.probes := by
  unfold cleanupDiffOps at h
  simp only at h
  split at h
  · cases h
  · rename_i ops1 w1 h1
    obtain ⟨a1, a2, a3⟩ := cleanupPass_presO E repair _ _ _ _ _ _ _ _ h1
    obtain ⟨b1, b2, b3⟩ := cleanupPass_presO E repair _ _ _ _ _ _ _ _ h
    exact ⟨a1.trans b1, by rw [b2, a2], by rw [b3, a3]⟩

/-- **the clean-up keeps every old position reported Equal**: whenever `cleanup_diff_ops` returns on a valid
`Replace`-free script, an old position covered by an Equal op before is covered by an Equal op afterwards -/
theorem cleanup_oCov (E : Env) (repair : Bool) (ops : List Op) (o n o' n' : Nat) (w : World)
    (ops' : List Op) (w' : World)
    (hnr : NoReplaceOp ops) (hw : Walk (eqB E) o n ops o' n')
    (h : cleanupDiffOps E repair ops w = .ok (ops', w')) : ∀ a, oCov a ops → oCov a ops' :=
  (cleanup_presO E repair ops w ops' w' h).1.2 o n o' n' hw hnr

end SimilarVerif.CompactCov

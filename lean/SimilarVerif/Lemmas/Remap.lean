import SimilarVerif.Model.Remap
import SimilarVerif.Lemmas.Walk
import SimilarVerif.Lemmas.Tokenize
/-!
# Property C17: `TextDiffRemapper::iter_slices`

`lo ln` are the byte lengths of the old / new tokens. For a valid script (`Walk`) over the token
sequences: `remapOps` never panics and never fails a lookup, returns exactly the slice-wise expansion
with every token range `[s, e)` replaced by the byte range `[Σ l[0..s), Σ l[0..e))` (`remapOps_eq`),
no slice is empty (`remapOps_nonempty`), the old-side slices tile `[0, Σ lo)` (`remapOps_old_tiling`),
the new-side token intervals of insert slices and equal ops tile `[0, ln.length)` and their byte images
tile `[0, Σ ln)` (`newCover_tiling`, `newCover_bytes_tiling`).
-/
namespace SimilarVerif.RemapP
open SimilarVerif Spec TokP

/-- byte range of the tokens `[s, e)` when the token lengths are `l` -/
def byteRange (l : List Nat) (s e : Nat) : Nat × Nat := ((l.take s).sum, (l.take e).sum)

/-- token slice → byte slice -/
def toBytes (lo ln : List Nat) : CTag × Bool × Nat × Nat → CTag × Bool × Nat × Nat
  | (t, side, s, e) => (t, side, byteRange (if side then ln else lo) s e)

theorem remapIndexes_length : ∀ (l : List Nat) (pos : Nat), (remapIndexes pos l).length = l.length
  | [], _ => rfl
  | _ :: ls, pos => by simp [remapIndexes, remapIndexes_length ls]

theorem remapIndexes_getElem? : ∀ (l : List Nat) (pos i : Nat), i < l.length →
    (remapIndexes pos l)[i]? = some (pos + (l.take i).sum, pos + (l.take (i+1)).sum)
  | [], _, _, h => by simp at h
  | x :: ls, pos, 0, _ => by simp [remapIndexes]
  | x :: ls, pos, i+1, h => by
    have := remapIndexes_getElem? ls (pos + x) i (by simpa using h)
    simp only [remapIndexes, List.getElem?_cons_succ, this, List.take_succ_cons, List.sum_cons]
    simp only [Nat.add_assoc]

theorem take_sum_mono (l : List Nat) {s e : Nat} (h : s ≤ e) : (l.take s).sum ≤ (l.take e).sum := by
  obtain ⟨d, rfl⟩ := Nat.exists_eq_add_of_le h
  rw [List.take_add]; simp

theorem take_sum_lt : ∀ (l : List Nat) (s e : Nat), (∀ x ∈ l, 0 < x) → s < e → e ≤ l.length →
    (l.take s).sum < (l.take e).sum
  | [], s, e, _, h1, h2 => by simp at h2; omega
  | x :: ls, 0, e+1, hp, _, _ => by
    have := hp x (List.mem_cons_self ..)
    simp; omega
  | x :: ls, s+1, e+1, hp, h1, h2 => by
    have := take_sum_lt ls s e (fun y hy => hp y (List.mem_cons_of_mem _ hy)) (by omega) (by simpa using h2)
    simp; omega

/-- `SliceRemapper::slice(s..e)` for a non-empty in-range token range -/
theorem remapSlice_eq (l : List Nat) {s e : Nat} (h1 : s < e) (h2 : e ≤ l.length) :
    remapSlice (remapIndexes 0 l).toArray s e = .ok (some (byteRange l s e)) := by
  unfold remapSlice
  have hs := remapIndexes_getElem? l 0 s (by omega)
  have he := remapIndexes_getElem? l 0 (e - 1) (by omega)
  rw [show e - 1 + 1 = e from by omega] at he
  simp only [List.getElem?_toArray, hs, he, Nat.zero_add]
  rw [if_neg (by omega), if_pos (take_sum_mono l (by omega))]
  rfl

/-- the ranges of an op are non-empty and inside the token sequences -/
def OpIn (no nn : Nat) : Op → Prop
  | .equal o _ len => 0 < len ∧ o + len ≤ no
  | .delete o len _ => 0 < len ∧ o + len ≤ no
  | .insert _ n len => 0 < len ∧ n + len ≤ nn
  | .replace o ol n nl => 0 < ol ∧ o + ol ≤ no ∧ 0 < nl ∧ n + nl ≤ nn

theorem remapOp_eq (lo ln : List Nat) (x : Op) (hx : OpIn lo.length ln.length x) :
    remapOp (remapIndexes 0 lo).toArray (remapIndexes 0 ln).toArray x
      = .ok ((iterSlices x).map (toBytes lo ln)) := by
  cases x with
  | equal o n len =>
    obtain ⟨h1, h2⟩ := hx
    simp [remapOp, iterSlices, toBytes, remapSlice_eq lo (show o < o + len by omega) h2]
  | delete o len n =>
    obtain ⟨h1, h2⟩ := hx
    simp [remapOp, iterSlices, toBytes, remapSlice_eq lo (show o < o + len by omega) h2]
  | insert o n len =>
    obtain ⟨h1, h2⟩ := hx
    simp [remapOp, iterSlices, toBytes, remapSlice_eq ln (show n < n + len by omega) h2]
  | replace o ol n nl =>
    obtain ⟨h1, h2, h3, h4⟩ := hx
    simp [remapOp, iterSlices, toBytes, remapSlice_eq lo (show o < o + ol by omega) h2,
      remapSlice_eq ln (show n < n + nl by omega) h4]

theorem walk_opIn {e : Nat → Nat → Bool} : ∀ (ops : List Op) (o n o' n' no nn : Nat),
    Walk e o n ops o' n' → o' ≤ no → n' ≤ nn → ∀ x ∈ ops, OpIn no nn x := by
  intro ops
  induction ops with
  | nil => intro o n o' n' no nn _ _ _ x hx; simp at hx
  | cons c cs ih =>
    intro o n o' n' no nn h ho hn x hx
    have hc := walk_counts _ _ _ _ _ h
    rcases List.mem_cons.1 hx with rfl | hx'
    · cases x <;> simp only [Walk] at h <;> simp only [OpIn]
      · obtain ⟨rfl, rfl, h3, _, h5⟩ := h; have := walk_counts _ _ _ _ _ h5; omega
      · obtain ⟨rfl, h3, h5⟩ := h; have := walk_counts _ _ _ _ _ h5; omega
      · obtain ⟨rfl, h3, h5⟩ := h; have := walk_counts _ _ _ _ _ h5; omega
      · obtain ⟨rfl, rfl, h3, h4, h5⟩ := h; have := walk_counts _ _ _ _ _ h5; omega
    · cases c <;> simp only [Walk] at h
      · exact ih _ _ _ _ _ _ h.2.2.2.2 ho hn x hx'
      · exact ih _ _ _ _ _ _ h.2.2 ho hn x hx'
      · exact ih _ _ _ _ _ _ h.2.2 ho hn x hx'
      · exact ih _ _ _ _ _ _ h.2.2.2.2 ho hn x hx'

theorem remapOps_eq_of_opIn (lo ln : List Nat) : ∀ (ops : List Op), (∀ x ∈ ops, OpIn lo.length ln.length x) →
    remapOps (remapIndexes 0 lo).toArray (remapIndexes 0 ln).toArray ops
      = .ok ((ops.flatMap iterSlices).map (toBytes lo ln))
  | [], _ => rfl
  | x :: xs, h => by
    have h1 := remapOp_eq lo ln x (h x (List.mem_cons_self ..))
    have h2 := remapOps_eq_of_opIn lo ln xs (fun y hy => h y (List.mem_cons_of_mem _ hy))
    simp only [remapOps, h1, h2, List.flatMap_cons, List.map_append]

/-- **C17 (a)+(b)+(c)**: for a valid script the remapper never panics, never fails a lookup, and returns
the slice-wise expansion with each token range `[s, e)` turned into the byte range
`[Σ l[0..s), Σ l[0..e))` of the side it was read from. -/
theorem remapOps_eq {e : Nat → Nat → Bool} (lo ln : List Nat) (ops : List Op)
    (hw : Walk e 0 0 ops lo.length ln.length) :
    remapOps (remapIndexes 0 lo).toArray (remapIndexes 0 ln).toArray ops
      = .ok ((ops.flatMap iterSlices).map (toBytes lo ln)) :=
  remapOps_eq_of_opIn lo ln ops (walk_opIn ops _ _ _ _ _ _ hw (Nat.le_refl _) (Nat.le_refl _))

/-- **C17 (b)**: same tags and sides as the slice-wise expansion -/
theorem remapOps_tags {e : Nat → Nat → Bool} (lo ln : List Nat) (ops : List Op)
    (hw : Walk e 0 0 ops lo.length ln.length) :
    ∃ sl, remapOps (remapIndexes 0 lo).toArray (remapIndexes 0 ln).toArray ops = .ok sl ∧
      sl.map (fun (t, side, _, _) => (t, side)) = (ops.flatMap iterSlices).map (fun (t, side, _, _) => (t, side)) := by
  refine ⟨_, remapOps_eq lo ln ops hw, ?_⟩
  rw [List.map_map]
  apply List.map_congr_left
  rintro ⟨t, side, s, e'⟩ _
  rfl

/-- a token slice is non-empty and inside the token sequence of its side -/
def SliceIn (lo ln : List Nat) : CTag × Bool × Nat × Nat → Prop
  | (_, side, s, e) => s < e ∧ e ≤ (if side then ln else lo).length

theorem opIn_sliceIn (lo ln : List Nat) (x : Op) (hx : OpIn lo.length ln.length x) :
    ∀ sl ∈ iterSlices x, SliceIn lo ln sl := by
  cases x <;> simp only [OpIn] at hx <;> simp [iterSlices, SliceIn] <;> omega

/-- **C17 (d)**: no returned slice is empty -/
theorem remapOps_nonempty {e : Nat → Nat → Bool} (lo ln : List Nat) (ops : List Op)
    (hlo : ∀ x ∈ lo, 0 < x) (hln : ∀ x ∈ ln, 0 < x)
    (hw : Walk e 0 0 ops lo.length ln.length) :
    ∃ sl, remapOps (remapIndexes 0 lo).toArray (remapIndexes 0 ln).toArray ops = .ok sl ∧
      ∀ x ∈ sl, x.2.2.1 < x.2.2.2 := by
  refine ⟨_, remapOps_eq lo ln ops hw, ?_⟩
  intro x hx
  obtain ⟨y, hy, rfl⟩ := List.mem_map.1 hx
  obtain ⟨op, hop, hy⟩ := List.mem_flatMap.1 hy
  have hin := opIn_sliceIn lo ln op
    (walk_opIn ops _ _ _ _ _ _ hw (Nat.le_refl _) (Nat.le_refl _) op hop) y hy
  obtain ⟨t, side, s, e'⟩ := y
  obtain ⟨h1, h2⟩ := hin
  cases side
  · exact take_sum_lt lo s e' hlo h1 h2
  · exact take_sum_lt ln s e' hln h1 h2

/-- the byte ranges of the old-side slices (tags `Equal`, `Delete`), in order -/
def oldRanges (sl : List (CTag × Bool × Nat × Nat)) : List (Nat × Nat) :=
  (sl.filter (fun x => !x.2.1)).map (·.2.2)

/-- the byte ranges of the new-side slices (tag `Insert`), in order -/
def newRanges (sl : List (CTag × Bool × Nat × Nat)) : List (Nat × Nat) :=
  (sl.filter (fun x => x.2.1)).map (·.2.2)

theorem oldRanges_append (a b : List (CTag × Bool × Nat × Nat)) :
    oldRanges (a ++ b) = oldRanges a ++ oldRanges b := by simp [oldRanges]

theorem old_tiling_gen {e : Nat → Nat → Bool} (lo ln : List Nat) (hlo : ∀ x ∈ lo, 0 < x) :
    ∀ (ops : List Op) (o n o' n' : Nat), Walk e o n ops o' n' → o' ≤ lo.length →
    TilingFrom (lo.take o).sum (oldRanges ((ops.flatMap iterSlices).map (toBytes lo ln))) (lo.take o').sum := by
  intro ops
  induction ops with
  | nil => intro o n o' n' h _; obtain ⟨rfl, rfl⟩ := h; simp [oldRanges, TilingFrom]
  | cons c cs ih =>
    intro o n o' n' h ho
    rw [List.flatMap_cons, List.map_append, oldRanges_append]
    cases c <;> simp only [Walk] at h
    · obtain ⟨rfl, rfl, h3, _, h5⟩ := h
      have hc := walk_counts _ _ _ _ _ h5
      refine TilingFrom.append ?_ (ih _ _ _ _ h5 ho)
      simp only [iterSlices, oldRanges, toBytes, byteRange, List.map_cons, List.map_nil, List.filter_cons,
        List.filter_nil, Bool.not_false, if_true, TilingFrom, Bool.false_eq_true, if_false]
      exact ⟨trivial, take_sum_lt lo _ _ hlo (by omega) (by omega), trivial⟩
    · obtain ⟨rfl, h3, h5⟩ := h
      have hc := walk_counts _ _ _ _ _ h5
      refine TilingFrom.append ?_ (ih _ _ _ _ h5 ho)
      simp only [iterSlices, oldRanges, toBytes, byteRange, List.map_cons, List.map_nil, List.filter_cons,
        List.filter_nil, Bool.not_false, if_true, TilingFrom, Bool.false_eq_true, if_false]
      exact ⟨trivial, take_sum_lt lo _ _ hlo (by omega) (by omega), trivial⟩
    · obtain ⟨rfl, h3, h5⟩ := h
      refine TilingFrom.append ?_ (ih _ _ _ _ h5 ho)
      simp [iterSlices, oldRanges, toBytes, TilingFrom]
    · obtain ⟨rfl, rfl, h3, h4, h5⟩ := h
      have hc := walk_counts _ _ _ _ _ h5
      refine TilingFrom.append ?_ (ih _ _ _ _ h5 ho)
      simp only [iterSlices, oldRanges, toBytes, byteRange, List.map_cons, List.map_nil, List.filter_cons,
        List.filter_nil, Bool.not_false, Bool.not_true, if_true, TilingFrom, Bool.false_eq_true, if_false]
      exact ⟨trivial, take_sum_lt lo _ _ hlo (by omega) (by omega), trivial⟩

/-- **C17 (e), old side**: the byte ranges of the old-side slices (`Equal`, `Delete`), in order, are
non-empty, contiguous, start at `0` and end at `Σ lo` — the length of the old text -/
theorem remapOps_old_tiling {e : Nat → Nat → Bool} (lo ln : List Nat) (ops : List Op)
    (hlo : ∀ x ∈ lo, 0 < x) (hw : Walk e 0 0 ops lo.length ln.length) :
    ∃ sl, remapOps (remapIndexes 0 lo).toArray (remapIndexes 0 ln).toArray ops = .ok sl ∧
      Tiling (oldRanges sl) lo.sum := by
  refine ⟨_, remapOps_eq lo ln ops hw, ?_⟩
  have := old_tiling_gen (e := e) lo ln hlo ops 0 0 _ _ hw (Nat.le_refl _)
  simpa [Tiling] using this

/-- new-token intervals covered by a script, in order: `(true, n, n+len)` for each `Insert` slice
(ops `Insert`, `Replace`), `(false, n, n+len)` for the new-side image of each `Equal` op -/
def newCover : List Op → List (Bool × Nat × Nat)
  | [] => []
  | .equal _ n l :: cs => (false, n, n + l) :: newCover cs
  | .delete .. :: cs => newCover cs
  | .insert _ n l :: cs => (true, n, n + l) :: newCover cs
  | .replace _ _ n l :: cs => (true, n, n + l) :: newCover cs

/-- **C17 (e), new side, token level**: the new-token intervals of the insert slices and of the equal
ops, in order, tile `[0, ln.length)` -/
theorem newCover_tilingFrom {e : Nat → Nat → Bool} : ∀ (ops : List Op) (o n o' n' : Nat),
    Walk e o n ops o' n' → TilingFrom n ((newCover ops).map (·.2)) n' := by
  intro ops
  induction ops with
  | nil => intro o n o' n' h; obtain ⟨rfl, rfl⟩ := h; simp [newCover, TilingFrom]
  | cons c cs ih =>
    intro o n o' n' h
    cases c <;> simp only [Walk] at h <;> simp only [newCover, List.map_cons, TilingFrom]
    · obtain ⟨rfl, rfl, h3, _, h5⟩ := h; exact ⟨rfl, by omega, ih _ _ _ _ h5⟩
    · obtain ⟨rfl, h3, h5⟩ := h; exact ih _ _ _ _ h5
    · obtain ⟨rfl, h3, h5⟩ := h; exact ⟨rfl, by omega, ih _ _ _ _ h5⟩
    · obtain ⟨rfl, rfl, h3, h4, h5⟩ := h; exact ⟨rfl, by omega, ih _ _ _ _ h5⟩

theorem newCover_tiling {e : Nat → Nat → Bool} (ops : List Op) (no nn : Nat) (hw : Walk e 0 0 ops no nn) :
    Tiling ((newCover ops).map (·.2)) nn := newCover_tilingFrom ops 0 0 no nn hw

/-- byte images of a tiling of the token indices tile the bytes -/
theorem tilingFrom_bytes (l : List Nat) (hl : ∀ x ∈ l, 0 < x) : ∀ (rs : List (Nat × Nat)) (n n' : Nat),
    TilingFrom n rs n' → n' ≤ l.length →
    TilingFrom (l.take n).sum (rs.map fun r => byteRange l r.1 r.2) (l.take n').sum
  | [], n, n', h, _ => by simp only [TilingFrom] at h; subst h; simp [TilingFrom]
  | (s, e) :: rs, n, n', ⟨h1, h2, h3⟩, hn => by
    subst h1
    have := TilingFrom.le h3
    exact ⟨rfl, take_sum_lt l _ _ hl h2 (by omega), tilingFrom_bytes l hl rs e n' h3 hn⟩

/-- **C17 (e), new side, byte level**: the byte ranges (in the new text) of the insert slices and of the
new-side images of the equal ops, in order, tile `[0, Σ ln)`; the flagged entries are exactly the
returned `Insert` slices (`remapOps_newRanges`) -/
theorem newCover_bytes_tiling {e : Nat → Nat → Bool} (lo ln : List Nat) (ops : List Op)
    (hln : ∀ x ∈ ln, 0 < x) (hw : Walk e 0 0 ops lo.length ln.length) :
    Tiling ((newCover ops).map fun c => byteRange ln c.2.1 c.2.2) ln.sum := by
  have := tilingFrom_bytes ln hln _ 0 _ (newCover_tiling ops _ _ hw) (Nat.le_refl _)
  simpa [Tiling, List.map_map, Function.comp_def] using this

theorem newRanges_cover (lo ln : List Nat) : ∀ (ops : List Op),
    newRanges ((ops.flatMap iterSlices).map (toBytes lo ln))
      = ((newCover ops).filter (·.1)).map fun c => byteRange ln c.2.1 c.2.2
  | [] => rfl
  | c :: cs => by
    have ih := newRanges_cover lo ln cs
    simp only [newRanges] at ih ⊢
    cases c <;> simp [iterSlices, newCover, toBytes, ih]

/-- the returned `Insert` slices are the byte images of the flagged entries of `newCover` -/
theorem remapOps_newRanges {e : Nat → Nat → Bool} (lo ln : List Nat) (ops : List Op)
    (hw : Walk e 0 0 ops lo.length ln.length) :
    ∃ sl, remapOps (remapIndexes 0 lo).toArray (remapIndexes 0 ln).toArray ops = .ok sl ∧
      newRanges sl = ((newCover ops).filter (·.1)).map fun c => byteRange ln c.2.1 c.2.2 :=
  ⟨_, remapOps_eq lo ln ops hw, newRanges_cover lo ln ops⟩

/-! ## byte level: the slices are the concatenations of the tokens, the texts are reconstructed -/

theorem slice_append (b : Bytes) {a m c : Nat} (h1 : a ≤ m) (h2 : m ≤ c) :
    slice b (a, m) ++ slice b (m, c) = slice b (a, c) := by
  simp only [slice]
  rw [show c - a = (m - a) + (c - m) from by omega, List.take_add, List.drop_drop,
    show a + (m - a) = m from by omega]

/-- the slice of the token range `[s, s+k)` is the concatenation of the tokens -/
theorem slice_tokens (b : Bytes) (l : List Nat) (s : Nat) : ∀ k : Nat,
    slice b (byteRange l s (s + k)) = ((List.range k).map fun t => slice b (byteRange l (s + t) (s + t + 1))).flatten
  | 0 => by simp [slice, byteRange]
  | k+1 => by
    rw [List.range_succ, List.map_append, List.flatten_append, ← slice_tokens b l s k]
    simp only [List.map_cons, List.map_nil, List.flatten_cons, List.flatten_nil, List.append_nil, byteRange]
    exact (slice_append b (take_sum_mono l (by omega)) (take_sum_mono l (by omega))).symm

/-- the bytes the remapper returns for a slice -/
def sliceText (bo bn : Bytes) (x : CTag × Bool × Nat × Nat) : Bytes := slice (if x.2.1 then bn else bo) x.2.2

/-- tokens that compare equal are byte-equal -/
def TokEq (e : Nat → Nat → Bool) (lo ln : List Nat) (bo bn : Bytes) : Prop :=
  ∀ i j, e i j = true → slice bo (byteRange lo i (i + 1)) = slice bn (byteRange ln j (j + 1))

theorem equal_run {e : Nat → Nat → Bool} {lo ln : List Nat} {bo bn : Bytes} (heq : TokEq e lo ln bo bn)
    (o n len : Nat) (h : ∀ t, t < len → e (o + t) (n + t) = true) :
    slice bo (byteRange lo o (o + len)) = slice bn (byteRange ln n (n + len)) := by
  rw [slice_tokens, slice_tokens]
  congr 1
  apply List.map_congr_left
  intro t ht
  exact heq _ _ (h t (List.mem_range.1 ht))

theorem old_text_gen (lo ln : List Nat) (bo bn : Bytes) : ∀ (ops : List Op),
    (((ops.flatMap iterSlices).map (toBytes lo ln)).filter (fun x => x.1 != .insert)).map (sliceText bo bn)
      = (oldRanges ((ops.flatMap iterSlices).map (toBytes lo ln))).map (slice bo)
  | [] => rfl
  | c :: cs => by
    have ih := old_text_gen lo ln bo bn cs
    simp only [oldRanges] at ih ⊢
    cases c <;> simp [iterSlices, toBytes, sliceText, ih]

/-- **C17, old text**: concatenating the non-`Insert` slices gives the old text -/
theorem remapOps_old_text {e : Nat → Nat → Bool} (lo ln : List Nat) (bo bn : Bytes) (ops : List Op)
    (hlo : ∀ x ∈ lo, 0 < x) (hbo : bo.length = lo.sum) (hw : Walk e 0 0 ops lo.length ln.length) :
    ∃ sl, remapOps (remapIndexes 0 lo).toArray (remapIndexes 0 ln).toArray ops = .ok sl ∧
      ((sl.filter (fun x => x.1 != .insert)).map (sliceText bo bn)).flatten = bo := by
  obtain ⟨sl, h1, h2⟩ := remapOps_old_tiling lo ln ops hlo hw
  refine ⟨sl, h1, ?_⟩
  rw [remapOps_eq lo ln ops hw] at h1
  cases h1
  rw [old_text_gen, (tiling_concat (b := bo) (hbo ▸ h2)).1]

set_option linter.unusedSimpArgs false in
theorem new_text_gen {e : Nat → Nat → Bool} (lo ln : List Nat) (bo bn : Bytes) (heq : TokEq e lo ln bo bn) :
    ∀ (ops : List Op) (o n o' n' : Nat), Walk e o n ops o' n' →
    ((((ops.flatMap iterSlices).map (toBytes lo ln)).filter (fun x => x.1 != .delete)).map (sliceText bo bn)).flatten
      = slice bn (byteRange ln n n') := by
  intro ops
  induction ops with
  | nil => intro o n o' n' h; obtain ⟨rfl, rfl⟩ := h; simp [slice, byteRange]
  | cons c cs ih =>
    intro o n o' n' h
    rw [List.flatMap_cons, List.map_append, List.filter_append, List.map_append, List.flatten_append]
    cases c <;> simp only [Walk] at h
    · obtain ⟨rfl, rfl, h3, h4, h5⟩ := h
      have hc := walk_counts _ _ _ _ _ h5
      rw [ih _ _ _ _ h5]
      simp only [iterSlices, toBytes, sliceText, List.map_cons, List.map_nil, List.filter_cons, List.filter_nil,
        Bool.false_eq_true, if_false, List.flatten_cons, List.flatten_nil, List.append_nil]
      rw [if_pos (by decide)]
      simp only [List.map_cons, List.map_nil, List.flatten_cons, List.flatten_nil, List.append_nil]
      simp only [sliceText, Bool.false_eq_true, if_false]
      rw [equal_run heq _ _ _ h4]
      exact slice_append bn (take_sum_mono ln (by omega)) (take_sum_mono ln (by omega))
    · obtain ⟨rfl, h3, h5⟩ := h
      rw [ih _ _ _ _ h5]
      simp [iterSlices, toBytes]
    · obtain ⟨rfl, h3, h5⟩ := h
      have hc := walk_counts _ _ _ _ _ h5
      rw [ih _ _ _ _ h5]
      simp only [iterSlices, toBytes, sliceText, List.map_cons, List.map_nil, List.filter_cons, List.filter_nil,
        if_true, List.flatten_cons, List.flatten_nil, List.append_nil]
      rw [if_pos (by decide)]
      simp only [List.map_cons, List.map_nil, List.flatten_cons, List.flatten_nil, List.append_nil, if_true]
      exact slice_append bn (take_sum_mono ln (by omega)) (take_sum_mono ln (by omega))
    · obtain ⟨rfl, rfl, h3, h4, h5⟩ := h
      have hc := walk_counts _ _ _ _ _ h5
      rw [ih _ _ _ _ h5]
      simp only [iterSlices, toBytes, sliceText, List.map_cons, List.map_nil, List.filter_cons, List.filter_nil,
        if_true, List.flatten_cons, List.flatten_nil, List.append_nil]
      rw [if_neg (by decide), if_pos (by decide)]
      simp only [List.map_cons, List.map_nil, List.flatten_cons, List.flatten_nil, List.append_nil, if_true]
      exact slice_append bn (take_sum_mono ln (by omega)) (take_sum_mono ln (by omega))

/-- **C17, new text**: when tokens that compare equal are byte-equal, concatenating the non-`Delete`
slices (the `Equal` ones are slices of the OLD text) gives the new text -/
theorem remapOps_new_text {e : Nat → Nat → Bool} (lo ln : List Nat) (bo bn : Bytes) (ops : List Op)
    (hbn : bn.length = ln.sum) (heq : TokEq e lo ln bo bn) (hw : Walk e 0 0 ops lo.length ln.length) :
    ∃ sl, remapOps (remapIndexes 0 lo).toArray (remapIndexes 0 ln).toArray ops = .ok sl ∧
      ((sl.filter (fun x => x.1 != .delete)).map (sliceText bo bn)).flatten = bn := by
  refine ⟨_, remapOps_eq lo ln ops hw, ?_⟩
  rw [new_text_gen lo ln bo bn heq ops 0 0 _ _ hw]
  simp [slice, byteRange, ← hbn]

end SimilarVerif.RemapP

import SimilarVerif.Lemmas.MyersOptimal
/-! # C19 — the number of comparisons of Myers' diff

`World.cmps` counts evaluations of `new[j] == old[i]`.  We bound the comparisons of

* one pass over the diagonals (`fwdPass_cost`, `bwdPass_cost`): the slides on the *inner* diagonals
  `|k| ≤ d-2` are paid for by the growth of a potential (the capped sum of the `V` entries in the window
  `[-(d-1), d-1]`: every cell of a diagonal is slid over at most once over all iterations), the two
  outer diagonals `k = ±d` cost at most `min n m` each, and every visited diagonal one failing comparison;
* one `find_middle_snake` call (`findMiddleSnake_cost`), using Myers' theory for the number of iterations
  (`2·d ≤ D+1` for every iteration `d` that starts);
* `conquer` / `myers::diff` without a deadline (`conquer_cmps`, `myers_cmps`):
  `cmps ≤ 22·(N+M)·D + (N+M) + 2 ≤ 22·(N+M+1)·(D+1)`.
-/
namespace SimilarVerif.MyersC
open SimilarVerif Spec MyersP MyersT

/-! ## A. The potential: a capped window sum over the `V` array -/

/-- the entry of diagonal `j`, capped at `n` (`0` when unreadable) -/
def capv (v : V) (off n : Nat) (j : Int) : Nat :=
  match vget v off j with
  | .ok x => min x n
  | .error _ => 0

/-- `Σ_{lo ≤ j < lo+c} capv v j` -/
def wsum (v : V) (off n : Nat) : Int → Nat → Nat
  | _, 0 => 0
  | lo, c+1 => capv v off n lo + wsum v off n (lo+1) c

theorem capv_le (v : V) (off n : Nat) (j : Int) : capv v off n j ≤ n := by
  unfold capv; split
  · exact Nat.min_le_right _ _
  · exact Nat.zero_le _

theorem wsum_le (v : V) (off n : Nat) : ∀ (c : Nat) (lo : Int), wsum v off n lo c ≤ c * n := by
  intro c
  induction c with
  | zero => intro lo; simp [wsum]
  | succ c ih =>
    intro lo
    simp only [wsum]
    have := ih (lo+1)
    have := capv_le v off n lo
    rw [Nat.succ_mul]; omega

theorem wsum_congr {v v' : V} {off n : Nat} : ∀ (c : Nat) (lo : Int),
    (∀ j, lo ≤ j → j < lo + c → vget v' off j = vget v off j) → wsum v' off n lo c = wsum v off n lo c := by
  intro c
  induction c with
  | zero => intro lo _; simp [wsum]
  | succ c ih =>
    intro lo h
    simp only [wsum]
    rw [ih (lo+1) (fun j h1 h2 => h j (by omega) (by omega))]
    have : capv v' off n lo = capv v off n lo := by unfold capv; rw [h lo (by omega) (by omega)]
    rw [this]

/-- raising one entry of the window by `a` raises the sum by at least `a` -/
theorem wsum_update {v v' : V} {off n : Nat} {k : Int} {a : Nat}
    (hfr : ∀ j, j ≠ k → vget v' off j = vget v off j) (hk : capv v off n k + a ≤ capv v' off n k) :
    ∀ (c : Nat) (lo : Int), lo ≤ k → k < lo + c → wsum v off n lo c + a ≤ wsum v' off n lo c := by
  intro c
  induction c with
  | zero => intro lo h1 h2; omega
  | succ c ih =>
    intro lo h1 h2
    simp only [wsum]
    by_cases hlo : lo = k
    · subst hlo
      rw [wsum_congr (v := v) (v' := v') c (lo+1) (fun j h1 _ => hfr j (by omega))]
      omega
    · have := ih (lo+1) (by omega) (by omega)
      have e : capv v' off n lo = capv v off n lo := by unfold capv; rw [hfr lo hlo]
      omega

theorem wsum_snoc (v : V) (off n : Nat) : ∀ (c : Nat) (lo : Int),
    wsum v off n lo (c+1) = wsum v off n lo c + capv v off n (lo + c) := by
  intro c
  induction c with
  | zero => intro lo; simp [wsum]
  | succ c ih =>
    intro lo
    rw [wsum, ih (lo+1), wsum]
    have : lo + 1 + (c:Int) = lo + ((c+1 : Nat) : Int) := by omega
    rw [this]; omega

/-- the window of iteration `d+1` contains the window of iteration `d` -/
theorem wsum_grow (v : V) (off n d : Nat) :
    wsum v off n (1 - (d:Int)) (2*d - 1) ≤ wsum v off n (1 - ((d+1 : Nat):Int)) (2*(d+1) - 1) := by
  cases d with
  | zero => simp [wsum]
  | succ d =>
    have e : 2 * (d + 1 + 1) - 1 = (2 * (d+1) - 1) + 1 + 1 := by omega
    rw [e, wsum_snoc, wsum]
    have : (1 - ((d + 1 + 1 : Nat) : Int)) + 1 = 1 - ((d+1 : Nat) : Int) := by omega
    rw [this]; omega

theorem wsum_le_K (v : V) (off n : Nat) {d K : Nat} (h : d ≤ K) (lo : Int) :
    wsum v off n lo (2*d - 1) ≤ (2*K+1) * n :=
  Nat.le_trans (wsum_le v off n _ lo) (Nat.mul_le_mul_right n (by omega))


/-! ## B. One diagonal of a pass -/

theorem startX_lo {v : V} {off d : Nat} {k : Int} {x0 : Nat} (h : startX v off (d:Int) k = .ok x0)
    (hk : k ≠ -(d:Int)) : ∃ a, vget v off (k-1) = .ok a ∧ a + 1 ≤ x0 := by
  unfold startX at h
  have : ¬ (k == -(d:Int)) = true := by simpa using hk
  rw [if_neg this] at h
  split at h
  · split at h
    · rename_i a b ha hb
      simp only [Except.ok.injEq] at h
      exact ⟨a, ha, by subst h; split <;> omega⟩
    · simp at h
    · simp at h
  · split at h
    · rename_i a ha
      simp only [Except.ok.injEq] at h
      exact ⟨a, ha, by omega⟩
    · simp at h

theorem startX_hi {v : V} {off d : Nat} {k : Int} {x0 : Nat} (h : startX v off (d:Int) k = .ok x0)
    (hk : k ≠ (d:Int)) : ∃ b, vget v off (k+1) = .ok b ∧ b ≤ x0 := by
  unfold startX at h
  split at h
  · exact ⟨x0, h, Nat.le_refl _⟩
  · have : (k != (d:Int)) = true := by simpa using hk
    rw [if_pos this] at h
    split at h
    · rename_i a b ha hb
      simp only [Except.ok.injEq] at h
      exact ⟨b, hb, by subst h; split <;> omega⟩
    · simp at h
    · simp at h

/-- what one diagonal of a pass does, as far as the cost is concerned: it reads its start `x0`, slides
`adv ≤ min n m` cells for at most `adv + 1` comparisons, stores `x0 + adv`, and then either returns (the
overlap test fired) or continues with the next diagonal -/
def StepFacts (v : V) (off d : Nat) (k : Int) (n m : Nat) (w : World) (v1 : V) (w1 : World) : Prop :=
  ∃ x0 adv, startX v off (d:Int) k = .ok x0 ∧ vset v off k (x0 + adv) = .ok v1 ∧
    w.cmps ≤ w1.cmps ∧ w1.cmps ≤ w.cmps + adv + 1 ∧ adv ≤ min n m ∧ (0 < adv → x0 + adv ≤ n)

theorem fwdPass_step {E : Env} {os oe ns ne off d : Nat} {delta : Int} {odd : Bool} {vb : V}
    {cnt : Nat} {k : Int} {vf : V} {w : World} {vf' : V} {res : Option (Nat × Nat)} {w' : World}
    (h : fwdPass E os oe ns ne off d delta odd vb (cnt+1) k vf w = .ok (vf', res, w')) :
    ∃ vf1 w1, StepFacts vf off d k (oe-os) (ne-ns) w vf1 w1 ∧
      ((res ≠ none ∧ vf' = vf1 ∧ w' = w1) ∨
        fwdPass E os oe ns ne off d delta odd vb cnt (k-2) vf1 w1 = .ok (vf', res, w')) := by
  simp only [fwdPass] at h
  split at h
  · simp at h
  · rename_i x0 hsx
    split at h
    · simp at h
    · rename_i x w1 hadv
      have hsl : ∃ adv, x = x0 + adv ∧ w.cmps ≤ w1.cmps ∧ w1.cmps ≤ w.cmps + adv + 1 ∧
          adv ≤ min (oe-os) (ne-ns) ∧ (0 < adv → x0 + adv ≤ oe-os) := by
        split at hadv
        · rename_i hcond
          simp only [Bool.and_eq_true, decide_eq_true_eq] at hcond
          split at hadv
          · rename_i adv w2 hc
            simp only [Except.ok.injEq, Prod.mk.injEq] at hadv
            obtain ⟨rfl, rfl⟩ := hadv
            obtain ⟨h1, h2, -, -, c1, c2, c3, c4⟩ := commonPrefixLen_spec hc
            exact ⟨adv, rfl, c3, by omega, by omega, fun _ => by omega⟩
          · simp at hadv
        · simp only [Except.ok.injEq, Prod.mk.injEq] at hadv
          obtain ⟨rfl, rfl⟩ := hadv
          exact ⟨0, rfl, Nat.le_refl _, by omega, Nat.zero_le _, fun h => by omega⟩
      obtain ⟨adv, rfl, c1, c2, c3, c4⟩ := hsl
      split at h
      · simp at h
      · rename_i vf1 hset
        refine ⟨vf1, w1, ⟨x0, adv, hsx, hset, c1, c2, c3, c4⟩, ?_⟩
        split at h
        · split at h
          · simp at h
          · split at h
            · split at h
              · simp at h
              · simp only [Except.ok.injEq, Prod.mk.injEq] at h
                obtain ⟨rfl, rfl, rfl⟩ := h
                exact Or.inl ⟨by simp, rfl, rfl⟩
            · exact Or.inr h
        · exact Or.inr h


theorem bwdPass_step {E : Env} {os oe ns ne off d : Nat} {delta : Int} {odd : Bool} {vf : V}
    {cnt : Nat} {k : Int} {vb : V} {w : World} {vb' : V} {res : Option (Nat × Nat)} {w' : World}
    (h : bwdPass E os oe ns ne off d delta odd vf (cnt+1) k vb w = .ok (vb', res, w')) :
    ∃ vb1 w1, StepFacts vb off d k (oe-os) (ne-ns) w vb1 w1 ∧
      ((res ≠ none ∧ vb' = vb1 ∧ w' = w1) ∨
        bwdPass E os oe ns ne off d delta odd vf cnt (k-2) vb1 w1 = .ok (vb', res, w')) := by
  simp only [bwdPass] at h
  split at h
  · simp at h
  · rename_i x0 hsx
    split at h
    · simp at h
    · rename_i x y w1 hadv
      have hsl : ∃ adv, x = x0 + adv ∧ w.cmps ≤ w1.cmps ∧ w1.cmps ≤ w.cmps + adv + 1 ∧
          adv ≤ min (oe-os) (ne-ns) ∧ (0 < adv → x0 + adv ≤ oe-os) := by
        split at hadv
        · rename_i hcond
          simp only [Bool.and_eq_true, decide_eq_true_eq] at hcond
          split at hadv
          · rename_i adv w2 hc
            simp only [Except.ok.injEq, Prod.mk.injEq] at hadv
            obtain ⟨rfl, -, rfl⟩ := hadv
            obtain ⟨h1, h2, -, -, c1, c2, c3, c4⟩ := commonSuffixLen_spec hc
            exact ⟨adv, rfl, c3, by omega, by omega, fun _ => by omega⟩
          · simp at hadv
        · simp only [Except.ok.injEq, Prod.mk.injEq] at hadv
          obtain ⟨rfl, -, rfl⟩ := hadv
          exact ⟨0, rfl, Nat.le_refl _, by omega, Nat.zero_le _, fun h => by omega⟩
      obtain ⟨adv, rfl, c1, c2, c3, c4⟩ := hsl
      split at h
      · simp at h
      · rename_i vb1 hset
        refine ⟨vb1, w1, ⟨x0, adv, hsx, hset, c1, c2, c3, c4⟩, ?_⟩
        split at h
        · split at h
          · simp at h
          · split at h
            · split at h
              · simp at h
              · simp only [Except.ok.injEq, Prod.mk.injEq] at h
                obtain ⟨rfl, rfl, rfl⟩ := h
                exact Or.inl ⟨by simp, rfl, rfl⟩
            · exact Or.inr h
        · exact Or.inr h


/-- the monotonicity invariant: an entry of level `d-2` (still in the array when iteration `d` reaches its
diagonal) is at most its lower neighbour of level `d-1` -/
def JK (v : V) (off d : Nat) (k : Int) : Prop :=
  ∀ j : Int, 2 - (d:Int) ≤ j → j ≤ (d:Int) - 2 → j ≤ k → (j - d) % 2 = 0 →
    ∀ a b, vget v off j = .ok a → vget v off (j-1) = .ok b → a ≤ b

/-- the potential of iteration `d`: the capped sum over the diagonals `[-(d-1), d-1]` -/
def pot (v : V) (off n d : Nat) : Nat := wsum v off n (1 - (d:Int)) (2*d - 1)

theorem vget_of_vset {v v1 : V} {off : Nat} {k : Int} {x : Nat} (h : vset v off k x = .ok v1) :
    ∃ a, vget v off k = .ok a := by
  unfold vset at h
  simp only at h
  split at h
  · simp at h
  · rename_i hi
    split at h
    · rename_i hlt
      unfold vget
      simp only [hi, if_false]
      rw [Array.getElem?_eq_getElem hlt]
      exact ⟨_, rfl⟩
    · simp at h

theorem step_facts {v v1 : V} {off d n m : Nat} {k : Int} {w w1 : World}
    (h : StepFacts v off d k n m w v1 w1) (hJ : JK v off d k) (hpar : (k - d) % 2 = 0) :
    (∀ j, j ≠ k → vget v1 off j = vget v off j) ∧
    w.cmps ≤ w1.cmps ∧
    (k = (d:Int) ∨ k = -(d:Int) → pot v1 off n d = pot v off n d ∧ w1.cmps ≤ w.cmps + min n m + 1) ∧
    (2 - (d:Int) ≤ k → k ≤ (d:Int) - 2 → w1.cmps + pot v off n d ≤ w.cmps + pot v1 off n d + 1) ∧
    (k ≠ (d:Int) → ∀ a b, vget v1 off k = .ok a → vget v1 off (k+1) = .ok b → b ≤ a) := by
  obtain ⟨x0, adv, hsx, hset, c1, c2, c3, c4⟩ := h
  obtain ⟨g1, g2, -⟩ := vset_ok hset
  refine ⟨g2, c1, ?_, ?_, ?_⟩
  · intro hk
    refine ⟨?_, by omega⟩
    unfold pot
    apply wsum_congr
    intro j h1 h2
    exact g2 j (by omega)
  · intro h1 h2
    obtain ⟨a, ha⟩ := vget_of_vset hset
    obtain ⟨b, hb, hbx⟩ := startX_lo hsx (by omega)
    have hab := hJ k h1 h2 (Int.le_refl _) hpar a b ha hb
    have : pot v off n d + adv ≤ pot v1 off n d := by
      unfold pot
      apply wsum_update g2 _ _ _ (by omega) (by omega)
      unfold capv
      rw [g1, ha]
      simp only
      by_cases hadv : 0 < adv
      · have := c4 hadv
        omega
      · omega
    omega
  · intro hk a b ha hb
    rw [g1] at ha
    rw [g2 (k+1) (by omega)] at hb
    obtain ⟨b', hb', hbx⟩ := startX_hi hsx hk
    rw [hb'] at hb
    simp only [Except.ok.injEq] at ha hb
    omega


/-! ## C. One pass over the diagonals -/

/-- the shape both passes share: `cnt` diagonals `k, k-2, …`, stopping early when the test fires -/
inductive PassRun (off d n m : Nat) : Nat → Int → V → World → V → Bool → World → Prop
  | done (k v w) : PassRun off d n m 0 k v w v false w
  | fire {cnt k v w v1 w1} : StepFacts v off d k n m w v1 w1 → PassRun off d n m (cnt+1) k v w v1 true w1
  | next {cnt k v w v1 w1 v' r w'} : StepFacts v off d k n m w v1 w1 →
      PassRun off d n m cnt (k-2) v1 w1 v' r w' → PassRun off d n m (cnt+1) k v w v' r w'

theorem fwdPass_run {E : Env} {os oe ns ne off d : Nat} {delta : Int} {odd : Bool} {vb : V} :
    ∀ (cnt : Nat) (k : Int) (vf : V) (w : World) (vf' : V) (res : Option (Nat × Nat)) (w' : World),
      fwdPass E os oe ns ne off d delta odd vb cnt k vf w = .ok (vf', res, w') →
      PassRun off d (oe-os) (ne-ns) cnt k vf w vf' res.isSome w' := by
  intro cnt
  induction cnt with
  | zero =>
    intro k vf w vf' res w' h
    simp [fwdPass] at h
    obtain ⟨rfl, rfl, rfl⟩ := h
    exact PassRun.done _ _ _
  | succ c ih =>
    intro k vf w vf' res w' h
    obtain ⟨vf1, w1, hs, hr⟩ := fwdPass_step h
    rcases hr with ⟨hne, rfl, rfl⟩ | hr
    · cases res with
      | none => exact absurd rfl hne
      | some p => exact PassRun.fire hs
    · exact PassRun.next hs (ih _ _ _ _ _ _ hr)

theorem bwdPass_run {E : Env} {os oe ns ne off d : Nat} {delta : Int} {odd : Bool} {vf : V} :
    ∀ (cnt : Nat) (k : Int) (vb : V) (w : World) (vb' : V) (res : Option (Nat × Nat)) (w' : World),
      bwdPass E os oe ns ne off d delta odd vf cnt k vb w = .ok (vb', res, w') →
      PassRun off d (oe-os) (ne-ns) cnt k vb w vb' res.isSome w' := by
  intro cnt
  induction cnt with
  | zero =>
    intro k vb w vb' res w' h
    simp [bwdPass] at h
    obtain ⟨rfl, rfl, rfl⟩ := h
    exact PassRun.done _ _ _
  | succ c ih =>
    intro k vb w vb' res w' h
    obtain ⟨vb1, w1, hs, hr⟩ := bwdPass_step h
    rcases hr with ⟨hne, rfl, rfl⟩ | hr
    · cases res with
      | none => exact absurd rfl hne
      | some p => exact PassRun.fire hs
    · exact PassRun.next hs (ih _ _ _ _ _ _ hr)

theorem JK_frame {v v1 : V} {off d : Nat} {k : Int} (hfr : ∀ j, j ≠ k → vget v1 off j = vget v off j)
    (hpar : (k - d) % 2 = 0) (h : JK v off d k) : JK v1 off d (k-2) := by
  intro j h1 h2 h3 h4 a b ha hb
  rw [hfr j (by omega)] at ha
  rw [hfr (j-1) (by omega)] at hb
  exact h j h1 h2 (by omega) h4 a b ha hb


/-- **cost of one pass** (either direction): the comparisons are paid by the growth of the potential, one
unit per visited diagonal, and `min n m` for each of the two outer diagonals `k = ±d` -/
theorem passRun_cost {off d n m : Nat} {cnt : Nat} {k : Int} {v : V} {w : World} {v' : V} {r : Bool} {w' : World}
    (h : PassRun off d n m cnt k v w v' r w') :
    k ≤ (d:Int) → -(d:Int) - 2 ≤ k - 2*cnt → (k - d) % 2 = 0 → JK v off d k →
    (∀ j : Int, ((j - d) % 2 ≠ 0 ∨ k < j ∨ j ≤ k - 2*cnt) → vget v' off j = vget v off j) ∧
    w'.cmps + pot v off n d ≤ w.cmps + pot v' off n d + cnt + (if k = (d:Int) then min n m else 0)
      + (if cnt = 0 then 0 else min n m) ∧
    w.cmps ≤ w'.cmps ∧
    (r = false → ∀ j : Int, j ≤ k → k - 2*cnt < j → (j - d) % 2 = 0 → j ≠ (d:Int) →
      ∀ a b, vget v' off j = .ok a → vget v' off (j+1) = .ok b → b ≤ a) := by
  induction h with
  | done k v w =>
    intro _ _ _ _
    refine ⟨fun _ _ => rfl, ?_, Nat.le_refl _, ?_⟩
    · rw [if_pos rfl]; omega
    · intro _ j h1 h2; omega
  | @fire cnt k v w v1 w1 hs =>
    intro hk1 hk2 hpar hJ
    obtain ⟨s1, s2, s3, s4, s5⟩ := step_facts (n := n) hs hJ hpar
    refine ⟨fun j hj => s1 j (by omega), ?_, s2, fun hr => by simp at hr⟩
    rw [if_neg (Nat.succ_ne_zero _)]
    by_cases hkd : k = (d:Int)
    · obtain ⟨e, c⟩ := s3 (Or.inl hkd)
      rw [if_pos hkd, e]; omega
    · rw [if_neg hkd]
      by_cases hkd' : k = -(d:Int)
      · obtain ⟨e, c⟩ := s3 (Or.inr hkd')
        rw [e]; omega
      · have := s4 (by omega) (by omega)
        omega
  | @next cnt k v w v1 w1 v' r w' hs hr ih =>
    intro hk1 hk2 hpar hJ
    obtain ⟨s1, s2, s3, s4, s5⟩ := step_facts (n := n) hs hJ hpar
    obtain ⟨i1, i2, i3, i4⟩ := ih (by omega) (by omega) (by omega) (JK_frame s1 hpar hJ)
    rw [if_neg (show ¬ k - 2 = (d:Int) by omega)] at i2
    refine ⟨?_, ?_, by omega, ?_⟩
    · intro j hj
      rw [i1 j (by omega), s1 j (by omega)]
    · rw [if_neg (Nat.succ_ne_zero _)]
      by_cases hkd : k = (d:Int)
      · obtain ⟨e, c⟩ := s3 (Or.inl hkd)
        rw [if_pos hkd]
        rw [e] at i2
        split at i2 <;> omega
      · rw [if_neg hkd]
        by_cases hkd' : k = -(d:Int)
        · obtain ⟨e, c⟩ := s3 (Or.inr hkd')
          rw [e] at i2
          have hc0 : cnt = 0 := by omega
          rw [if_pos hc0] at i2
          omega
        · have := s4 (by omega) (by omega)
          split at i2 <;> omega
    · intro hr' j h1 h2 h3 h4 a b ha hb
      by_cases hjk : j = k
      · subst hjk
        rw [i1 j (by omega)] at ha
        rw [i1 (j+1) (by omega)] at hb
        exact s5 h4 a b ha hb
      · exact i4 hr' j (by omega) (by omega) h3 h4 a b ha hb


/-- a whole pass of iteration `d` (diagonals `d, d-2, …, -d`) -/
theorem fullPass_cost {off d n m : Nat} {v : V} {w : World} {v' : V} {r : Bool} {w' : World}
    (h : PassRun off d n m (d+1) d v w v' r w') (hJ : JK v off d d) :
    w'.cmps + pot v off n d ≤ w.cmps + pot v' off n d + (d+1) + 2 * min n m ∧ w.cmps ≤ w'.cmps ∧
    (r = false → JK v' off (d+1) ((d+1 : Nat) : Int)) := by
  obtain ⟨-, p2, p3, p4⟩ := passRun_cost h (Int.le_refl _) (by omega) (by omega) hJ
  rw [if_pos rfl, if_neg (Nat.succ_ne_zero _)] at p2
  refine ⟨by omega, p3, ?_⟩
  intro hr j h1 h2 h3 h4 a b ha hb
  have := p4 hr (j-1) (by omega) (by omega) (by omega) (by omega) b a hb
    (by rw [show j - 1 + 1 = j from by omega]; exact ha)
  exact this

theorem probe_cmps {w w1 : World} {b : Bool} (h : probe w = (b, w1)) : w1.cmps = w.cmps := by
  unfold probe at h
  split at h <;> simp only [Prod.mk.injEq] at h <;> obtain ⟨-, rfl⟩ := h <;> rfl

/-- the comparisons `2·(i+1)` (one per visited diagonal) `+ 4·min n m` (outer diagonals) of the
iterations `i < d` that are not paid by the potential -/
def cst (mn : Nat) : Nat → Nat
  | 0 => 0
  | d+1 => cst mn d + 2*(d+1) + 4*mn

theorem cst_mono (mn : Nat) {d e : Nat} (h : d ≤ e) : cst mn d ≤ cst mn e := by
  induction e with
  | zero => have : d = 0 := by omega
            subst this; exact Nat.le_refl _
  | succ e ih =>
    by_cases hd : d = e+1
    · subst hd; exact Nat.le_refl _
    · have := ih (by omega)
      simp only [cst]; omega

theorem cst_eq (mn d : Nat) : cst mn d = d*(d+1) + 4*mn*d := by
  induction d with
  | zero => simp [cst]
  | succ d ih =>
    simp only [cst, ih]
    rw [Nat.mul_succ (4*mn) d, Nat.succ_mul d (d+1+1), Nat.mul_succ d (d+1)]
    omega


/-! ## D. The loop over `d` and `find_middle_snake` -/

/-- **cost of the loop** from iteration `d` on: with `K = ⌈D/2⌉` (no iteration beyond `K` starts, by Myers'
theory) the comparisons are at most `cst (K+1)` plus the final potentials `≤ (2K+1)·n` each -/
theorem snakeLoop_cost (E : Env) (os oe ns ne off : Nat) (delta : Int) (odd : Bool)
    (hdelta : delta = ((oe-os : Nat) : Int) - ((ne-ns : Nat) : Int)) (hodd : odd = (delta % 2 != 0)) :
    ∀ (cnt d : Nat) (vf vb : V) (w : World) (vf' vb' : V) (res : Option (Nat × Nat)) (w' : World),
      VPrev (fE E os oe ns ne) off vf d → VPrev (rE E os oe ns ne) off vb d →
      2 * d ≤ boxD E os oe ns ne + 1 → cnt + d = maxD (oe-os) (ne-ns) →
      JK vf off d d → JK vb off d d →
      snakeLoop E os oe ns ne off delta odd cnt d vf vb w = .ok (vf', vb', res, w') →
      w'.cmps + pot vf off (oe-os) d + pot vb off (oe-os) d + cst (min (oe-os) (ne-ns)) d ≤
        w.cmps + cst (min (oe-os) (ne-ns)) ((boxD E os oe ns ne + 1)/2 + 1)
          + 2 * ((2 * ((boxD E os oe ns ne + 1)/2) + 1) * (oe-os)) := by
  have hdual := dual_E E os oe ns ne
  have hpar := dist_par (fE E os oe ns ne) (oe-os) (ne-ns)
  have hle := dist_le_add (fE E os oe ns ne) (oe-os) (ne-ns)
  intro cnt
  induction cnt with
  | zero =>
    intro d vf vb w vf' vb' res w' hvf hvb hD hcnt _ _ h
    exfalso
    unfold boxD at hD
    unfold maxD at hcnt
    omega
  | succ c ih =>
    intro d vf vb w vf' vb' res w' hvf hvb hD hcnt hJf hJb h
    have hdK : d ≤ (boxD E os oe ns ne + 1)/2 := by omega
    have hcK : cst (min (oe-os) (ne-ns)) d + 2*(d+1) + 4 * min (oe-os) (ne-ns) ≤
        cst (min (oe-os) (ne-ns)) ((boxD E os oe ns ne + 1)/2 + 1) :=
      cst_mono (min (oe-os) (ne-ns)) (Nat.succ_le_succ hdK)
    have hpf : ∀ v : V, pot v off (oe-os) d ≤ (2 * ((boxD E os oe ns ne + 1)/2) + 1) * (oe-os) :=
      fun v => wsum_le_K v off (oe-os) hdK _
    simp only [snakeLoop] at h
    split at h
    · rename_i w1 hpr
      simp only [Except.ok.injEq, Prod.mk.injEq] at h
      obtain ⟨rfl, rfl, rfl, rfl⟩ := h
      have := probe_cmps hpr
      have := hpf vf; have := hpf vb
      omega
    · rename_i w1 hpr
      have hw1 := probe_cmps hpr
      have hdm : d < maxD (oe-os) (ne-ns) := by omega
      subst hdelta
      split at h
      · simp at h
      · rename_i vf1 p w2 hfw
        simp only [Except.ok.injEq, Prod.mk.injEq] at h
        obtain ⟨rfl, rfl, rfl, rfl⟩ := h
        obtain ⟨q1, q2, -⟩ := fullPass_cost (fwdPass_run _ _ _ _ _ _ _ hfw) hJf
        have := hpf vf1; have := hpf vb
        omega
      · rename_i vf1 w2 hfw
        obtain ⟨q1, q2, q3⟩ := fullPass_cost (fwdPass_run _ _ _ _ _ _ _ hfw) hJf
        obtain ⟨-, -, hpost⟩ := fwdPass_spec E os oe ns ne off d _ odd vb (d+1) d vf w1 vf1 none w2 hvf
          (Int.le_refl _) (by omega) (by omega) hfw
        have hvf1 : VInv (fE E os oe ns ne) off vf1 d := VInv_of_post hpost
        have hD1 : odd = true → 2 * d + 1 ≤ dist (fE E os oe ns ne) (oe-os) (ne-ns) := by
          intro hoddt
          have hop : (((oe-os : Nat) : Int) - ((ne-ns : Nat) : Int)) % 2 ≠ 0 := by
            rw [hodd] at hoddt; simpa using hoddt
          unfold boxD at hD
          cases d with
          | zero => omega
          | succ d' =>
            simp only [VPrev] at hvb
            simp only [PassPost] at hpost
            subst hoddt
            have hne := nofire_ne hdual (d := d'+1) (d' := d') (v' := vf1) (vo := vb) (off := off) (by
              intro j h1 h2 h3
              have := hpost j h1 (by omega) h3
              rwa [show (((d'+1 : Nat) : Int) - 1) = (d':Int) from by omega] at this) hvb
            omega
        split at h
        · simp at h
        · rename_i vb1 p w3 hbw
          simp only [Except.ok.injEq, Prod.mk.injEq] at h
          obtain ⟨rfl, rfl, rfl, rfl⟩ := h
          obtain ⟨r1, r2, -⟩ := fullPass_cost (bwdPass_run _ _ _ _ _ _ _ hbw) hJb
          have := hpf vf1; have := hpf vb1
          omega
        · rename_i vb1 w3 hbw
          obtain ⟨r1, r2, r3⟩ := fullPass_cost (bwdPass_run _ _ _ _ _ _ _ hbw) hJb
          obtain ⟨-, -, hpost⟩ := bwdPass_spec E os oe ns ne off d _ odd vf1 (d+1) d vb w2 vb1 none w3 hvb
            (Int.le_refl _) (by omega) (by omega) hbw
          have hvb1 : VInv (rE E os oe ns ne) off vb1 d := VInv_of_post hpost
          have hD2 : odd = false → 2 * d + 1 ≤ dist (fE E os oe ns ne) (oe-os) (ne-ns) := by
            intro hev
            have hep : (((oe-os : Nat) : Int) - ((ne-ns : Nat) : Int)) % 2 = 0 := by
              rw [hodd] at hev; simpa using hev
            simp only [PassPost] at hpost
            subst hev
            have hne := nofire_ne hdual.symm (d := d) (d' := d) (v' := vb1) (vo := vf1) (off := off) (by
              intro j h1 h2 h3
              exact hpost j h1 (by omega) h3) hvf1
            rw [← hdual.dist_eq] at hne
            unfold boxD at hD
            omega
          have hD3 : 2 * (d+1) ≤ boxD E os oe ns ne + 1 := by
            unfold boxD
            cases hb : odd with
            | true => have := hD1 hb; omega
            | false => have := hD2 hb; omega
          have hrec := ih (d+1) vf1 vb1 w3 vf' vb' res w' hvf1 hvb1 hD3 (by omega)
            (q3 rfl) (r3 rfl) h
          have g1 : pot vf1 off (oe-os) d ≤ pot vf1 off (oe-os) (d+1) := wsum_grow vf1 off (oe-os) d
          have g2 : pot vb1 off (oe-os) d ≤ pot vb1 off (oe-os) (d+1) := wsum_grow vb1 off (oe-os) d
          rw [show cst (min (oe-os) (ne-ns)) (d+1) = cst (min (oe-os) (ne-ns)) d + 2*(d+1)
            + 4 * min (oe-os) (ne-ns) from rfl] at hrec
          omega


/-- **cost of one `find_middle_snake` call** on a box `n × m` with edit distance `D`, `K = ⌈D/2⌉`
(any clock; no hypothesis on `off`, the arrays or the bounds):
`cmps ≤ (K+1)(K+2) + 4·min n m·(K+1) + 2·(2K+1)·n` -/
theorem findMiddleSnake_cost {E : Env} {os oe ns ne off : Nat} {vf vb : V} {w : World}
    {vf' vb' : V} {res : Option (Nat × Nat)} {w' : World}
    (h : findMiddleSnake E os oe ns ne off vf vb w = .ok (vf', vb', res, w')) :
    w'.cmps ≤ w.cmps + cst (min (oe-os) (ne-ns)) ((boxD E os oe ns ne + 1)/2 + 1)
      + 2 * ((2 * ((boxD E os oe ns ne + 1)/2) + 1) * (oe-os)) := by
  unfold findMiddleSnake at h
  simp only at h
  split at h
  · simp at h
  · rename_i vf1 hs1
    split at h
    · simp at h
    · rename_i vb1 hs2
      split at h
      · simp at h
      · have := snakeLoop_cost E os oe ns ne off _ _ rfl rfl _ 0 vf1 vb1 w vf' vb' res w' ?_ ?_
          (Nat.zero_le _) rfl ?_ ?_ h
        · have e0 : ∀ v : V, pot v off (oe-os) 0 = 0 := fun v => rfl
          rw [e0, e0, show cst (min (oe-os) (ne-ns)) 0 = 0 from rfl] at this
          omega
        · intro a ha
          rw [(vset_ok hs1).1] at ha
          simp only [Except.ok.injEq] at ha
          exact ha.symm
        · intro a ha
          rw [(vset_ok hs2).1] at ha
          simp only [Except.ok.injEq] at ha
          exact ha.symm
        · intro j h1 h2; omega
        · intro j h1 h2; omega


/-! ## E. Arithmetic of the recurrence -/

/-- the per-call bound is at most `22·(n+m)·⌊D/2⌋ - 4` on a stripped box (`h = ⌊D/2⌋ ≥ 1`, `K = ⌈D/2⌉`) -/
theorem call_arith (K h l n mn : Nat) (h1 : 1 ≤ h) (hK : K ≤ h + 1) (hl : 2 * h ≤ l) (hmn : 2 * mn ≤ l)
    (hn : n + 1 ≤ l) : cst mn (K+1) + 2 * ((2*K+1) * n) + 4 ≤ 22 * (l * h) := by
  rw [cst_eq]
  have a1 : (K+1) * (K+1+1) ≤ (3*h) * (2*l) := Nat.mul_le_mul (by omega) (by omega)
  have a2 : 4 * mn * (K+1) ≤ (2*l) * (3*h) := Nat.mul_le_mul (by omega) (by omega)
  have a3 : (2*K+1) * n ≤ (5*h) * n := Nat.mul_le_mul_right n (by omega)
  have a4 : (5*h) * (n+1) ≤ (5*h) * l := Nat.mul_le_mul_left _ hn
  rw [Nat.mul_mul_mul_comm] at a1 a2
  rw [Nat.mul_succ] at a4
  rw [Nat.mul_assoc 5 h l] at a4
  rw [Nat.mul_comm h l] at a1 a4
  omega

/-- the recurrence: the call, plus both halves at distance `≤ D - ⌊D/2⌋`, fit into `22·L·D` -/
theorem conq_arith (F h D D1 D2 l l1 l2 L : Nat) (hF : F + 4 ≤ 22 * (l * h)) (hh : h ≤ D)
    (hD1 : D1 ≤ D - h) (hD2 : D2 ≤ D - h) (hl : l1 + l2 = l) (hL : l ≤ L) :
    F + 22 * (l1 * D1) + 22 * (l2 * D2) + 4 ≤ 22 * (L * D) := by
  have b1 : l1 * D1 ≤ l1 * (D - h) := Nat.mul_le_mul_left _ hD1
  have b2 : l2 * D2 ≤ l2 * (D - h) := Nat.mul_le_mul_left _ hD2
  have b3 : l1 * (D - h) + l2 * (D - h) = l * (D - h) := by rw [← Nat.add_mul, hl]
  have b4 : l * (D - h) + l * h = l * D := by rw [← Nat.mul_add]; congr 1; omega
  have b5 : l * D ≤ L * D := Nat.mul_le_mul_right _ hL
  omega


/-! ## F. `conquer` and `myers::diff` -/

/-- a hook that neither compares items nor touches the clock (e.g. the recording hook) -/
def HookQuiet {σ} (h : Hook σ) : Prop :=
  ∀ c s w s' w', h.call c s w = .ok (s', w') → w'.cmps = w.cmps ∧ w'.clock = w.clock

theorem map_pair_world {α} {x : Res α} {w w' : World} {s' : α}
    (h : x.map (·, w) = .ok (s', w')) : w' = w := by
  cases x with
  | error e => simp [Except.map] at h
  | ok a => simp [Except.map] at h; exact h.2.symm

theorem recHook_quiet : HookQuiet recHook := by
  intro c s w s' w' h
  have : w' = w := by
    unfold recHook at h
    simp only at h
    split at h
    · split at h
      · exact map_pair_world h
      · split at h
        · simp at h
        · exact map_pair_world h
    · exact map_pair_world h
  subst this
  exact ⟨rfl, rfl⟩

theorem emit_quiet {σ} {h : Hook σ} (hq : HookQuiet h) {x : Op} {s s' : σ} {w w' : World}
    (he : emit h x s w = .ok (s', w')) : w'.cmps = w.cmps ∧ w'.clock = w.clock := hq _ _ _ _ _ he

/-- the left half of a split has the forward distance of the split point -/
theorem boxD_left {E : Env} {os oe ns ne x y : Nat} (h1 : os ≤ x) (h2 : x ≤ oe) (h3 : ns ≤ y) (h4 : y ≤ ne) :
    boxD E os x ns y = dist (fE E os oe ns ne) (x - os) (y - ns) := by
  unfold boxD
  apply dist_congr _ _ _ (Nat.lt_succ_self _)
  intro x' y' hx hy
  rw [fE_eq (by omega) (by omega), fE_eq (by omega) (by omega)]


/-- **C19 for `conquer`**: without a deadline, with a hook that does not compare, `conquer` on a box of
`N × M` items with edit distance `D` makes at most `22·(N+M)·D + (N+M) + 2` comparisons -/
theorem conquer_cmps {σ} (E : Env) (h : Hook σ) (hq : HookQuiet h) (off : Nat) :
    ∀ (fuel os oe ns ne : Nat) (vf vb : V) (s : σ) (w : World) (s' : σ) (vf' vb' : V) (w' : World),
      os ≤ oe → ns ≤ ne → w.clock = none →
      conquer E h off fuel os oe ns ne vf vb s w = .ok (s', vf', vb', w') →
      w'.cmps ≤ w.cmps + 22 * (((oe-os) + (ne-ns)) * boxD E os oe ns ne) + ((oe-os) + (ne-ns)) + 2 ∧
        w'.clock = none := by
  intro fuel
  induction fuel with
  | zero => intro os oe ns ne vf vb s w s' vf' vb' w' _ _ _ hc; simp [conquer] at hc
  | succ f ih =>
    intro os oe ns ne vf vb s w s' vf' vb' w' ho hn hc hrun
    simp only [conquer] at hrun
    split at hrun
    · simp at hrun
    · rename_i p w1 hp
      obtain ⟨hp1, hp2, hp3, hp4, hp5⟩ := commonPrefixLen_spec hp
      have hc1 : w1.clock = none := by rw [hp5.1]; exact hc
      split at hrun
      · simp at hrun
      · rename_i s1 w2 hpre
        have hpre' : w2.cmps = w1.cmps ∧ w2.clock = none := by
          split at hpre
          · obtain ⟨e1, e2⟩ := emit_quiet hq hpre
            exact ⟨e1, by rw [e2]; exact hc1⟩
          · simp only [Except.ok.injEq, Prod.mk.injEq] at hpre
            obtain ⟨-, rfl⟩ := hpre
            exact ⟨rfl, hc1⟩
        obtain ⟨hw2, hc2⟩ := hpre'
        have hD1 := boxD_strip_prefix (E := E) hp1 hp2 hp3
        split at hrun
        · simp at hrun
        · rename_i sl w3 hs
          obtain ⟨hs1, hs2, hs3, hs4, hs5⟩ := commonSuffixLen_spec hs
          have hc3 : w3.clock = none := by rw [hs5.1]; exact hc2
          have hD2 := boxD_strip_suffix (E := E) (os := os+p) (ns := ns+p) hs1 hs2 hs3
          split at hrun
          · simp at hrun
          · rename_i s2 vf2 vb2 w4 hmid
            have hmid' : w4.cmps ≤ w3.cmps + 22 * (((oe-os) + (ne-ns)) * boxD E os oe ns ne)
                + ((oe - sl - (os+p)) + (ne - sl - (ns+p))) ∧ w4.clock = none := by
              split at hmid
              · simp only [Except.ok.injEq, Prod.mk.injEq] at hmid
                obtain ⟨-, -, -, rfl⟩ := hmid
                exact ⟨by omega, hc3⟩
              · split at hmid
                · split at hmid
                  · simp at hmid
                  · rename_i sa wa hem
                    simp only [Except.ok.injEq, Prod.mk.injEq] at hmid
                    obtain ⟨-, -, -, rfl⟩ := hmid
                    obtain ⟨e1, e2⟩ := emit_quiet hq hem
                    exact ⟨by omega, by rw [e2]; exact hc3⟩
                · rename_i hne
                  split at hmid
                  · split at hmid
                    · simp at hmid
                    · rename_i sa wa hem
                      simp only [Except.ok.injEq, Prod.mk.injEq] at hmid
                      obtain ⟨-, -, -, rfl⟩ := hmid
                      obtain ⟨e1, e2⟩ := emit_quiet hq hem
                      exact ⟨by omega, by rw [e2]; exact hc3⟩
                  · rename_i hoe
                    have ho' : os + p < oe - sl := by omega
                    have hn' : ns + p < ne - sl := by omega
                    split at hmid
                    · simp at hmid
                    · rename_i vf5 vb5 x y w5 hfm
                      have hsp := findMiddleSnake_spec (Nat.le_of_lt ho') (Nat.le_of_lt hn') hfm
                      simp only [LoopPost] at hsp
                      obtain ⟨hx1, hx2, hy1, hy2, h5, h6, h7⟩ := id hsp
                      simp only at hx1 hx2 hy1 hy2 h5 h6 h7
                      have hc5 : w5.clock = none := findMiddleSnake_clock hfm hc3
                      have hcost := findMiddleSnake_cost hfm
                      split at hmid
                      · simp at hmid
                      · rename_i sa vfa vba wa hca
                        obtain ⟨ia, hca'⟩ := ih _ _ _ _ _ _ _ _ _ _ _ _ hx1 hy1 hc5 hca
                        obtain ⟨ib, hcb'⟩ := ih _ _ _ _ _ _ _ _ _ _ _ _ hx2 hy2 hca' hmid
                        refine ⟨?_, hcb'⟩
                        have hDD : boxD E os oe ns ne = boxD E (os+p) (oe-sl) (ns+p) (ne-sl) := by
                          rw [hD1, hD2]
                        have hsplit := boxD_split hsp
                        have hL := boxD_left (E := E) hx1 hx2 hy1 hy2
                        have hge : 2 ≤ boxD E (os+p) (oe-sl) (ns+p) (ne-sl) :=
                          dist_ge_two (f := fE E (os+p) (oe-sl) (ns+p) (ne-sl)) (by omega) (by omega)
                            (by rw [fE_first ho' hn']; exact hp4 (by omega) (by omega))
                            (by rw [fE_last ho' hn']
                                have := hs4 (by omega) (by omega)
                                rwa [show oe - sl - 1 = oe - 1 - sl from by omega,
                                  show ne - sl - 1 = ne - 1 - sl from by omega])
                        have hle : boxD E (os+p) (oe-sl) (ns+p) (ne-sl) ≤ _ :=
                          dist_le_add (fE E (os+p) (oe-sl) (ns+p) (ne-sl)) (oe-sl-(os+p)) (ne-sl-(ns+p))
                        rw [← hL] at h5 h6
                        change _ ≤ boxD E (os+p) (oe-sl) (ns+p) (ne-sl) + 1 at h6
                        change _ ≤ boxD E (os+p) (oe-sl) (ns+p) (ne-sl) at h7
                        change _ = boxD E (os+p) (oe-sl) (ns+p) (ne-sl) at h5
                        have hF := call_arith ((boxD E (os+p) (oe-sl) (ns+p) (ne-sl) + 1)/2)
                          (boxD E (os+p) (oe-sl) (ns+p) (ne-sl) / 2)
                          ((oe-sl-(os+p)) + (ne-sl-(ns+p))) (oe-sl-(os+p))
                          (min (oe-sl-(os+p)) (ne-sl-(ns+p))) (by omega) (by omega) (by omega) (by omega) (by omega)
                        have hR := conq_arith _ _ (boxD E (os+p) (oe-sl) (ns+p) (ne-sl))
                          (boxD E (os+p) x (ns+p) y) (boxD E x (oe-sl) y (ne-sl))
                          _ ((x-(os+p)) + (y-(ns+p))) ((oe-sl-x) + (ne-sl-y)) ((oe-os) + (ne-ns))
                          hF (by omega) (by omega) (by omega) (by omega) (by omega)
                        rw [hDD]
                        omega
                    · rename_i vf5 vb5 w5 hfm
                      have hsp := findMiddleSnake_spec (Nat.le_of_lt ho') (Nat.le_of_lt hn') hfm
                      simp only [LoopPost] at hsp
                      exact absurd hc3 hsp
            obtain ⟨hw4, hc4⟩ := hmid'
            have hpost : w'.cmps = w4.cmps ∧ w'.clock = none := by
              split at hrun
              · split at hrun
                · simp at hrun
                · rename_i sc wc hem
                  simp only [Except.ok.injEq, Prod.mk.injEq] at hrun
                  obtain ⟨-, -, -, rfl⟩ := hrun
                  obtain ⟨e1, e2⟩ := emit_quiet hq hem
                  exact ⟨e1, by rw [e2]; exact hc4⟩
              · simp only [Except.ok.injEq, Prod.mk.injEq] at hrun
                obtain ⟨-, -, -, rfl⟩ := hrun
                exact ⟨rfl, hc4⟩
            obtain ⟨hw', hc'⟩ := hpost
            refine ⟨?_, hc'⟩
            have := hp5.2.2.2
            have := hs5.2.2.2
            omega


/-- **C19 for `myers::diff`** (no deadline, a hook that does not compare): at most
`22·(N+M)·D + (N+M) + 2` comparisons, where `D = boxD E os oe ns ne` is the size of the shortest edit
script (`D + 2·LCS = N + M`, `boxD_lcs`; `myers_optimal`: it is the cost of the emitted script). -/
theorem myers_cmps {σ} (E : Env) (h : Hook σ) (hq : HookQuiet h) (os oe ns ne : Nat) (s : σ) (w : World)
    (s' : σ) (w' : World) (ho : os ≤ oe) (hn : ns ≤ ne) (hc : w.clock = none)
    (hrun : myersDiff E h os oe ns ne s w = .ok (s', w')) :
    w'.cmps ≤ w.cmps + 22 * (((oe-os) + (ne-ns)) * boxD E os oe ns ne) + ((oe-os) + (ne-ns)) + 2 := by
  unfold myersDiff at hrun
  simp only at hrun
  split at hrun
  · simp at hrun
  · rename_i s1 vf1 vb1 w1 hcq
    obtain ⟨h1, -⟩ := conquer_cmps E h hq _ _ os oe ns ne _ _ s w s1 vf1 vb1 w1 ho hn hc hcq
    have := (hq _ _ _ _ _ hrun).1
    omega

/-- the headline form: `cmps ≤ 22·(N+M+1)·(D+1)` -/
theorem myers_cmps' {σ} (E : Env) (h : Hook σ) (hq : HookQuiet h) (os oe ns ne : Nat) (s : σ) (w : World)
    (s' : σ) (w' : World) (ho : os ≤ oe) (hn : ns ≤ ne) (hc : w.clock = none)
    (hrun : myersDiff E h os oe ns ne s w = .ok (s', w')) :
    w'.cmps ≤ w.cmps + 22 * (((oe-os) + (ne-ns) + 1) * (boxD E os oe ns ne + 1)) ∧
      boxD E os oe ns ne + 2 * lcsLen (eqB E) (oe-os) (ne-ns) os ns = (oe-os) + (ne-ns) := by
  have h1 := myers_cmps E h hq os oe ns ne s w s' w' ho hn hc hrun
  refine ⟨?_, boxD_lcs E os oe ns ne⟩
  have e : ((oe-os) + (ne-ns) + 1) * (boxD E os oe ns ne + 1) =
      ((oe-os) + (ne-ns)) * boxD E os oe ns ne + ((oe-os) + (ne-ns)) + boxD E os oe ns ne + 1 := by
    rw [Nat.add_mul, Nat.mul_add, Nat.mul_one, Nat.one_mul]; omega
  rw [e]; omega

/-- the recording hook of the harness, from the empty trace -/
theorem myers_cmps_rec (E : Env) (os oe ns ne : Nat) (r : Rec) (w : World) (r' : Rec) (w' : World)
    (ho : os ≤ oe) (hn : ns ≤ ne) (hc : w.clock = none)
    (hrun : myersDiff E recHook os oe ns ne r w = .ok (r', w')) :
    w'.cmps ≤ w.cmps + 22 * (((oe-os) + (ne-ns) + 1) * (boxD E os oe ns ne + 1)) :=
  (myers_cmps' E recHook recHook_quiet os oe ns ne r w r' w' ho hn hc hrun).1

#print axioms myers_cmps'
#print axioms myers_cmps_rec
#print axioms findMiddleSnake_cost
#print axioms conquer_cmps

end SimilarVerif.MyersC

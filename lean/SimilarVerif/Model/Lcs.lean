import SimilarVerif.Model.Myers
/-! `src/algorithms/lcs.rs` (after the `fix:` commits for D1–D4, see DESIGN.md §6) -/
namespace SimilarVerif

/-- The `BTreeMap<(usize,usize),u32>` as a dense row-major array of width `ol+1`; a missing key
reads as 0 exactly like `.get(..).unwrap_or(&0)`. -/
structure Table where
  width : Nat
  cells : Array Nat
  deriving Repr, Inhabited

def Table.get (t : Table) (i j : Nat) : Nat :=
  if j < t.width then t.cells.getD (i * t.width + j) 0 else 0

def Table.set (t : Table) (i j v : Nat) : Table :=
  if j < t.width then { t with cells := t.cells.setIfInBounds (i * t.width + j) v } else t

/-- inner `for j in (0..old_len).rev()`; `cnt` = iterations left, current `j = cnt - 1`. -/
def tableRow (E : Env) (os ns i : Nat) : (cnt : Nat) → Table → World → Res (Table × World)
  | 0, t, w => .ok (t, w)
  | j+1, t, w =>
    match cmp E (os + j) (ns + i) w with
    | .error e => .error e
    | .ok (b, w) =>
      let v := if b then t.get (i+1) (j+1) + 1 else max (t.get (i+1) j) (t.get i (j+1))
      tableRow E os ns i j (if 0 < v then t.set i j v else t) w

/-- outer `for i in (0..new_len).rev()`; `none` = the deadline was exceeded. -/
def tableRows (E : Env) (os ns ol : Nat) : (cnt : Nat) → Table → World → Res (Option Table × World)
  | 0, t, w => .ok (some t, w)
  | i+1, t, w =>
    match probe w with
    | (true, w) => .ok (none, w)
    | (false, w) =>
      match tableRow E os ns i ol t w with
      | .error e => .error e
      | .ok (t, w) => tableRows E os ns ol i t w

/-- `make_table(old, os..oe, new, ns..ne, deadline)` with absolute indices -/
def makeTable (E : Env) (os oe ns ne : Nat) (w : World) : Res (Option Table × World) :=
  let ol := oe - os
  let nl := ne - ns
  tableRows E os ns ol nl { width := ol + 1, cells := Array.replicate ((nl + 1) * (ol + 1)) 0 } w

/-- the `while new_idx < new_len && old_idx < old_len` walk; returns the cursors -/
def lcsWalk {σ} (E : Env) (h : Hook σ) (t : Table) (o0 n0 ol nl : Nat) :
    (fuel : Nat) → (oi ni : Nat) → σ → World → Res (Nat × Nat × σ × World)
  | 0, oi, ni, s, w => if ni < nl && oi < ol then .error .fuel else .ok (oi, ni, s, w)
  | fuel+1, oi, ni, s, w =>
    if ni < nl && oi < ol then
      match cmp E (o0 + oi) (n0 + ni) w with
      | .error e => .error e
      | .ok (true, w) =>
        (match emit h (.equal (o0 + oi) (n0 + ni) 1) s w with
         | .error e => .error e
         | .ok (s, w) => lcsWalk E h t o0 n0 ol nl fuel (oi+1) (ni+1) s w)
      | .ok (false, w) =>
        if t.get ni (oi+1) ≥ t.get (ni+1) oi then
          (match emit h (.delete (o0 + oi) 1 (n0 + ni)) s w with
           | .error e => .error e
           | .ok (s, w) => lcsWalk E h t o0 n0 ol nl fuel (oi+1) ni s w)
        else
          (match emit h (.insert (o0 + oi) (n0 + ni) 1) s w with
           | .error e => .error e
           | .ok (s, w) => lcsWalk E h t o0 n0 ol nl fuel oi (ni+1) s w)
    else .ok (oi, ni, s, w)

/-- `lcs::diff_deadline` -/
def lcsDiff {σ} (E : Env) (h : Hook σ) (os oe ns ne : Nat) (s : σ) (w : World) : Res (σ × World) :=
  if ne ≤ ns then
    if oe ≤ os then h.call .finish s w
    else
      match emit h (.delete os (oe - os) ns) s w with
      | .error e => .error e
      | .ok (s, w) => h.call .finish s w
  else if oe ≤ os then
    match emit h (.insert os ns (ne - ns)) s w with
    | .error e => .error e
    | .ok (s, w) => h.call .finish s w
  else
    match commonPrefixLen E os oe ns ne w with
    | .error e => .error e
    | .ok (p, w) =>
    match commonSuffixLen E (os + p) oe (ns + p) ne w with
    | .error e => .error e
    | .ok (sl, w) =>
    if p == oe - os && oe - os == ne - ns then
      match emit h (.equal os ns (oe - os)) s w with
      | .error e => .error e
      | .ok (s, w) => h.call .finish s w
    else
    match makeTable E (os + p) (oe - sl) (ns + p) (ne - sl) w with
    | .error e => .error e
    | .ok (mt, w) =>
    let nl := (ne - ns) - p - sl
    let ol := (oe - os) - p - sl
    match (if 0 < p then emit h (.equal os ns p) s w else .ok (s, w)) with
    | .error e => .error e
    | .ok (s, w) =>
    match (match mt with
           | some t => lcsWalk E h t (os + p) (ns + p) ol nl (ol + nl) 0 0 s w
           | none => .ok (0, 0, s, w)) with
    | .error e => .error e
    | .ok (oi, ni, s, w) =>
    match (if oi < ol then
             (match emit h (.delete (os + p + oi) (ol - oi) (ns + p + ni)) s w with
              | .error e => .error e
              | .ok (s, w) => .ok (ol, s, w))
           else (.ok (oi, s, w) : Res (Nat × σ × World))) with
    | .error e => .error e
    | .ok (oi, s, w) =>
    match (if ni < nl then emit h (.insert (os + p + oi) (ns + p + ni) (nl - ni)) s w else .ok (s, w)) with
    | .error e => .error e
    | .ok (s, w) =>
    match (if 0 < sl then emit h (.equal (os + ol + p) (ns + nl + p) sl) s w else .ok (s, w)) with
    | .error e => .error e
    | .ok (s, w) => h.call .finish s w

end SimilarVerif

import SimilarVerif.Model.Iter
import SimilarVerif.Model.Text
/-! `src/udiff.rs`: unified diff rendering, both the `Display` path (lossy) and `to_writer` (raw). -/
namespace SimilarVerif

def ascii (s : String) : Bytes := s.toList.map fun c => c.toNat.toUInt8

/-- decimal digits of a number, as `{}` prints a `usize` -/
def natBytes (n : Nat) : Bytes := (Nat.toDigits 10 n).map fun c => c.toNat.toUInt8

/-- `String::from_utf8_lossy` / `to_string_lossy`: every maximal invalid subpart becomes U+FFFD -/
def lossy (b : Bytes) : Bytes := (charIndicesB b.length 0 b).flatMap fun (_, _, c) => utf8Enc c

/-- `Display for UnifiedDiffHunkRange` -/
def hunkRange (s e : Nat) : Bytes :=
  let len := e - s
  if len = 1 then natBytes (s + 1)
  else natBytes (if len = 0 then s + 1 - 1 else s + 1) ++ ascii "," ++ natBytes len

/-- `UnifiedHunkHeader::new(ops)` + `Display`; `ops[0]` panics on an empty group -/
def hunkHeader (ops : List Op) : Res Bytes :=
  match ops.head?, ops.getLast? with
  | some first, some last =>
    .ok (ascii "@@ -" ++ hunkRange first.oStart last.oEnd ++ ascii " +" ++ hunkRange first.nStart last.nEnd ++ ascii " @@")
  | _, _ => .error .panic

def tagByte : CTag → UInt8
  | .equal => 32 | .delete => 45 | .insert => 43

/-- the value of a change: `old[idx]` or `new[idx]` (panics out of bounds) -/
def changeValue (old new : Array Bytes) (c : Change) : Res Bytes :=
  match (if c.fromNew then new[c.idx]? else old[c.idx]?) with
  | some v => .ok v
  | none => .error .panic

/-- one body line -/
def renderChange (old new : Array Bytes) (nlt hint isLossy : Bool) (c : Change) : Res Bytes :=
  match changeValue old new c with
  | .error e => .error e
  | .ok v =>
    let body := [tagByte c.tag] ++ (if isLossy then lossy v else v)
    let body := if !nlt then body ++ [10] else body
    let body := if nlt && !endsWithNewline v then
        body ++ (if hint then ascii "\n\\ No newline at end of file" else []) ++ [10]
      else body
    .ok body

def renderChanges (old new : Array Bytes) (nlt hint isLossy : Bool) : List Change → Res Bytes
  | [] => .ok []
  | c :: cs =>
    match renderChange old new nlt hint isLossy c, renderChanges old new nlt hint isLossy cs with
    | .ok a, .ok b => .ok (a ++ b)
    | .error e, _ => .error e
    | _, .error e => .error e

/-- `UnifiedDiffHunk` `Display` / `to_writer`: the header is printed with the first change, so a
hunk without changes prints nothing -/
def renderHunk (ops : List Op) (old new : Array Bytes) (nlt hint isLossy : Bool) : Res Bytes :=
  match allChanges ops with
  | [] => .ok []
  | cs =>
    match hunkHeader ops, renderChanges old new nlt hint isLossy cs with
    | .ok h, .ok b => .ok (h ++ [10] ++ b)
    | .error e, _ => .error e
    | _, .error e => .error e

def renderHunks (groups : List (List Op)) (old new : Array Bytes) (nlt hint isLossy : Bool) : Res Bytes :=
  match groups with
  | [] => .ok []
  | g :: gs =>
    match renderHunk g old new nlt hint isLossy, renderHunks gs old new nlt hint isLossy with
    | .ok a, .ok b => .ok (a ++ b)
    | .error e, _ => .error e
    | _, .error e => .error e

/-- `UnifiedDiff` `Display` / `to_writer`: `iter_hunks` = `grouped_ops(radius)` without empty groups;
the file header is printed once, before the first hunk -/
def renderUnified (radius : Nat) (header : Option (Bytes × Bytes)) (ops : List Op) (old new : Array Bytes)
    (nlt hint isLossy : Bool) : Res Bytes :=
  let groups := (groupDiffOps ops radius).filter fun g => !g.isEmpty
  match groups with
  | [] => .ok []
  | _ =>
    match renderHunks groups old new nlt hint isLossy with
    | .error e => .error e
    | .ok body =>
      match header with
      | some (a, b) => .ok (ascii "--- " ++ a ++ [10] ++ ascii "+++ " ++ b ++ [10] ++ body)
      | none => .ok body

end SimilarVerif

/-!
# Basic vocabulary of the model

Core Lean only (no imports) so that the driver links as a native executable.

* `Op`     – `similar::DiffOp` / one non-`finish` `DiffHook` callback
* `Call`   – one `DiffHook` callback (`finish` included)
* `Abort`  – the ways a Rust call does not return `Ok`: a panic, the hook's error, or (model only)
             exhausted fuel of a `while let`/recursion
* `World`  – the virtual clock of `deadline_support.rs` under `cfg(similar_verif)` plus the counters
* `Env`    – the two sequences, seen only through equality (`new[j] == old[i]`, …)
* `Hook σ` – a `DiffHook` implementation with state `σ`
-/
namespace SimilarVerif

/-- `similar::DiffOp`; also the payload of the four non-`finish` hook callbacks. Field order is the
Rust argument order: `equal(old_index,new_index,len)`, `delete(old_index,old_len,new_index)`,
`insert(old_index,new_index,new_len)`, `replace(old_index,old_len,new_index,new_len)`. -/
inductive Op where
  | equal (o n len : Nat)
  | delete (o len n : Nat)
  | insert (o n len : Nat)
  | replace (o ol n nl : Nat)
  deriving Repr, DecidableEq, Inhabited

inductive Call where
  | op (x : Op)
  | finish
  deriving Repr, DecidableEq, Inhabited

inductive Tag where
  | equal | delete | insert | replace
  deriving Repr, DecidableEq, Inhabited

namespace Op
def tag : Op → Tag
  | .equal .. => .equal | .delete .. => .delete | .insert .. => .insert | .replace .. => .replace
/-- `old_range().start` -/
def oStart : Op → Nat
  | .equal o _ _ => o | .delete o _ _ => o | .insert o _ _ => o | .replace o _ _ _ => o
/-- `old_range().len()` -/
def oLen : Op → Nat
  | .equal _ _ l => l | .delete _ l _ => l | .insert .. => 0 | .replace _ l _ _ => l
def nStart : Op → Nat
  | .equal _ n _ => n | .delete _ _ n => n | .insert _ n _ => n | .replace _ _ n _ => n
def nLen : Op → Nat
  | .equal _ _ l => l | .delete .. => 0 | .insert _ _ l => l | .replace _ _ _ l => l
def oEnd (x : Op) : Nat := x.oStart + x.oLen
def nEnd (x : Op) : Nat := x.nStart + x.nLen
/-- `DiffOp::is_empty` -/
def isEmpty (x : Op) : Bool := x.oLen == 0 && x.nLen == 0
end Op

/-- Ways a call does not return normally. `hookErr` carries everything the failing recording hook
had been told, including the call that failed, so that the trace is observable after the abort. -/
inductive Abort where
  | panic
  | hookErr (trace : List Call)
  | fuel
  deriving Repr, DecidableEq, Inhabited

abbrev Res := Except Abort

/-- Virtual clock (`none`: the caller passed no deadline; `some f`: the next `f` probes answer
"not exceeded", all later ones "exceeded") and counters. -/
structure World where
  clock : Option Nat := none
  probes : Nat := 0
  cmps : Nat := 0
  deriving Repr, DecidableEq, Inhabited

/-- `deadline_exceeded(deadline)` -/
def probe (w : World) : Bool × World :=
  match w.clock with
  | none => (false, w)
  | some 0 => (true, { w with probes := w.probes + 1 })
  | some (f+1) => (false, { w with clock := some f, probes := w.probes + 1 })

/-- The two sequences seen through equality only. `none` = an index is out of bounds (the Rust
indexing panics). -/
structure Env where
  /-- `on i j` = `new[j] == old[i]` -/
  on : Nat → Nat → Option Bool
  /-- `oo i j` = `old[i] == old[j]` -/
  oo : Nat → Nat → Option Bool
  /-- `nn i j` = `new[i] == new[j]` -/
  nn : Nat → Nat → Option Bool

/-- One evaluation of `new[j] == old[i]`. -/
def cmp (E : Env) (i j : Nat) (w : World) : Res (Bool × World) :=
  match E.on i j with
  | none => .error .panic
  | some b => .ok (b, { w with cmps := w.cmps + 1 })

/-- Environment of two label sequences reached through lookups that subtract an offset
(`OffsetLookup`; offset 0 = a plain slice). -/
def Env.ofSeqs (old new : Array Nat) (oOff nOff : Nat := 0) : Env :=
  let get (a : Array Nat) (off i : Nat) : Option Nat := if i < off then none else a[i - off]?
  { on := fun i j => do let a ← get old oOff i; let b ← get new nOff j; pure (b == a)
    oo := fun i j => do let a ← get old oOff i; let b ← get old oOff j; pure (a == b)
    nn := fun i j => do let a ← get new nOff i; let b ← get new nOff j; pure (a == b) }

/-- A `DiffHook` with state `σ`. Hooks see the world because Patience's internal hook runs Myers
(which probes the clock and compares items) inside `equal`/`finish`. -/
structure Hook (σ : Type) where
  call : Call → σ → World → Res (σ × World)

/-- State of the recording hook of the harness: everything it was told, and the index of the call
at which it returns an error (`none`: never). `nativeReplace = false` models a hook that does not
override `replace` and therefore receives `delete` then `insert`. -/
structure Rec where
  trace : List Call := []
  failAt : Option Nat := none
  nativeReplace : Bool := true
  deriving Repr, DecidableEq, Inhabited

def Rec.push (r : Rec) (c : Call) : Res Rec :=
  if r.failAt = some r.trace.length then .error (.hookErr (r.trace ++ [c]))
  else .ok { r with trace := r.trace ++ [c] }

def recHook : Hook Rec where
  call c r w :=
    match c with
    | .op (.replace o ol n nl) =>
      if r.nativeReplace then (r.push c).map (·, w)
      else
        match r.push (.op (.delete o ol n)) with
        | .error e => .error e
        | .ok r => (r.push (.op (.insert o n nl))).map (·, w)
    | c => (r.push c).map (·, w)

/-- `NoFinishHook` -/
def noFinishHook {σ} (h : Hook σ) : Hook σ where
  call c s w := match c with | .finish => .ok (s, w) | c => h.call c s w

/-- Feed a list of calls to a hook, stopping at the first error (what `for op in ops { op.apply_to_hook(d)?; }` does). -/
def deliver {σ} (h : Hook σ) : List Call → σ → World → Res (σ × World)
  | [], s, w => .ok (s, w)
  | c :: cs, s, w =>
    match h.call c s w with
    | .error e => .error e
    | .ok (s, w) => deliver h cs s w

end SimilarVerif

/-! A software model of the IEEE-754 binary32 (`f32`) operations used by `similar`:
`usize as f32`, `2.0 * x`, `x / y` on the results, and the comparisons `<`, `<=`, `>=`, `>`.
Values are BIT PATTERNS represented as natural numbers (`< 2^32`); everything is computed with exact
natural-number arithmetic, so the kernel can reason about it (Lemmas/F32.lean).

Conventions: a non-negative rational is a pair `p q` (`p/q`, `q > 0`).  `rnd p q` is the bit pattern of
`p/q` correctly rounded (round to nearest, ties to even).  It is total and IEEE-exact for EVERY
non-negative rational: subnormals (`p/q < 2^-126`) and overflow to `+inf` (`p/q ≥ 2^128 - 2^103`)
included, although the ratios of `similar` (`0` or in `[2^-63, 2^66)` for `usize` arguments) only ever
reach the normal range.  Core Lean only; compiled into the native driver. -/
namespace SimilarVerif.F32

/-- round to nearest, ties to even, of the rational `r/s` (`s > 0`) to a natural number -/
def rne (r s : Nat) : Nat :=
  let q := r / s
  let m := r % s
  if 2 * m < s then q
  else if s < 2 * m then q + 1
  else if q % 2 = 0 then q else q + 1

/-- `⌊log2 (p/q)⌋` for `p, q > 0`.  (For the specification `rnd_normal`; `rnd` itself uses the shifted
exponent `expo` below, which stays in `Nat`.) -/
def ilog2Q (p q : Nat) : Int :=
  if q ≤ p then ((p / q).log2 : Int)
  else
    -- `-k` for the smallest `k` with `q ≤ p * 2^k`, i.e. `2^k ≥ ⌈q/p⌉`
    - ((((q + p - 1) / p - 1).log2 + 1 : Nat) : Int)

/-- bit pattern of `+inf` -/
def inf : Nat := 0x7F800000
/-- bit pattern of `1.0` -/
def one : Nat := 0x3F800000
/-- bit pattern of `0.5` -/
def half : Nat := 0x3F000000

/-- binade index of `p/q`: `⌊log2 (p/q · 2^149)⌋ - 23` (truncated subtraction), i.e.
`⌊log2 (p/q)⌋ + 126` for normal values and `0` for subnormal values (and for the first normal binade) -/
def expo (p q : Nat) : Nat := (p * 2^149 / q).log2 - 23

/-- IEEE-754 binary32 bit pattern of the correctly rounded (nearest, ties to even) value of the
non-negative rational `p/q` (`q > 0`).  With `k = expo p q`, the value is rounded to a multiple of
`2^(k-149)`: `m = rne (p/q · 2^(149-k))`.  For a normal value `2^23 ≤ m ≤ 2^24`, the exponent field is
`k+1` and the bits are `(k+1)·2^23 + (m - 2^23) = k·2^23 + m` (the carry `m = 2^24` lands in the next
binade automatically); for a subnormal value `k = 0`, `m ≤ 2^23` and the bits are `m`.  Anything that
rounds to `2^128` or more is `+inf`.  `rnd 0 q = 0` (`+0.0`). -/
def rnd (p q : Nat) : Nat :=
  let k := expo p q
  min (k * 2^23 + rne (p * 2^149) (q * 2^k)) inf

/-- the (integer) value of `n as f32`: `n` rounded to 24 significant bits, nearest-even.
(Exact for `n < 2^128 - 2^103`, beyond that `n as f32` is `+inf`; `usize` values are `< 2^64`.) -/
def natVal (n : Nat) : Nat :=
  let k := n.log2 - 23
  rne n (2^k) * 2^k

/-- bits of `n as f32` -/
def ofNat (n : Nat) : Nat := rnd n 1

/-- bits of `if b == 0 { 1.0 } else { 2.0 * a as f32 / b as f32 }`: the product by `2.0` is exact and the
quotient of two `f32` values is the correctly rounded exact quotient.  For `a, b < 2^64` (`usize`) the
exact quotient is `0` or in `[2^-63, 2^66)`: normal range. -/
def ratio (a b : Nat) : Nat := if b = 0 then one else rnd (2 * natVal a) (natVal b)

/-! ### comparisons on arbitrary bit patterns -/

/-- magnitude bits (exponent and mantissa) -/
def mag (x : Nat) : Nat := x % 2^31
/-- sign bit -/
def sign (x : Nat) : Bool := x / 2^31 % 2 = 1
def isNaN (x : Nat) : Bool := inf < mag x
/-- an integer with the order of the float values (non-NaN): sign-magnitude, `-0 = +0` -/
def key (x : Nat) : Int := if sign x then - (mag x : Int) else (mag x : Int)

/-- IEEE `<`: false when either side is NaN -/
def lt (x y : Nat) : Bool := !isNaN x && !isNaN y && decide (key x < key y)
/-- IEEE `<=` -/
def le (x y : Nat) : Bool := !isNaN x && !isNaN y && decide (key x ≤ key y)
/-- IEEE `>=` -/
def ge (x y : Nat) : Bool := le y x
/-- IEEE `>` -/
def gt (x y : Nat) : Bool := lt y x

end SimilarVerif.F32

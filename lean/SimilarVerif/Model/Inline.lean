import SimilarVerif.Model.Close
import SimilarVerif.Model.Iter
/-! `src/text/inline.rs`: `iter_inline_changes`. The word segmentation of each line
(`tokenize_unicode_words`, feature `unicode`) is external: a parameter (segment lengths per line). -/
namespace SimilarVerif

/-- `InlineChange`: tag, indices, `(emphasized, segment)` values -/
structure InlineChange where
  tag : CTag
  oldIndex : Option Nat
  newIndex : Option Nat
  values : List (Bool × Bytes)
  deriving Repr, DecidableEq, Inhabited

/-- one word of `MultiLookup.seqs`: `(word, line index, byte offset in the line)` -/
abbrev MWord := Bytes × Nat × Nat

/-- words of one line from the segment lengths -/
def lineWords (line : Bytes) (lineIdx : Nat) : (off : Nat) → List Nat → List MWord
  | _, [] => []
  | off, l :: ls => ((line.drop off).take l, lineIdx, off) :: lineWords line lineIdx (off + l) ls

/-- `MultiLookup::new` -/
def multiLookup : (lineIdx : Nat) → List Bytes → List (List Nat) → List MWord
  | _, [], _ => []
  | i, line :: rest, segs => lineWords line i 0 (segs.headD []) ++ multiLookup (i+1) rest segs.tail

/-- `get_original_slices(idx, len)`: regroup a word range into `(line index, slice of that line)` -/
def originalSlices (lines : Array Bytes) (seqs : Array MWord) (idx : Nat) :
    (len : Nat) → (off : Nat) → (last : Option (Nat × Nat × Nat)) → Res (List (Nat × Bytes))
  | 0, _, last =>
    (match last with
     | some (si, start, l) =>
       (match lines[si]? with
        | some line => .ok [(si, (line.drop start).take l)]
        | none => .error .panic)
     | none => .ok [])
  | len+1, off, last =>
    match seqs[idx + off]? with
    | none => .error .panic
    | some (s, si, ci) =>
      match last with
      | none => originalSlices lines seqs idx len (off+1) (some (si, ci, s.length))
      | some (lsi, start, ll) =>
        if lsi = si then originalSlices lines seqs idx len (off+1) (some (si, start, ll + s.length))
        else
          match lines[lsi]?, originalSlices lines seqs idx len (off+1) (some (si, ci, s.length)) with
          | some line, .ok rest => .ok ((lsi, (line.drop start).take ll) :: rest)
          | none, _ => .error .panic
          | _, .error e => .error e

/-- `push_values`: `lnl` = `tokenize_lines_and_newlines` of the text type, as ranges -/
def pushValues (lnl : Bytes → List (Nat × Nat)) (v : Array (List (Bool × Bytes))) (idx : Nat) (emph : Bool) (s : Bytes) :
    Array (List (Bool × Bytes)) :=
  let v := if v.size < idx + 1 then v ++ Array.replicate (idx + 1 - v.size) [] else v
  if emph then
    let segs := (lnl s).map fun r => let seg := slice s r; (!endsWithNewline seg, seg)
    v.modify idx (· ++ segs)
  else v.modify idx (· ++ [(false, s)])

def pushAll (lnl : Bytes → List (Nat × Nat)) (emph : Bool) (v : Array (List (Bool × Bytes))) : List (Nat × Bytes) → Array (List (Bool × Bytes))
  | [] => v
  | (i, s) :: rest => pushAll lnl emph (pushValues lnl v i emph s) rest

/-- plain fallback: `diff.iter_changes(op).map(|x| x.into())` -/
def inlinePlain (old new : Array Bytes) (x : Op) : Res (List InlineChange) :=
  (opChanges x).mapM fun c =>
    match (if c.fromNew then new[c.idx]? else old[c.idx]?) with
    | some v => .ok { tag := c.tag, oldIndex := c.oldIndex, newIndex := c.newIndex, values := [(false, v)] }
    | none => .error .panic

def inlineApplyOps (lnl : Bytes → List (Nat × Nat)) (oLines nLines : Array Bytes) (oSeqs nSeqs : Array MWord) :
    List Op → (ov nv : Array (List (Bool × Bytes))) → Res (Array (List (Bool × Bytes)) × Array (List (Bool × Bytes)))
  | [], ov, nv => .ok (ov, nv)
  | x :: xs, ov, nv =>
    let side (lines : Array Bytes) (seqs : Array MWord) (i l : Nat) := originalSlices lines seqs i l 0 none
    match x with
    | .equal o n l =>
      (match side oLines oSeqs o l, side nLines nSeqs n l with
       | .ok a, .ok b => inlineApplyOps lnl oLines nLines oSeqs nSeqs xs (pushAll lnl false ov a) (pushAll lnl false nv b)
       | .error e, _ => .error e
       | _, .error e => .error e)
    | .delete o l _ =>
      (match side oLines oSeqs o l with
       | .ok a => inlineApplyOps lnl oLines nLines oSeqs nSeqs xs (pushAll lnl true ov a) nv
       | .error e => .error e)
    | .insert _ n l =>
      (match side nLines nSeqs n l with
       | .ok b => inlineApplyOps lnl oLines nLines oSeqs nSeqs xs ov (pushAll lnl true nv b)
       | .error e => .error e)
    | .replace o ol n nl =>
      (match side oLines oSeqs o ol, side nLines nSeqs n nl with
       | .ok a, .ok b => inlineApplyOps lnl oLines nLines oSeqs nSeqs xs (pushAll lnl true ov a) (pushAll lnl true nv b)
       | .error e, _ => .error e
       | _, .error e => .error e)

def numberFrom (tag : CTag) (isNew : Bool) : (start : Nat) → List (List (Bool × Bytes)) → List InlineChange
  | _, [] => []
  | i, v :: vs =>
    { tag := tag, oldIndex := if isNew then none else some i, newIndex := if isNew then some i else none, values := v }
      :: numberFrom tag isNew (i+1) vs

/-- `iter_inline_changes(diff, op, deadline)`; `segO/segN`: word segment lengths of each old / new
line of the op -/
def inlineChanges (lnl : Bytes → List (Nat × Nat)) (repair : Bool) (old new : Array Bytes) (x : Op)
    (segO segN : List (List Nat)) (w : World) : Res (List InlineChange × World) :=
  match x with
  | .replace o ol n nl =>
    if old.size < o + ol || new.size < n + nl then .error .panic else
    let oLines := (old.toList.drop o).take ol
    let nLines := (new.toList.drop n).take nl
    if F32.lt (upperSeqRatio oLines.length nLines.length) F32.half then (inlinePlain old new x).map (·, w) else
    let oSeqs := (multiLookup 0 oLines segO).toArray
    let nSeqs := (multiLookup 0 nLines segN).toArray
    let E := Env.ofTokens (oSeqs.map (·.1)) (nSeqs.map (·.1))
    match captureDiff .patience E repair 0 oSeqs.size 0 nSeqs.size w with
    | .error e => .error e
    | .ok (ops, w) =>
      let (a, b) := ratioPair ops oSeqs.size nSeqs.size
      if F32.lt (ratioF (a / 2) b) F32.half then (inlinePlain old new x).map (·, w) else
      match inlineApplyOps lnl oLines.toArray nLines.toArray oSeqs nSeqs ops #[] #[] with
      | .error e => .error e
      | .ok (ov, nv) => .ok (numberFrom .delete false o ov.toList ++ numberFrom .insert true n nv.toList, w)
  | x => (inlinePlain old new x).map (·, w)

end SimilarVerif

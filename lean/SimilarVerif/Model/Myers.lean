import SimilarVerif.Model.Utils
/-! `src/algorithms/myers.rs` -/
namespace SimilarVerif

abbrev V := Array Nat

/-- `V::index`: `&self.v[(index + self.offset) as usize]`; a negative sum wraps to a huge `usize`
and the `Vec` indexing panics. -/
def vget (v : V) (off : Nat) (k : Int) : Res Nat :=
  let i := k + off
  if i < 0 then .error .panic else
    match v[i.toNat]? with
    | some x => .ok x
    | none => .error .panic

def vset (v : V) (off : Nat) (k : Int) (x : Nat) : Res V :=
  let i := k + off
  if i < 0 then .error .panic else
    if i.toNat < v.size then .ok (v.setIfInBounds i.toNat x) else .error .panic

def maxD (a b : Nat) : Nat := (a + b + 1) / 2 + 1

/-- the `x` a diagonal starts from: `if k == -d || (k != d && v[k-1] < v[k+1]) { v[k+1] } else { v[k-1] + 1 }` -/
def startX (v : V) (off : Nat) (d k : Int) : Res Nat :=
  if k == -d then vget v off (k+1)
  else if k != d then
    match vget v off (k-1), vget v off (k+1) with
    | .ok a, .ok b => .ok (if a < b then b else a + 1)
    | .error e, _ => .error e
    | _, .error e => .error e
  else
    match vget v off (k-1) with
    | .ok a => .ok (a+1)
    | .error e => .error e

/-- forward pass of one `d` iteration, `k = d, d-2, …`; `cnt` = number of diagonals left.
Returns the updated `vf` and the snake start if the overlap test fired. -/
def fwdPass (E : Env) (os oe ns ne off : Nat) (d delta : Int) (odd : Bool) (vb : V) :
    (cnt : Nat) → (k : Int) → (vf : V) → World → Res (V × Option (Nat × Nat) × World)
  | 0, _, vf, w => .ok (vf, none, w)
  | cnt+1, k, vf, w =>
    let n := oe - os
    let m := ne - ns
    match startX vf off d k with
    | .error e => .error e
    | .ok x0 =>
    -- `(x as isize - k) as usize`: a negative value wraps to a huge `usize`
    let yi : Int := (x0 : Int) - k
    let yneg := decide (yi < 0)
    let y0 := yi.toNat
    match (if !yneg && decide (x0 < n) && decide (y0 < m)
           then (match commonPrefixLen E (os + x0) oe (ns + y0) ne w with
                 | .ok (adv, w) => .ok (x0 + adv, w)
                 | .error e => .error e)
           else (.ok (x0, w) : Res (Nat × World))) with
    | .error e => .error e
    | .ok (x, w) =>
    match vset vf off k x with
    | .error e => .error e
    | .ok vf =>
    if odd && decide (((k - delta).natAbs : Int) ≤ d - 1) then
      match vget vb off (-(k - delta)) with
      | .error e => .error e
      | .ok b =>
        if n ≤ x + b then
          -- `y0 + new_range.start` overflows (checked build: panic) when `y0` wrapped
          if yneg then .error .panic else .ok (vf, some (x0 + os, y0 + ns), w)
        else fwdPass E os oe ns ne off d delta odd vb cnt (k - 2) vf w
    else fwdPass E os oe ns ne off d delta odd vb cnt (k - 2) vf w

def bwdPass (E : Env) (os oe ns ne off : Nat) (d delta : Int) (odd : Bool) (vf : V) :
    (cnt : Nat) → (k : Int) → (vb : V) → World → Res (V × Option (Nat × Nat) × World)
  | 0, _, vb, w => .ok (vb, none, w)
  | cnt+1, k, vb, w =>
    let n := oe - os
    let m := ne - ns
    match startX vb off d k with
    | .error e => .error e
    | .ok x0 =>
    let yi : Int := (x0 : Int) - k
    let yneg := decide (yi < 0)
    let y0 := yi.toNat
    match (if !yneg && decide (x0 < n) && decide (y0 < m)
           then (match commonSuffixLen E os (os + n - x0) ns (ns + m - y0) w with
                 | .ok (adv, w) => .ok (x0 + adv, y0 + adv, w)
                 | .error e => .error e)
           else (.ok (x0, y0, w) : Res (Nat × Nat × World))) with
    | .error e => .error e
    | .ok (x, y, w) =>
    match vset vb off k x with
    | .error e => .error e
    | .ok vb =>
    if !odd && decide (((k - delta).natAbs : Int) ≤ d) then
      match vget vf off (-(k - delta)) with
      | .error e => .error e
      | .ok f =>
        if n ≤ x + f then
          -- `n - x`, `m - y` underflow (checked build: panic)
          if yneg || decide (n < x) || decide (m < y) then .error .panic
          else .ok (vb, some (n - x + os, m - y + ns), w)
        else bwdPass E os oe ns ne off d delta odd vf cnt (k - 2) vb w
    else bwdPass E os oe ns ne off d delta odd vf cnt (k - 2) vb w

/-- `for d in 0..d_max`; `cnt` = iterations left. -/
def snakeLoop (E : Env) (os oe ns ne off : Nat) (delta : Int) (odd : Bool) :
    (cnt d : Nat) → (vf vb : V) → World → Res (V × V × Option (Nat × Nat) × World)
  | 0, _, vf, vb, w => .ok (vf, vb, none, w)
  | cnt+1, d, vf, vb, w =>
    match probe w with
    | (true, w) => .ok (vf, vb, none, w)
    | (false, w) =>
      match fwdPass E os oe ns ne off d delta odd vb (d+1) d vf w with
      | .error e => .error e
      | .ok (vf, some p, w) => .ok (vf, vb, some p, w)
      | .ok (vf, none, w) =>
        match bwdPass E os oe ns ne off d delta odd vf (d+1) d vb w with
        | .error e => .error e
        | .ok (vb, some p, w) => .ok (vf, vb, some p, w)
        | .ok (vb, none, w) => snakeLoop E os oe ns ne off delta odd cnt (d+1) vf vb w

/-- `find_middle_snake` -/
def findMiddleSnake (E : Env) (os oe ns ne off : Nat) (vf vb : V) (w : World) :
    Res (V × V × Option (Nat × Nat) × World) :=
  let n := oe - os
  let m := ne - ns
  let delta : Int := (n : Int) - m
  -- `delta & 1 == 1` on two's complement: true for every odd `delta`, negative ones included
  let odd := delta % 2 != 0
  match vset vf off 1 0 with
  | .error e => .error e
  | .ok vf =>
  match vset vb off 1 0 with
  | .error e => .error e
  | .ok vb =>
  let dmax := maxD n m
  if vf.size < dmax || vb.size < dmax then .error .panic
  else snakeLoop E os oe ns ne off delta odd dmax 0 vf vb w

/-- emit a call to the hook -/
@[inline] def emit {σ} (h : Hook σ) (x : Op) (s : σ) (w : World) : Res (σ × World) := h.call (.op x) s w

/-- `conquer`; `fuel` bounds the recursion depth. -/
def conquer {σ} (E : Env) (h : Hook σ) (off : Nat) :
    (fuel : Nat) → (os oe ns ne : Nat) → (vf vb : V) → σ → World → Res (σ × V × V × World)
  | 0, _, _, _, _, _, _, _, _ => .error .fuel
  | fuel+1, os, oe, ns, ne, vf, vb, s, w =>
    match commonPrefixLen E os oe ns ne w with
    | .error e => .error e
    | .ok (p, w) =>
    match (if 0 < p then emit h (.equal os ns p) s w else .ok (s, w)) with
    | .error e => .error e
    | .ok (s, w) =>
    let os := os + p
    let ns := ns + p
    match commonSuffixLen E os oe ns ne w with
    | .error e => .error e
    | .ok (sl, w) =>
    let sfxO := oe - sl
    let sfxN := ne - sl
    let oe := oe - sl
    let ne := ne - sl
    match (
      if oe ≤ os && ne ≤ ns then (.ok (s, vf, vb, w) : Res (σ × V × V × World))
      else if ne ≤ ns then
        match emit h (.delete os (oe - os) ns) s w with
        | .error e => .error e
        | .ok (s, w) => .ok (s, vf, vb, w)
      else if oe ≤ os then
        match emit h (.insert os ns (ne - ns)) s w with
        | .error e => .error e
        | .ok (s, w) => .ok (s, vf, vb, w)
      else
        match findMiddleSnake E os oe ns ne off vf vb w with
        | .error e => .error e
        | .ok (vf, vb, some (x, y), w) =>
          (match conquer E h off fuel os x ns y vf vb s w with
           | .error e => .error e
           | .ok (s, vf, vb, w) => conquer E h off fuel x oe y ne vf vb s w)
        | .ok (vf, vb, none, w) =>
          match emit h (.delete os (oe - os) ns) s w with
          | .error e => .error e
          | .ok (s, w) =>
            match emit h (.insert os ns (ne - ns)) s w with
            | .error e => .error e
            | .ok (s, w) => .ok (s, vf, vb, w)) with
    | .error e => .error e
    | .ok (s, vf, vb, w) =>
    if 0 < sl then
      match emit h (.equal sfxO sfxN sl) s w with
      | .error e => .error e
      | .ok (s, w) => .ok (s, vf, vb, w)
    else .ok (s, vf, vb, w)

/-- `myers::diff_deadline` -/
def myersDiff {σ} (E : Env) (h : Hook σ) (os oe ns ne : Nat) (s : σ) (w : World) : Res (σ × World) :=
  let md := maxD (oe - os) (ne - ns)
  let v : V := Array.replicate (2 * md) 0
  match conquer E h md ((oe - os) + (ne - ns) + 2) os oe ns ne v v s w with
  | .error e => .error e
  | .ok (s, _, _, w) => h.call .finish s w

end SimilarVerif

import SimilarVerif.Model.Utils
/-! `src/algorithms/compact.rs` and the `DiffOp` adjust helpers of `src/types.rs`.

`repair = true` is the behaviour with the `cfg(similar_verif)` swap-repair switch on (DESIGN.md §9);
`repair = false` is the code as shipped. -/
namespace SimilarVerif

/-- checked `usize` subtraction (`*val -= adj` panics on underflow with overflow checks on) -/
def csub (a b : Nat) : Res Nat := if b ≤ a then .ok (a - b) else .error .panic

namespace Op
/-- `shift_left(adj)`: both indices `-= adj` -/
def shiftLeft (x : Op) (a : Nat) : Res Op :=
  match csub x.oStart a, csub x.nStart a with
  | .ok o, .ok n =>
    .ok (match x with
      | .equal _ _ l => .equal o n l | .delete _ l _ => .delete o l n
      | .insert _ _ l => .insert o n l | .replace _ ol _ nl => .replace o ol n nl)
  | _, _ => .error .panic
/-- `shift_right(adj)` -/
def shiftRight (x : Op) (a : Nat) : Op :=
  match x with
  | .equal o n l => .equal (o+a) (n+a) l | .delete o l n => .delete (o+a) l (n+a)
  | .insert o n l => .insert (o+a) (n+a) l | .replace o ol n nl => .replace (o+a) ol (n+a) nl
/-- lengths `+= adj` -/
def addLen (x : Op) (a : Nat) : Op :=
  match x with
  | .equal o n l => .equal o n (l+a) | .delete o l n => .delete o (l+a) n
  | .insert o n l => .insert o n (l+a) | .replace o ol n nl => .replace o (ol+a) n (nl+a)
/-- lengths `-= adj` (checked) -/
def subLen (x : Op) (a : Nat) : Res Op :=
  match x with
  | .equal o n l => (csub l a).map (.equal o n ·)
  | .delete o l n => (csub l a).map (.delete o · n)
  | .insert o n l => (csub l a).map (.insert o n ·)
  | .replace o ol n nl =>
    match csub ol a, csub nl a with
    | .ok ol, .ok nl => .ok (.replace o ol n nl)
    | _, _ => .error .panic
/-- `grow_left(adj)`: offsets `-= adj`, lengths `+= adj` -/
def growLeft (x : Op) (a : Nat) : Res Op := (x.shiftLeft a).map (·.addLen a)
/-- `grow_right(adj)` -/
def growRight (x : Op) (a : Nat) : Op := x.addLen a
/-- `shrink_left(adj)`: lengths `-= adj` -/
def shrinkLeft (x : Op) (a : Nat) : Res Op := x.subLen a
/-- `shrink_right(adj)`: offsets `+= adj`, lengths `-= adj` -/
def shrinkRight (x : Op) (a : Nat) : Res Op := (x.shiftRight a).subLen a
end Op

/-- `ops[i]` (panics out of bounds) -/
def opAt (ops : List Op) (i : Nat) : Res Op :=
  match ops[i]? with | some x => .ok x | none => .error .panic

/-- the swapped pair, with carried indices rewritten when the repair switch is on.
`a` stood first, `b` second; the result is `(b', a')` = new first, new second. -/
def swapPair (repair : Bool) (a b : Op) : Op × Op :=
  if !repair then (b, a) else
  match a, b with
  | .delete d_o dl _, .insert _ i_n il => (.insert d_o i_n il, .delete d_o dl (i_n + il))
  | .insert _ i_n il, .delete d_o dl _ => (.delete d_o dl i_n, .insert (d_o + dl) i_n il)
  | a, b => (b, a)

/-- `shift_diff_ops_up` -/
def shiftUp (E : Env) (repair : Bool) : (fuel : Nat) → List Op → (pointer : Nat) → World → Res (List Op × Nat × World)
  | 0, _, _, _ => .error .fuel
  | fuel+1, ops, pointer, w =>
    if pointer = 0 then .ok (ops, pointer, w) else
    match ops[pointer - 1]? with
    | none => .ok (ops, pointer, w)
    | some prev =>
    match opAt ops pointer with
    | .error e => .error e
    | .ok this =>
    match this.tag, prev.tag with
    | .insert, .equal | .delete, .equal =>
      (match commonSuffixLen E prev.oStart prev.oEnd this.nStart this.nEnd w with
       | .error e => .error e
       | .ok (sl, w) =>
         if 0 < sl then
           match (match ops[pointer + 1]? with
                  | some (.equal o n l) => (Op.growLeft (.equal o n l) sl).map (fun x => ops.set (pointer + 1) x)
                  | _ =>
                    match csub prev.oEnd sl, csub this.nEnd sl with
                    | .ok eo, .ok en =>
                      -- the Delete arm of the Rust computes `len: old_range.len() - suffix_len`
                      (match this.tag with
                       | .insert => .ok (ops.insertIdx (pointer + 1) (.equal eo en sl))
                       | _ => (csub prev.oLen sl).map (fun l => ops.insertIdx (pointer + 1) (.equal eo en l)))
                    | _, _ => .error .panic) with
           | .error e => .error e
           | .ok ops =>
           match this.shiftLeft sl, prev.shrinkLeft sl with
           | .ok this', .ok prev' =>
             let ops := (ops.set pointer this').set (pointer - 1) prev'
             if prev'.isEmpty then shiftUp E repair fuel (ops.eraseIdx (pointer - 1)) (pointer - 1) w
             else shiftUp E repair fuel ops pointer w
           | _, _ => .error .panic
         else if prev.isEmpty then shiftUp E repair fuel (ops.eraseIdx (pointer - 1)) (pointer - 1) w
         else .ok (ops, pointer, w))
    | .insert, .delete | .delete, .insert =>
      let (x, y) := swapPair repair prev this
      shiftUp E repair fuel ((ops.set (pointer - 1) x).set pointer y) (pointer - 1) w
    | .insert, .insert =>
      shiftUp E repair fuel ((ops.set (pointer - 1) (prev.growRight this.nLen)).eraseIdx pointer) (pointer - 1) w
    | .delete, .delete =>
      shiftUp E repair fuel ((ops.set (pointer - 1) (prev.growRight this.oLen)).eraseIdx pointer) (pointer - 1) w
    | _, _ => .error .panic

/-- `shift_diff_ops_down` -/
def shiftDown (E : Env) (repair : Bool) : (fuel : Nat) → List Op → (pointer : Nat) → World → Res (List Op × Nat × World)
  | 0, _, _, _ => .error .fuel
  | fuel+1, ops, pointer, w =>
    match ops[pointer + 1]? with
    | none => .ok (ops, pointer, w)
    | some next =>
    match opAt ops pointer with
    | .error e => .error e
    | .ok this =>
    match this.tag, next.tag with
    | .insert, .equal | .delete, .equal =>
      (match commonPrefixLen E next.oStart next.oEnd this.nStart this.nEnd w with
       | .error e => .error e
       | .ok (pl, w) =>
         if 0 < pl then
           let prevIsEq : Bool :=
             if pointer = 0 then false else
             match ops[pointer - 1]? with | some (.equal ..) => true | _ => false
           let (ops, pointer) :=
             if prevIsEq then
               (match ops[pointer - 1]? with
                | some p => ops.set (pointer - 1) (p.growRight pl)
                | none => ops, pointer)
             else (ops.insertIdx pointer (.equal next.oStart this.nStart pl), pointer + 1)
           match opAt ops pointer, opAt ops (pointer + 1) with
           | .ok t, .ok nx =>
             (match nx.shrinkRight pl with
              | .error e => .error e
              | .ok nx' =>
                let ops := (ops.set pointer (t.shiftRight pl)).set (pointer + 1) nx'
                if nx'.isEmpty then shiftDown E repair fuel (ops.eraseIdx (pointer + 1)) pointer w
                else shiftDown E repair fuel ops pointer w)
           | _, _ => .error .panic
         else if next.isEmpty then shiftDown E repair fuel (ops.eraseIdx (pointer + 1)) pointer w
         else .ok (ops, pointer, w))
    | .insert, .delete | .delete, .insert =>
      let (x, y) := swapPair repair this next
      shiftDown E repair fuel ((ops.set pointer x).set (pointer + 1) y) (pointer + 1) w
    | .insert, .insert =>
      shiftDown E repair fuel ((ops.set pointer (this.growRight next.nLen)).eraseIdx (pointer + 1)) pointer w
    | .delete, .delete =>
      shiftDown E repair fuel ((ops.set pointer (this.growRight next.oLen)).eraseIdx (pointer + 1)) pointer w
    | _, _ => .error .panic

/-- one of the two `while let Some(&op) = ops.get(pointer)` passes of `cleanup_diff_ops` -/
def cleanupPass (E : Env) (repair : Bool) (which : Tag) (inner : Nat) :
    (fuel : Nat) → List Op → (pointer : Nat) → World → Res (List Op × World)
  | 0, _, _, _ => .error .fuel
  | fuel+1, ops, pointer, w =>
    match ops[pointer]? with
    | none => .ok (ops, w)
    | some op =>
      if op.tag = which then
        match shiftUp E repair inner ops pointer w with
        | .error e => .error e
        | .ok (ops, pointer, w) =>
          match shiftDown E repair inner ops pointer w with
          | .error e => .error e
          | .ok (ops, pointer, w) => cleanupPass E repair which inner fuel ops (pointer + 1) w
      else cleanupPass E repair which inner fuel ops (pointer + 1) w

def opsWeight (ops : List Op) : Nat := ops.foldl (fun a x => a + x.oLen + x.nLen + 1) 0

/-- `cleanup_diff_ops`. Loop bounds of the model: each inner `while let` loop gets `2W+4` rounds and
each outer pass `(W+2)²` rounds, `W = opsWeight ops`. The outer bound must be quadratic: an insertion
that slides up, swaps over deletions and MERGES into an earlier insertion cannot slide back, so the
outer pointer jumps back and re-walks the ops in between (found by the termination proof; witness
family in DESIGN.md §13 — the Rust code terminates but needs ~2·m·k outer iterations there). -/
def cleanupDiffOps (E : Env) (repair : Bool) (ops : List Op) (w : World) : Res (List Op × World) :=
  let inner := 2 * opsWeight ops + 4
  let fuel := (opsWeight ops + 2) * (opsWeight ops + 2)
  match cleanupPass E repair .delete inner fuel ops 0 w with
  | .error e => .error e
  | .ok (ops, w) => cleanupPass E repair .insert inner fuel ops 0 w

/-- `Compact<D>`: buffers every call; `replace` is the trait default (delete, then insert). -/
def compactHook {σ} (E : Env) (repair : Bool) (h : Hook σ) : Hook (List Op × σ) where
  call c st w :=
    let (buf, s) := st
    match c with
    | .op (.replace o ol n nl) => .ok ((buf ++ [.delete o ol n, .insert o n nl], s), w)
    | .op x => .ok ((buf ++ [x], s), w)
    | .finish =>
      match cleanupDiffOps E repair buf w with
      | .error e => .error e
      | .ok (ops, w) =>
        match deliver h (ops.map .op) s w with
        | .error e => .error e
        | .ok (s, w) =>
          match h.call .finish s w with
          | .error e => .error e
          | .ok (s, w) => .ok ((ops, s), w)

end SimilarVerif

import SimilarVerif.Model.Common
/-! `src/iter.rs`: `ChangesIter` and `AllChangesIter` as the state machines they are. -/
namespace SimilarVerif

/-- `ChangesIter` (the lookups are left out: a change records which index it read its value at) -/
structure ChIter where
  tag : Tag
  oEnd : Nat
  nEnd : Nat
  oIndex : Nat
  nIndex : Nat
  oI : Nat
  nI : Nat
  deriving Repr, DecidableEq, Inhabited

/-- `ChangesIter::new` via `as_tag_tuple` -/
def ChIter.new (x : Op) : ChIter :=
  { tag := x.tag, oEnd := x.oEnd, nEnd := x.nEnd,
    oIndex := x.oStart, nIndex := x.nStart, oI := x.oStart, nI := x.nStart }

/-- `ChangesIter::next` -/
def ChIter.next (it : ChIter) : Option (Change × ChIter) :=
  match it.tag with
  | .equal =>
    if it.oI < it.oEnd then
      some (⟨.equal, some (it.oIndex + 1 - 1), some (it.nIndex + 1 - 1), false, it.oI⟩,
            { it with oI := it.oI + 1, oIndex := it.oIndex + 1, nIndex := it.nIndex + 1 })
    else none
  | .delete =>
    if it.oI < it.oEnd then
      some (⟨.delete, some (it.oIndex + 1 - 1), none, false, it.oI⟩,
            { it with oI := it.oI + 1, oIndex := it.oIndex + 1 })
    else none
  | .insert =>
    if it.nI < it.nEnd then
      some (⟨.insert, none, some (it.nIndex + 1 - 1), true, it.nI⟩,
            { it with nI := it.nI + 1, nIndex := it.nIndex + 1 })
    else none
  | .replace =>
    if it.oI < it.oEnd then
      some (⟨.delete, some (it.oIndex + 1 - 1), none, false, it.oI⟩,
            { it with oI := it.oI + 1, oIndex := it.oIndex + 1 })
    else if it.nI < it.nEnd then
      some (⟨.insert, none, some (it.nIndex + 1 - 1), true, it.nI⟩,
            { it with nI := it.nI + 1, nIndex := it.nIndex + 1 })
    else none

/-- drain an iterator; `fuel` ≥ remaining items -/
def ChIter.drain : (fuel : Nat) → ChIter → List Change
  | 0, _ => []
  | fuel+1, it =>
    match it.next with
    | none => []
    | some (c, it) => c :: ChIter.drain fuel it

/-- `op.iter_changes(old,new).collect()` -/
def opChanges (x : Op) : List Change := (ChIter.new x).drain (x.oLen + x.nLen)

/-- `AllChangesIter`: `(remaining ops, current iterator)` -/
structure AllIter where
  ops : List Op
  cur : Option ChIter
  deriving Repr, Inhabited

/-- `AllChangesIter::next`; the inner `loop` takes at most `ops.length + 1` rounds -/
def AllIter.next : (fuel : Nat) → AllIter → Option (Change × AllIter)
  | 0, _ => none
  | fuel+1, a =>
    match a.cur with
    | some it =>
      (match it.next with
       | some (c, it) => some (c, { a with cur := some it })
       | none => AllIter.next fuel { a with cur := none })
    | none =>
      match a.ops with
      | first :: rest => AllIter.next fuel { ops := rest, cur := some (ChIter.new first) }
      | [] => none

def AllIter.drain : (fuel : Nat) → AllIter → List Change
  | 0, _ => []
  | fuel+1, a =>
    match a.next (2 * a.ops.length + 2) with
    | none => []
    | some (c, a) => c :: AllIter.drain fuel a

/-- `AllChangesIter::new(old, new, ops).collect()` -/
def allChanges (ops : List Op) : List Change :=
  AllIter.drain (ops.foldl (fun a x => a + x.oLen + x.nLen) 0) { ops := ops, cur := none }

end SimilarVerif

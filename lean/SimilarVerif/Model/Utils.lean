import SimilarVerif.Model.Basic
/-! `src/algorithms/utils.rs`: `common_prefix_len`, `common_suffix_len`, `unique`, `IdentifyDistinct`. -/
namespace SimilarVerif

/-- `take_while(|x| new[x.0] == old[x.1]).count()` over the zipped ranges: `fuel` = zip length. -/
def cplGo (E : Env) (os ns : Nat) : (fuel i : Nat) → World → Res (Nat × World)
  | 0, i, w => .ok (i, w)
  | fuel+1, i, w =>
    match cmp E (os + i) (ns + i) w with
    | .error e => .error e
    | .ok (true, w) => cplGo E os ns fuel (i+1) w
    | .ok (false, w) => .ok (i, w)

/-- `common_prefix_len(old, os..oe, new, ns..ne)` -/
def commonPrefixLen (E : Env) (os oe ns ne : Nat) (w : World) : Res (Nat × World) :=
  if oe ≤ os ∨ ne ≤ ns then .ok (0, w) else cplGo E os ns (min (oe - os) (ne - ns)) 0 w

def cslGo (E : Env) (oe ne : Nat) : (fuel i : Nat) → World → Res (Nat × World)
  | 0, i, w => .ok (i, w)
  | fuel+1, i, w =>
    match cmp E (oe - 1 - i) (ne - 1 - i) w with
    | .error e => .error e
    | .ok (true, w) => cslGo E oe ne fuel (i+1) w
    | .ok (false, w) => .ok (i, w)

/-- `common_suffix_len(old, os..oe, new, ns..ne)` -/
def commonSuffixLen (E : Env) (os oe ns ne : Nat) (w : World) : Res (Nat × World) :=
  if oe ≤ os ∨ ne ≤ ns then .ok (0, w) else cslGo E oe ne (min (oe - os) (ne - ns)) 0 w

/-- Number of `j ∈ [s, s+len)` with `eq i j = some true`; `none` if some index is out of bounds. -/
def countEq (eq : Nat → Nat → Option Bool) (i s : Nat) : (len : Nat) → Option Nat
  | 0 => some 0
  | len+1 =>
    match eq i (s + len), countEq eq i s len with
    | some b, some c => some (if b then c + 1 else c)
    | _, _ => none

/-- `unique(lookup, s..e)`: the indices whose item occurs exactly once in the range, ascending.
The `HashMap` of the Rust is specified, not modelled: the result is sorted by index, so it does not
depend on iteration order (C20). `none` = an index of the range is out of bounds (panic). -/
def uniqueGo (eq : Nat → Nat → Option Bool) (s e : Nat) : (cnt i : Nat) → Option (List Nat)
  | 0, _ => some []
  | cnt+1, i =>
    match countEq eq i s (e - s), uniqueGo eq s e cnt (i+1) with
    | some c, some rest => some (if c == 1 then i :: rest else rest)
    | _, _ => none

def unique (eq : Nat → Nat → Option Bool) (s e : Nat) : Option (List Nat) :=
  uniqueGo eq s e (e - s) s

end SimilarVerif

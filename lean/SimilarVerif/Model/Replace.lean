import SimilarVerif.Model.Basic
/-! `src/algorithms/replace.rs` -/
namespace SimilarVerif

structure RState where
  del : Option (Nat × Nat × Nat) := none
  ins : Option (Nat × Nat × Nat) := none
  eq  : Option (Nat × Nat × Nat) := none
  deriving Repr, DecidableEq, Inhabited

/-- `flush_eq` -/
def rFlushEq {σ} (h : Hook σ) (r : RState) (s : σ) (w : World) : Res (RState × σ × World) :=
  match r.eq with
  | some (o, n, l) =>
    (match h.call (.op (.equal o n l)) s w with
     | .error e => .error e
     | .ok (s, w) => .ok ({ r with eq := none }, s, w))
  | none => .ok (r, s, w)

/-- `flush_del_ins` -/
def rFlushDelIns {σ} (h : Hook σ) (r : RState) (s : σ) (w : World) : Res (RState × σ × World) :=
  match r.del, r.ins with
  | some (o, ol, _), some (_, n, nl) =>
    (match h.call (.op (.replace o ol n nl)) s w with
     | .error e => .error e
     | .ok (s, w) => .ok ({ r with del := none, ins := none }, s, w))
  | some (o, ol, n), none =>
    (match h.call (.op (.delete o ol n)) s w with
     | .error e => .error e
     | .ok (s, w) => .ok ({ r with del := none }, s, w))
  | none, some (o, n, nl) =>
    (match h.call (.op (.insert o n nl)) s w with
     | .error e => .error e
     | .ok (s, w) => .ok ({ r with ins := none }, s, w))
  | none, none => .ok (r, s, w)

/-- `Replace<D>` as a hook over the inner hook. The two `debug_assert_eq!` are panics (the harness
is built with debug assertions on). -/
def replaceHook {σ} (h : Hook σ) : Hook (RState × σ) where
  call c st w :=
    let (r, s) := st
    match c with
    | .op (.equal o n l) =>
      (match rFlushDelIns h r s w with
       | .error e => .error e
       | .ok (r, s, w) =>
         match r.eq with
         | some (eo, en, el) => .ok (({ r with eq := some (eo, en, el + l) }, s), w)
         | none => .ok (({ r with eq := some (o, n, l) }, s), w))
    | .op (.delete o l n) =>
      (match rFlushEq h r s w with
       | .error e => .error e
       | .ok (r, s, w) =>
         match r.del with
         | some (d_o, dl, dn) =>
           if o = d_o + dl then .ok (({ r with del := some (d_o, dl + l, dn) }, s), w) else .error .panic
         | none => .ok (({ r with del := some (o, l, n) }, s), w))
    | .op (.insert o n l) =>
      (match rFlushEq h r s w with
       | .error e => .error e
       | .ok (r, s, w) =>
         match r.ins with
         | some (io, i_n, il) =>
           if i_n + il = n then .ok (({ r with ins := some (io, i_n, l + il) }, s), w) else .error .panic
         | none => .ok (({ r with ins := some (o, n, l) }, s), w))
    | .op (.replace o ol n nl) =>
      (match rFlushEq h r s w with
       | .error e => .error e
       | .ok (r, s, w) =>
         match h.call (.op (.replace o ol n nl)) s w with
         | .error e => .error e
         | .ok (s, w) => .ok ((r, s), w))
    | .finish =>
      (match rFlushEq h r s w with
       | .error e => .error e
       | .ok (r, s, w) =>
         match rFlushDelIns h r s w with
         | .error e => .error e
         | .ok (r, s, w) =>
           match h.call .finish s w with
           | .error e => .error e
           | .ok (s, w) => .ok ((r, s), w))

end SimilarVerif

import SimilarVerif.Model.Myers
import SimilarVerif.Model.Replace
/-! `src/algorithms/patience.rs` -/
namespace SimilarVerif

/-- cursor of the internal `Patience` hook -/
structure PState where
  oc : Nat
  nc : Nat
  deriving Repr, DecidableEq, Inhabited

/-- `while old_current < a && new_current < b && new[new_current] == old[old_current]` -/
def patScan (E : Env) (a b : Nat) : (fuel : Nat) → (oc nc : Nat) → World → Res (Nat × Nat × World)
  | 0, oc, nc, w => if oc < a && nc < b then .error .fuel else .ok (oc, nc, w)
  | fuel+1, oc, nc, w =>
    if oc < a && nc < b then
      match cmp E oc nc w with
      | .error e => .error e
      | .ok (true, w) => patScan E a b fuel (oc+1) (nc+1) w
      | .ok (false, w) => .ok (oc, nc, w)
    else .ok (oc, nc, w)

/-- body of `Patience::equal` for one pair `(old, new)` of unique-list positions -/
def patAnchor {σ} (E : Env) (h : Hook σ) (uo un : Array Nat) (i j : Nat) (p : PState) (s : σ) (w : World) :
    Res (PState × σ × World) :=
  match uo[i]?, un[j]? with
  | some a, some b =>
    let a0 := p.oc
    let b0 := p.nc
    (match patScan E a b (min (a - p.oc) (b - p.nc)) p.oc p.nc w with
     | .error e => .error e
     | .ok (oc, nc, w) =>
       match (if a0 < oc then emit h (.equal a0 b0 (oc - a0)) s w else .ok (s, w)) with
       | .error e => .error e
       | .ok (s, w) =>
         match myersDiff E (noFinishHook h) oc a nc b s w with
         | .error e => .error e
         | .ok (s, w) => .ok ({ oc := a, nc := b }, s, w))
  | _, _ => .error .panic

/-- `for (old, new) in (old..old+len).zip(new..new+len)` -/
def patEqual {σ} (E : Env) (h : Hook σ) (uo un : Array Nat) :
    (len : Nat) → (i j : Nat) → PState → σ → World → Res (PState × σ × World)
  | 0, _, _, p, s, w => .ok (p, s, w)
  | len+1, i, j, p, s, w =>
    match patAnchor E h uo un i j p s w with
    | .error e => .error e
    | .ok (p, s, w) => patEqual E h uo un len (i+1) (j+1) p s w

/-- the internal `Patience` hook: only `equal` and `finish` are overridden; `delete`, `insert`
(and hence the default `replace`) are the trait's no-ops. -/
def patienceHook {σ} (E : Env) (h : Hook σ) (uo un : Array Nat) (oe ne : Nat) : Hook (PState × σ) where
  call c st w :=
    let (p, s) := st
    match c with
    | .op (.equal o n len) =>
      (match patEqual E h uo un len o n p s w with
       | .error e => .error e
       | .ok (p, s, w) => .ok ((p, s), w))
    | .op _ => .ok ((p, s), w)
    | .finish =>
      (match myersDiff E h p.oc oe p.nc ne s w with
       | .error e => .error e
       | .ok (s, w) => .ok ((p, s), w))

/-- the two `unique` lists compared through the original items -/
def Env.sub (E : Env) (uo un : Array Nat) : Env where
  on i j := match uo[i]?, un[j]? with | some a, some b => E.on a b | _, _ => none
  oo i j := match uo[i]?, uo[j]? with | some a, some b => E.oo a b | _, _ => none
  nn i j := match un[i]?, un[j]? with | some a, some b => E.nn a b | _, _ => none

/-- `patience::diff_deadline` -/
def patienceDiff {σ} (E : Env) (h : Hook σ) (os oe ns ne : Nat) (s : σ) (w : World) : Res (σ × World) :=
  match unique E.oo os oe, unique E.nn ns ne with
  | some uo, some un =>
    let uo := uo.toArray
    let un := un.toArray
    let hook := replaceHook (patienceHook E h uo un oe ne)
    (match myersDiff (E.sub uo un) hook 0 uo.size 0 un.size ({}, ({ oc := os, nc := ns }, s)) w with
     | .error e => .error e
     | .ok ((_, _, s), w) => .ok (s, w))
  | _, _ => .error .panic

end SimilarVerif

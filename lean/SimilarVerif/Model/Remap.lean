import SimilarVerif.Model.Common
/-! `src/utils.rs`: `SliceRemapper` / `TextDiffRemapper::iter_slices`. -/
namespace SimilarVerif

/-- `SliceRemapper::new`: cumulative byte ranges of the tokens -/
def remapIndexes : (pos : Nat) → List Nat → List (Nat × Nat)
  | _, [] => []
  | pos, l :: ls => (pos, pos + l) :: remapIndexes (pos + l) ls

/-- `SliceRemapper::slice(s..e)`: `None` when a token index is out of range; `range.end - 1`
underflows (panic) for `e = 0` once the start lookup succeeded; `source.slice(start..end)` panics
when `start > end` -/
def remapSlice (idx : Array (Nat × Nat)) (s e : Nat) : Res (Option (Nat × Nat)) :=
  match idx[s]? with
  | none => .ok none
  | some (st, _) =>
    if e = 0 then .error .panic else
    match idx[e - 1]? with
    | none => .ok none
    | some (_, en) => if st ≤ en then .ok (some (st, en)) else .error .panic

/-- `TextDiffRemapper::iter_slices(op)`: `(tag, fromNew, start, end)`; `expect("slice out of bounds")` -/
def remapOp (oldIdx newIdx : Array (Nat × Nat)) (x : Op) : Res (List (CTag × Bool × Nat × Nat)) :=
  let one (tag : CTag) (fromNew : Bool) (s e : Nat) : Res (List (CTag × Bool × Nat × Nat)) :=
    match remapSlice (if fromNew then newIdx else oldIdx) s e with
    | .error err => .error err
    | .ok none => .error .panic
    | .ok (some (a, b)) => .ok [(tag, fromNew, a, b)]
  match x with
  | .equal o _ len => one .equal false o (o + len)
  | .insert _ n len => one .insert true n (n + len)
  | .delete o len _ => one .delete false o (o + len)
  | .replace o ol n nl =>
    match one .delete false o (o + ol), one .insert true n (n + nl) with
    | .ok a, .ok b => .ok (a ++ b)
    | .error e, _ => .error e
    | _, .error e => .error e

def remapOps (oldIdx newIdx : Array (Nat × Nat)) : List Op → Res (List (CTag × Bool × Nat × Nat))
  | [] => .ok []
  | x :: xs =>
    match remapOp oldIdx newIdx x, remapOps oldIdx newIdx xs with
    | .ok a, .ok b => .ok (a ++ b)
    | .error e, _ => .error e
    | _, .error e => .error e

end SimilarVerif

import SimilarVerif.Model.Basic
/-!
# `src/text/abstraction.rs`: the tokenizers of `str` and `[u8]`

Text is a list of bytes. A tokenizer returns byte ranges `(start, end)` into its input; the tokens
are the corresponding slices.  The `str` implementations iterate `char_indices()` (`(idx, char)`),
the `[u8]` implementations iterate bstr's `char_indices()` (`(start, end, char)` with U+FFFD for each
maximal invalid subpart).  Both are modelled as written, including their different index arithmetic.
The Unicode segmenters (`unicode-segmentation`, bstr's word/grapheme segmenters) are external:
they are a parameter (the list of segment lengths) with the contract `Partition`.
-/
namespace SimilarVerif

abbrev Bytes := List UInt8

/-! ## UTF-8 -/

/-- `char::len_utf8` -/
def utf8Len (c : Char) : Nat :=
  if c.val < 0x80 then 1 else if c.val < 0x800 then 2 else if c.val < 0x10000 then 3 else 4

/-- UTF-8 encoding of one scalar value -/
def utf8Enc (c : Char) : Bytes :=
  let v := c.val.toNat
  if v < 0x80 then [v.toUInt8]
  else if v < 0x800 then [(0xC0 + v / 64).toUInt8, (0x80 + v % 64).toUInt8]
  else if v < 0x10000 then [(0xE0 + v / 4096).toUInt8, (0x80 + v / 64 % 64).toUInt8, (0x80 + v % 64).toUInt8]
  else [(0xF0 + v / 262144).toUInt8, (0x80 + v / 4096 % 64).toUInt8, (0x80 + v / 64 % 64).toUInt8, (0x80 + v % 64).toUInt8]

def utf8EncAll (cs : List Char) : Bytes := cs.flatMap utf8Enc

def isCont (b : UInt8) : Bool := 0x80 ≤ b && b ≤ 0xBF

def mkChar (v : Nat) : Char := if h : v.isValidChar then ⟨v.toUInt32, by
    have := h; simp [Nat.isValidChar] at this; simp [UInt32.isValidChar, Nat.toUInt32]; omega⟩ else '�'

/-- bstr's lossy decoding of one scalar value from the front of a non-empty slice: the decoded
character (U+FFFD for an invalid or truncated sequence) and the number of bytes consumed — for
an invalid sequence the maximal prefix of a valid sequence, at least one byte. -/
def decodeOne (bs : Bytes) : Char × Nat :=
  match bs with
  | [] => ('�', 0)
  | b0 :: rest =>
    let bad (k : Nat) : Char × Nat := ('�', k)
    if b0 < 0x80 then (Char.ofNat b0.toNat, 1)
    else if b0 < 0xC2 then bad 1
    else if b0 < 0xE0 then
      match rest with
      | b1 :: _ => if isCont b1 then (mkChar ((b0.toNat - 0xC0) * 64 + (b1.toNat - 0x80)), 2) else bad 1
      | [] => bad 1
    else if b0 < 0xF0 then
      let lo : UInt8 := if b0 == 0xE0 then 0xA0 else 0x80
      let hi : UInt8 := if b0 == 0xED then 0x9F else 0xBF
      match rest with
      | b1 :: rest =>
        if lo ≤ b1 && b1 ≤ hi then
          match rest with
          | b2 :: _ =>
            if isCont b2 then (mkChar ((b0.toNat - 0xE0) * 4096 + (b1.toNat - 0x80) * 64 + (b2.toNat - 0x80)), 3) else bad 2
          | [] => bad 2
        else bad 1
      | [] => bad 1
    else if b0 < 0xF5 then
      let lo : UInt8 := if b0 == 0xF0 then 0x90 else 0x80
      let hi : UInt8 := if b0 == 0xF4 then 0x8F else 0xBF
      match rest with
      | b1 :: rest =>
        if lo ≤ b1 && b1 ≤ hi then
          match rest with
          | b2 :: rest =>
            if isCont b2 then
              match rest with
              | b3 :: _ =>
                if isCont b3 then
                  (mkChar ((b0.toNat - 0xF0) * 262144 + (b1.toNat - 0x80) * 4096 + (b2.toNat - 0x80) * 64 + (b3.toNat - 0x80)), 4)
                else bad 3
              | [] => bad 3
            else bad 2
          | [] => bad 2
        else bad 1
      | [] => bad 1
    else bad 1

/-- bstr `char_indices()`: `(start, end, char)` triples; `fuel` ≥ number of bytes -/
def charIndicesB : (fuel : Nat) → (pos : Nat) → Bytes → List (Nat × Nat × Char)
  | 0, _, _ => []
  | _, _, [] => []
  | fuel+1, pos, bs =>
    let (c, k) := decodeOne bs
    let k := if k == 0 then 1 else k
    (pos, pos + k, c) :: charIndicesB fuel (pos + k) (bs.drop k)

/-- `str::char_indices()` of a string given as its scalar values: `(idx, char)` -/
def charIndicesS : (pos : Nat) → List Char → List (Nat × Char)
  | _, [] => []
  | pos, c :: cs => (pos, c) :: charIndicesS (pos + utf8Len c) cs

/-- `char::is_whitespace` (Unicode `White_Space`) -/
def isWhitespace (c : Char) : Bool :=
  let v := c.val
  (0x09 ≤ v && v ≤ 0x0D) || v == 0x20 || v == 0x85 || v == 0xA0 || v == 0x1680 ||
  (0x2000 ≤ v && v ≤ 0x200A) || v == 0x2028 || v == 0x2029 || v == 0x202F || v == 0x205F || v == 0x3000

def isNewline (c : Char) : Bool := c == '\r' || c == '\n'

/-! ## `impl DiffableStr for str` -/

/-- `tokenize_lines`: the `while let Some((idx, c)) = iter.next()` loop with `peek` -/
def linesGoS : List (Nat × Char) → (lastPos : Nat) → List (Nat × Nat) × Nat
  | [], lastPos => ([], lastPos)
  | [(idx, c)], lastPos =>
    if c == '\r' || c == '\n' then ([(lastPos, idx + 1)], idx + 1) else ([], lastPos)
  | (idx, c) :: (j, c2) :: rest, lastPos =>
    if c == '\r' then
      if c2 == '\n' then
        let (ts, lp) := linesGoS rest (idx + 2)
        ((lastPos, idx + 1 + 1) :: ts, lp)
      else
        let (ts, lp) := linesGoS ((j, c2) :: rest) (idx + 1)
        ((lastPos, idx + 1) :: ts, lp)
    else if c == '\n' then
      let (ts, lp) := linesGoS ((j, c2) :: rest) (idx + 1)
      ((lastPos, idx + 1) :: ts, lp)
    else linesGoS ((j, c2) :: rest) lastPos

def tokenizeLinesS (s : List Char) : List (Nat × Nat) :=
  let len := (s.map utf8Len).sum
  let (ts, lastPos) := linesGoS (charIndicesS 0 s) 0
  if lastPos < len then ts ++ [(lastPos, len)] else ts

/-- inner `while let Some(&(_, next_char)) = iter.peek()` of the run tokenizers: extends `end`
while the class of the next char equals `cls`; returns the new end and the remaining chars -/
def runGoS (p : Char → Bool) (cls : Bool) : List (Nat × Char) → (e : Nat) → Nat × List (Nat × Char)
  | [], e => (e, [])
  | (i, c) :: rest, e => if p c != cls then (e, (i, c) :: rest) else runGoS p cls rest (e + utf8Len c)

/-- outer loop of `tokenize_words` / `tokenize_lines_and_newlines`; `fuel` ≥ number of chars -/
def runsS (p : Char → Bool) : (fuel : Nat) → List (Nat × Char) → List (Nat × Nat)
  | 0, _ => []
  | _, [] => []
  | fuel+1, (idx, c) :: rest =>
    let (e, rest') := runGoS p (p c) rest (idx + utf8Len c)
    (idx, e) :: runsS p fuel rest'

def tokenizeWordsS (s : List Char) : List (Nat × Nat) := runsS isWhitespace s.length (charIndicesS 0 s)
def tokenizeLinesAndNewlinesS (s : List Char) : List (Nat × Nat) := runsS isNewline s.length (charIndicesS 0 s)
def tokenizeCharsS (s : List Char) : List (Nat × Nat) := (charIndicesS 0 s).map fun (i, c) => (i, i + utf8Len c)

/-! ## `impl DiffableStr for [u8]` -/

def linesGoB : List (Nat × Nat × Char) → (lastPos : Nat) → List (Nat × Nat) × Nat
  | [], lastPos => ([], lastPos)
  | [(_, e, c)], lastPos =>
    if c == '\r' || c == '\n' then ([(lastPos, e)], e) else ([], lastPos)
  | (_, e, c) :: (s2, e2, c2) :: rest, lastPos =>
    if c == '\r' then
      if c2 == '\n' then
        let (ts, lp) := linesGoB rest (e + 1)
        ((lastPos, e + 1) :: ts, lp)
      else
        let (ts, lp) := linesGoB ((s2, e2, c2) :: rest) e
        ((lastPos, e) :: ts, lp)
    else if c == '\n' then
      let (ts, lp) := linesGoB ((s2, e2, c2) :: rest) e
      ((lastPos, e) :: ts, lp)
    else linesGoB ((s2, e2, c2) :: rest) lastPos

def tokenizeLinesB (b : Bytes) : List (Nat × Nat) :=
  let (ts, lastPos) := linesGoB (charIndicesB b.length 0 b) 0
  if lastPos < b.length then ts ++ [(lastPos, b.length)] else ts

def runGoB (p : Char → Bool) (cls : Bool) : List (Nat × Nat × Char) → (e : Nat) → Nat × List (Nat × Nat × Char)
  | [], e => (e, [])
  | (s, e', c) :: rest, e => if p c != cls then (e, (s, e', c) :: rest) else runGoB p cls rest e'

def runsB (p : Char → Bool) : (fuel : Nat) → List (Nat × Nat × Char) → List (Nat × Nat)
  | 0, _ => []
  | _, [] => []
  | fuel+1, (s, e, c) :: rest =>
    let (e, rest') := runGoB p (p c) rest e
    (s, e) :: runsB p fuel rest'

def tokenizeWordsB (b : Bytes) : List (Nat × Nat) := runsB isWhitespace b.length (charIndicesB b.length 0 b)
def tokenizeLinesAndNewlinesB (b : Bytes) : List (Nat × Nat) := runsB isNewline b.length (charIndicesB b.length 0 b)
def tokenizeCharsB (b : Bytes) : List (Nat × Nat) := (charIndicesB b.length 0 b).map fun (s, e, _) => (s, e)

/-! ## external segmenters -/

/-- ranges from the segment lengths an external segmenter reported -/
def rangesOfLens : (pos : Nat) → List Nat → List (Nat × Nat)
  | _, [] => []
  | pos, l :: ls => (pos, pos + l) :: rangesOfLens (pos + l) ls

/-- contract of a segmenter on an input of `len` bytes: non-empty pieces that cover it -/
def Partition (lens : List Nat) (len : Nat) : Prop := (∀ l ∈ lens, 0 < l) ∧ lens.sum = len

/-! ## helpers of `DiffableStr` -/

def slice (b : Bytes) (r : Nat × Nat) : Bytes := (b.drop r.1).take (r.2 - r.1)

/-- `ends_with_newline` (both implementations: last byte / last char is `\r` or `\n`) -/
def endsWithNewline (b : Bytes) : Bool :=
  match b.getLast? with
  | some x => x == 13 || x == 10
  | none => false

end SimilarVerif

import SimilarVerif.Model.Lcs
import SimilarVerif.Model.Patience
import SimilarVerif.Model.Compact
/-! `src/algorithms/mod.rs` (dispatch), `src/common.rs` (capture pipeline, ratio, grouping),
`src/iter.rs` and `DiffOp::iter_slices` (expansion of ops). -/
namespace SimilarVerif

inductive Alg where
  | myers | patience | lcs
  deriving Repr, DecidableEq, Inhabited

/-- `algorithms::diff_deadline` -/
def diffWith {σ} (alg : Alg) (E : Env) (h : Hook σ) (os oe ns ne : Nat) (s : σ) (w : World) : Res (σ × World) :=
  match alg with
  | .myers => myersDiff E h os oe ns ne s w
  | .patience => patienceDiff E h os oe ns ne s w
  | .lcs => lcsDiff E h os oe ns ne s w

/-- everything a recording hook was told by `alg` alone -/
def rawTrace (alg : Alg) (E : Env) (os oe ns ne : Nat) (w : World) (r : Rec := {}) : Res (Rec × World) :=
  diffWith alg E recHook os oe ns ne r w

def traceOps : List Call → List Op
  | [] => []
  | .op x :: cs => x :: traceOps cs
  | .finish :: cs => traceOps cs

/-- `capture_diff_deadline`: `Compact::new(Replace::new(Capture::new()), old, new)`, `.unwrap()`,
`into_ops()`. `Capture` is the recording hook with a native `replace`. -/
def captureDiff (alg : Alg) (E : Env) (repair : Bool) (os oe ns ne : Nat) (w : World) : Res (List Op × World) :=
  match diffWith alg E (compactHook E repair (replaceHook recHook)) os oe ns ne ([], ({}, {})) w with
  | .error e => .error e
  | .ok ((_, _, r), w) => .ok (traceOps r.trace, w)

/-- `ops.iter().map(|op| if let Equal{len,..} = op { len } else { 0 }).sum()` -/
def sumEqual : List Op → Nat
  | [] => 0
  | .equal _ _ l :: cs => l + sumEqual cs
  | _ :: cs => sumEqual cs

/-- `get_diff_ratio` as the exact pair `(2 * matches, old_len + new_len)`; the `f32` value is
computed from this pair with the same IEEE operations (`ratioF` in Model/Close.lean). -/
def ratioPair (ops : List Op) (oldLen newLen : Nat) : Nat × Nat := (2 * sumEqual ops, oldLen + newLen)

/-! ### `group_diff_ops` -/

def trimFirst (n : Nat) : List Op → List Op
  | .equal o nn len :: rest => .equal (o + (len - n)) (nn + (len - n)) (len - (len - n)) :: rest
  | l => l

def trimLast (n : Nat) : List Op → List Op
  | [] => []
  | [.equal o nn len] => [.equal o nn (len - (len - n))]
  | [x] => [x]
  | x :: y :: rest => x :: trimLast n (y :: rest)

def groupLoop (n : Nat) : List Op → (pending : List Op) → (rv : List (List Op)) → List (List Op)
  | [], pending, rv =>
    (match pending with
     | [] => rv
     | [.equal ..] => rv
     | _ => rv ++ [pending])
  | .equal o nn len :: rest, pending, rv =>
    if n * 2 < len then
      groupLoop n rest [.equal (o + (len - n)) (nn + (len - n)) (len - (len - n))]
        (rv ++ [pending ++ [.equal o nn n]])
    else groupLoop n rest (pending ++ [.equal o nn len]) rv
  | x :: rest, pending, rv => groupLoop n rest (pending ++ [x]) rv

def groupDiffOps (ops : List Op) (n : Nat) : List (List Op) :=
  match ops with
  | [] => []
  | ops => groupLoop n (trimLast n (trimFirst n ops)) [] []

/-! ### expansion into changes (`ChangesIter`) and slices (`iter_slices`) -/

inductive CTag where
  | equal | delete | insert
  deriving Repr, DecidableEq, Inhabited

/-- `Change<T>` with the value left symbolic: `(side, index)` of the item it was read from -/
structure Change where
  tag : CTag
  oldIndex : Option Nat
  newIndex : Option Nat
  /-- `false`: value is `old[idx]`, `true`: value is `new[idx]` -/
  fromNew : Bool
  idx : Nat
  deriving Repr, DecidableEq, Inhabited

/-- `(tag, fromNew, start, end)` of each slice of `DiffOp::iter_slices` -/
def iterSlices : Op → List (CTag × Bool × Nat × Nat)
  | .equal o _ len => [(.equal, false, o, o + len)]
  | .delete o len _ => [(.delete, false, o, o + len)]
  | .insert _ n len => [(.insert, true, n, n + len)]
  | .replace o ol n nl => [(.delete, false, o, o + ol), (.insert, true, n, n + nl)]

end SimilarVerif

import SimilarVerif.Model.Common
import SimilarVerif.Model.Text
/-! `src/text/mod.rs`: `TextDiffConfig::diff` with the 100-token switch, and
`IdentifyDistinct` of `src/algorithms/utils.rs`. -/
namespace SimilarVerif

/-- the environment of two token lists: tokens compare by their bytes -/
def Env.ofTokens (old new : Array Bytes) : Env where
  on i j := match old[i]?, new[j]? with | some a, some b => some (b == a) | _, _ => none
  oo i j := match old[i]?, old[j]? with | some a, some b => some (a == b) | _, _ => none
  nn i j := match new[i]?, new[j]? with | some a, some b => some (a == b) | _, _ => none

/-- first index `k ∈ [s, i)` with `eq k i = some true` -/
def firstEq (eq : Nat → Nat → Option Bool) (i : Nat) : (cnt : Nat) → (k : Nat) → Option Nat
  | 0, _ => none
  | cnt+1, k => if eq k i == some true then some k else firstEq eq i cnt (k+1)

/-- `IdentifyDistinct::new`: ids in first-seen order, old range first, then new range.  The shared
`HashMap` keyed by `Key::{Old,New}` is specified, not modelled: an item gets the id of the first
earlier item equal to it (old items first), else the next fresh id.  `none` = an index of a range is
out of bounds (panic). -/
def identifyOld (E : Env) (os : Nat) : (cnt : Nat) → (i : Nat) → (ids : Array Nat) → (next : Nat) → Option (Array Nat × Nat)
  | 0, _, ids, next => some (ids, next)
  | cnt+1, i, ids, next =>
    match E.oo i i with
    | none => none
    | some _ =>
      match firstEq E.oo i (i - os) os with
      | some k => identifyOld E os cnt (i+1) (ids.push (ids.getD (k - os) 0)) next
      | none => identifyOld E os cnt (i+1) (ids.push next) (next + 1)

def identifyNew (E : Env) (os oe ns : Nat) (oldIds : Array Nat) : (cnt : Nat) → (j : Nat) → (ids : Array Nat) → (next : Nat) → Option (Array Nat × Nat)
  | 0, _, ids, next => some (ids, next)
  | cnt+1, j, ids, next =>
    match E.nn j j with
    | none => none
    | some _ =>
      -- an equal old item first (`on k j`), then an equal earlier new item
      match firstEq (fun k j => E.on k j) j (oe - os) os with
      | some k => identifyNew E os oe ns oldIds cnt (j+1) (ids.push (oldIds.getD (k - os) 0)) next
      | none =>
        match firstEq E.nn j (j - ns) ns with
        | some k => identifyNew E os oe ns oldIds cnt (j+1) (ids.push (ids.getD (k - ns) 0)) next
        | none => identifyNew E os oe ns oldIds cnt (j+1) (ids.push next) (next + 1)

def identifyDistinct (E : Env) (os oe ns ne : Nat) : Option (Array Nat × Array Nat) :=
  match identifyOld E os (oe - os) os #[] 0 with
  | none => none
  | some (oldIds, next) =>
    match identifyNew E os oe ns oldIds (ne - ns) ns #[] next with
    | none => none
    | some (newIds, _) => some (oldIds, newIds)

/-- `TextDiffConfig::diff`'s op computation on the two token lists -/
def textDiffOps (alg : Alg) (repair : Bool) (old new : Array Bytes) (w : World) : Res (List Op × World) :=
  let E := Env.ofTokens old new
  if 100 < old.size || 100 < new.size then
    match identifyDistinct E 0 old.size 0 new.size with
    | none => .error .panic
    | some (io, i_n) => captureDiff alg (Env.ofSeqs io i_n 0 0) repair 0 old.size 0 new.size w
  else captureDiff alg E repair 0 old.size 0 new.size w

/-- `newline_terminated` of the resulting `TextDiff` -/
def newlineTerminated (override : Option Bool) (isLines : Bool) : Bool := override.getD isLines

end SimilarVerif

import SimilarVerif.Model.TextDiff
import SimilarVerif.Model.Remap
import SimilarVerif.Model.Iter
/-! `src/utils.rs`: the one-call helpers `diff_chars`, `diff_words`, `diff_unicode_words`,
`diff_graphemes` (tokenize, text diff, remap every op to slices of the original texts),
`diff_lines` (tokenize, text diff, `iter_all_changes` values) and `diff_slices`.  The tokenizer is a parameter: the
token ranges `ro`, `rn` of the two texts. -/
namespace SimilarVerif

/-- `diff_chars` / `diff_words` / `diff_unicode_words` / `diff_graphemes` -/
def utilsDiffRemap (alg : Alg) (bo bn : Bytes) (ro rn : List (Nat × Nat)) (w : World) :
    Res (List (CTag × Bytes)) :=
  let to := (ro.map (slice bo)).toArray
  let tn := (rn.map (slice bn)).toArray
  match textDiffOps alg false to tn w with
  | .error e => .error e
  | .ok (ops, _) =>
    match remapOps (remapIndexes 0 (to.toList.map List.length)).toArray (remapIndexes 0 (tn.toList.map List.length)).toArray ops with
    | .error e => .error e
    | .ok sl => .ok (sl.map fun (t, side, a, b) => (t, slice (if side then bn else bo) (a, b)))

/-- `diff_lines`: `(change.tag(), change.value())` of `iter_all_changes` -/
def utilsDiffLines (alg : Alg) (bo bn : Bytes) (ro rn : List (Nat × Nat)) (w : World) :
    Res (List (CTag × Bytes)) :=
  let to := (ro.map (slice bo)).toArray
  let tn := (rn.map (slice bn)).toArray
  match textDiffOps alg false to tn w with
  | .error e => .error e
  | .ok (ops, _) =>
    (allChanges ops).mapM fun c =>
      match (if c.fromNew then tn[c.idx]? else to[c.idx]?) with
      | some v => .ok (c.tag, v)
      | none => .error .panic

/-- `diff_slices(alg, old, new)`: `capture_diff_slices` followed by `DiffOp::iter_slices` of every op; a slice is
`(tag, from the new side?, start, end)` into the caller's slices -/
def utilsDiffSlices (alg : Alg) (E : Env) (n m : Nat) (w : World) : Res (List (CTag × Bool × Nat × Nat)) :=
  match captureDiff alg E false 0 n 0 m w with
  | .error e => .error e
  | .ok (ops, _) => .ok (ops.flatMap iterSlices)

end SimilarVerif

import SimilarVerif.Model.TextDiff
import SimilarVerif.Model.F32
/-! `get_close_matches` (`src/text/mod.rs`) with `upper_seq_ratio` / `QuickSeqRatio` (`src/text/utils.rs`).
`f32` values are IEEE-754 binary32 BIT PATTERNS (natural numbers `< 2^32`) computed by the soft-float
model `SimilarVerif.F32` (Model/F32.lean) with exact natural-number arithmetic, so that the kernel can
reason about them (Lemmas/F32.lean, Props/C18); the driver cross-checks them against the hardware
floats on every request. After the `fix:` commit the heap key is `ratio.to_bits()`. -/
namespace SimilarVerif

/-- bits of `2.0 * a as f32 / b as f32`, or of `1.0` when `b = 0` -/
def ratioF (a b : Nat) : Nat := F32.ratio a b

/-- `upper_seq_ratio` (bits) -/
def upperSeqRatio (l1 l2 : Nat) : Nat := ratioF (min l1 l2) (l1 + l2)

/-- a counter per distinct token (the `HashMap<&T, i32>` of the Rust, as an association list) -/
abbrev Counts := List (Bytes × Int)

def Counts.get (c : Counts) (x : Bytes) : Option Int :=
  match c with
  | [] => none
  | (k, v) :: rest => if k == x then some v else Counts.get rest x

def Counts.set (c : Counts) (x : Bytes) (v : Int) : Counts :=
  match c with
  | [] => [(x, v)]
  | (k, v') :: rest => if k == x then (k, v) :: rest else (k, v') :: Counts.set rest x v

/-- `QuickSeqRatio::new`: occurrences of each token of the word -/
def countsOf : List Bytes → Counts
  | [] => []
  | x :: xs => let c := countsOf xs; c.set x ((c.get x).getD 0 + 1)

/-- the loop of `QuickSeqRatio::calc`: `available` starts empty; a token matches while its
remaining count (from `available`, else from the word's counts, else 0) is positive -/
def quickLoop (word : Counts) : (available : Counts) → List Bytes → Nat
  | _, [] => 0
  | av, x :: xs =>
    let n : Int := match av.get x with
      | some c => c
      | none => (word.get x).getD 0
    (if 0 < n then 1 else 0) + quickLoop word (av.set x (n - 1)) xs

/-- `QuickSeqRatio::calc`: matches over (distinct tokens of the word + length of the candidate) -/
def quickRatio (word cand : List Bytes) : Nat :=
  let wc := countsOf word
  ratioF (quickLoop wc [] cand) (wc.length + cand.length)

/-- `TextDiff::from_slices(&seq1, &seq2).ratio()` (bits) -/
def diffRatio (seq1 seq2 : List Bytes) : Res Nat :=
  match textDiffOps .myers false seq1.toArray seq2.toArray {} with
  | .error e => .error e
  | .ok (ops, _) => let (a, b) := ratioPair ops seq1.length seq2.length; .ok (ratioF (a / 2) b)

/-- candidates that pass the filters, with their heap key; `cutoff`: the bits of the user's `f32` (any
pattern: negative, zero, subnormal, infinite, NaN); the comparisons are the IEEE ones -/
def closeScored (tok : Bytes → List Bytes) (word : Bytes) (cutoff : Nat) : List Bytes → Res (List (UInt32 × Bytes))
  | [] => .ok []
  | p :: ps =>
    let seq1 := tok word
    let seq2 := tok p
    match closeScored tok word cutoff ps with
    | .error e => .error e
    | .ok rest =>
      if F32.lt (upperSeqRatio seq1.length seq2.length) cutoff || F32.lt (quickRatio seq1 seq2) cutoff then .ok rest
      else
        match diffRatio seq1 seq2 with
        | .error e => .error e
        | .ok r => if F32.ge r cutoff then .ok ((r.toUInt32, p) :: rest) else .ok rest

/-- lexicographic order of byte strings (`Ord for str` / `[u8]`) -/
def bytesLt : Bytes → Bytes → Bool
  | [], [] => false
  | [], _ :: _ => true
  | _ :: _, [] => false
  | a :: as, b :: bs => a < b || (a == b && bytesLt as bs)

/-- pop order of the max-heap of `(key, Reverse(candidate))`: larger key first, then smaller candidate -/
def heapBefore (a b : UInt32 × Bytes) : Bool := a.1 > b.1 || (a.1 == b.1 && bytesLt a.2 b.2)

def insertSorted (x : UInt32 × Bytes) : List (UInt32 × Bytes) → List (UInt32 × Bytes)
  | [] => [x]
  | y :: ys => if heapBefore y x then y :: insertSorted x ys else x :: y :: ys

def sortHeap (l : List (UInt32 × Bytes)) : List (UInt32 × Bytes) := l.foldr insertSorted []

/-- `get_close_matches(word, possibilities, n, cutoff)`; `tok` = `tokenize_chars` of the text type -/
def getCloseMatches (tok : Bytes → List Bytes) (word : Bytes) (cands : List Bytes) (n : Nat) (cutoff : Nat) : Res (List Bytes) :=
  match closeScored tok word cutoff cands with
  | .error e => .error e
  | .ok scored => .ok (((sortHeap scored).take n).map (·.2))

end SimilarVerif

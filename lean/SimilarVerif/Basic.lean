def hello := "world"

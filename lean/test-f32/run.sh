#!/bin/sh
# Validate the soft-float model (SimilarVerif/Model/F32.lean) against the hardware f32, bit for bit.
#   1. gen.rs (plain rustc, no cargo) prints ~530k reference values computed by the CPU:
#      `n as f32`, `2.0 * a as f32 / b as f32`, general f32 quotients (incl. subnormal / overflow results)
#      and the IEEE comparisons of tricky bit patterns (NaN, -0.0, subnormal, inf, negative);
#   2. Check.lean evaluates F32.ofNat / natVal / ratio / rnd / lt / le / ge / gt on the same inputs and compares;
#   3. driver_reqs.txt (close / ratio requests) is piped through the native driver, which recomputes every
#      value with Lean's native Float32 and would print SOFTFLOAT-MISMATCH on any disagreement.
# Run from anywhere: sh test-f32/run.sh
set -e
cd "$(dirname "$0")/.."
rustc -O test-f32/gen.rs -o test-f32/gen
test-f32/gen > test-f32/ref.txt
lake build SimilarVerif.Model.F32 driver
lake env lean --run test-f32/Check.lean test-f32/ref.txt
n=$(.lake/build/bin/driver < test-f32/driver_reqs.txt | grep -c SOFTFLOAT-MISMATCH || true)
echo "driver: $(wc -l < test-f32/driver_reqs.txt) requests, $n SOFTFLOAT-MISMATCH"
test "$n" = 0

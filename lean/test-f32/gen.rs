// Reference values from the hardware: prints
//   R a b bits   bits of (2.0f32 * a as f32) / b as f32  (the expression of get_diff_ratio; b != 0), 1.0 for b == 0
//   N n bits     bits of n as f32
//   D p sp q sq bits   bits of the f32 quotient (p * 2^(sp-200)) / (q * 2^(sq-200)), p, q < 2^24
//   C x y lt le ge gt   IEEE comparisons of the bit patterns x, y
// Build: rustc -O gen.rs -o gen ; ./gen > ref.txt
use std::hint::black_box;

struct Rng(u64);
impl Rng {
    fn next(&mut self) -> u64 {
        // splitmix64
        self.0 = self.0.wrapping_add(0x9E3779B97F4A7C15);
        let mut z = self.0;
        z = (z ^ (z >> 30)).wrapping_mul(0xBF58476D1CE4E5B9);
        z = (z ^ (z >> 27)).wrapping_mul(0x94D049BB133111EB);
        z ^ (z >> 31)
    }
}

fn ratio(a: u64, b: u64) -> u32 {
    let a = black_box(a) as usize;
    let b = black_box(b) as usize;
    let r: f32 = if b == 0 { 1.0 } else { 2.0 * a as f32 / b as f32 };
    r.to_bits()
}

fn main() {
    let mut edge: Vec<u64> = vec![0, 1, 2, 3, 4, 5, 6, 7, 8, 9, 10, 11, 12, 13, 99, 100, 101, 255, 256, 1000, 65535, 65536, 1000003];
    for k in [22u32, 23, 24, 25, 26, 31, 32, 33, 40, 52, 53, 54, 62, 63] {
        let p = 1u64 << k;
        for d in 0..6u64 {
            edge.push(p + d);
            edge.push(p - d);
            edge.push(p + (p >> 1) + d);
            edge.push(p + (p >> 1) - d);
        }
        // ties: exactly half-way between two representable values (k >= 24)
        if k >= 24 {
            let ulp = 1u64 << (k - 23);
            for m in [0u64, 1, 2, 3, 4, 5, 0x7ffffe, 0x7fffff] {
                let base = p + m * ulp;
                edge.push(base + ulp / 2);
                if ulp >= 4 { edge.push(base + ulp / 2 - 1); edge.push(base + ulp / 2 + 1); }
            }
        }
    }
    edge.push(u64::MAX); edge.push(u64::MAX - 1); edge.push(u64::MAX - (1 << 39)); edge.push(u64::MAX - (1 << 39) - 1);
    edge.push(u64::MAX - (1 << 40)); edge.push(u64::MAX - (1 << 40) + 1); edge.push((1u64<<63) + (1u64<<39));
    edge.push((1u64<<63) + (1u64<<39) + 1); edge.push((1u64<<63) + (1u64<<39) - 1); edge.push((1u64<<63) + 3*(1u64<<39));
    edge.sort(); edge.dedup();

    for &n in &edge { println!("N {} {}", n, (black_box(n) as usize as f32).to_bits()); }
    for &a in &edge { for &b in &edge { println!("R {} {} {}", a, b, ratio(a, b)); } }

    let mut rng = Rng(0x5eed_f32);
    // random of random bit lengths
    for _ in 0..20000 {
        let sa = rng.next() % 64; let sb = rng.next() % 64;
        let a = rng.next() >> sa; let b = rng.next() >> sb;
        println!("N {} {}", a, (black_box(a) as usize as f32).to_bits());
        println!("R {} {} {}", a, b, ratio(a, b));
    }
    // small numbers: every pair below 80 (typical token counts), and matches <= len style pairs
    for a in 0..80u64 { for b in 0..80u64 { println!("R {} {} {}", a, b, ratio(a, b)); } }
    for _ in 0..20000 {
        let b = rng.next() % 5000; let a = if b == 0 { 0 } else { rng.next() % (b / 2 + 1) };
        println!("R {} {} {}", a, b, ratio(a, b));
    }
    // near ties of the quotient: b = power of two times odd, a around multiples
    for _ in 0..20000 {
        let sb = 20 + rng.next() % 44; let b = (rng.next() >> (64 - sb)) | 1 << (sb - 1);
        let a = rng.next() % (b / 2 + 1);
        println!("R {} {} {}", a, b, ratio(a, b));
    }

    // comparisons
    let mut pats: Vec<u32> = vec![
        0x0000_0000, 0x8000_0000, 0x0000_0001, 0x8000_0001, 0x007f_ffff, 0x807f_ffff, 0x0080_0000, 0x8080_0000,
        0x3f00_0000, 0xbf00_0000, 0x3f80_0000, 0xbf80_0000, 0x3f7f_ffff, 0x3f80_0001, 0x3eff_ffff, 0x3f00_0001,
        0x7f7f_ffff, 0xff7f_ffff, 0x7f80_0000, 0xff80_0000, 0x7f80_0001, 0xff80_0001, 0x7fc0_0000, 0xffc0_0000,
        0x7fff_ffff, 0xffff_ffff, 0x3f19_999a, 0x3e99_999a, 0x4000_0000, 0xc000_0000, 0x0000_0002, 0x8000_0002,
    ];
    for _ in 0..150 { pats.push(rng.next() as u32); }
    for &x in &pats { for &y in &pats {
        let fx = f32::from_bits(black_box(x)); let fy = f32::from_bits(black_box(y));
        println!("C {} {} {} {} {} {}", x, y, (fx < fy) as u8, (fx <= fy) as u8, (fx >= fy) as u8, (fx > fy) as u8);
    } }
    // general correctly rounded quotients x / y of f32 values x = p * 2^(sp-200), y = q * 2^(sq-200)
    // (p, q < 2^24, both normal or zero): checks `rnd` outside the ratio shape too, including results in the
    // subnormal range, underflow to 0 and overflow to +inf.  Printed with the exponents shifted by +200
    // (the quotient is unchanged), so that the checker only needs natural numbers.
    for i in 0..60000 {
        let p = (rng.next() % (1 << 24)) as u32; let q = (rng.next() % (1 << 24)) as u32;
        let (sp, sq) = if i % 3 == 0 {
            // results around the subnormal range
            let sq = (rng.next() % 100) as i32; (sq - 100 - (rng.next() % 80) as i32, sq)
        } else if i % 3 == 1 {
            // results around overflow
            let sq = -((rng.next() % 100) as i32); (sq + 60 + (rng.next() % 80) as i32, sq)
        } else { ((rng.next() % 200) as i32 - 100, (rng.next() % 200) as i32 - 100) };
        if q == 0 { continue; }
        // exact in f64; the cast to f32 is exact whenever the value is a normal f32 (checked below)
        let dp = (p as f64) * 2f64.powi(sp); let dq = (q as f64) * 2f64.powi(sq);
        let fp = dp as f32; let fq = dq as f32;
        if !fp.is_finite() || !fq.is_finite() { continue; }
        if (p != 0 && fp < f32::MIN_POSITIVE) || fq < f32::MIN_POSITIVE { continue; }
        assert!(fp as f64 == dp && fq as f64 == dq);
        let r = black_box(fp) / black_box(fq);
        println!("D {} {} {} {} {}", p, sp + 200, q, sq + 200, r.to_bits());
    }
}

import SimilarVerif.Model.F32
/-! Compares the soft-float model with the hardware reference values produced by `gen.rs`.
Run from the project root:
  (cd test-f32 && rustc -O gen.rs -o gen && ./gen > ref.txt)
  lake build SimilarVerif.Model.F32 && lake env lean --run test-f32/Check.lean test-f32/ref.txt -/
open SimilarVerif F32

def b2n (b : Bool) : Nat := if b then 1 else 0

def checkLine (l : String) : Option String :=
  match (l.splitOn " ") with
  | ["N", n, bits] =>
    match n.toNat?, bits.toNat? with
    | some n, some bits =>
      if ofNat n == bits && rnd (natVal n) 1 == bits then none else some s!"{l}: soft ofNat={ofNat n} natVal→{rnd (natVal n) 1}"
    | _, _ => some s!"parse: {l}"
  | ["R", a, b, bits] =>
    match a.toNat?, b.toNat?, bits.toNat? with
    | some a, some b, some bits => if ratio a b == bits then none else some s!"{l}: soft={ratio a b}"
    | _, _, _ => some s!"parse: {l}"
  | ["D", p, sp, q, sq, bits] =>
    match p.toNat?, sp.toNat?, q.toNat?, sq.toNat?, bits.toNat? with
    | some p, some sp, some q, some sq, some bits =>
      let r := rnd (p * 2^sp) (q * 2^sq)
      if r == bits then none else some s!"{l}: soft={r}"
    | _, _, _, _, _ => some s!"parse: {l}"
  | ["C", x, y, a, b, c, d] =>
    match x.toNat?, y.toNat?, a.toNat?, b.toNat?, c.toNat?, d.toNat? with
    | some x, some y, some a, some b, some c, some d =>
      if b2n (lt x y) == a && b2n (le x y) == b && b2n (ge x y) == c && b2n (gt x y) == d then none
      else some s!"{l}: soft lt={lt x y} le={le x y} ge={ge x y} gt={gt x y}"
    | _, _, _, _, _, _ => some s!"parse: {l}"
  | _ => some s!"parse: {l}"

partial def loop (h : IO.FS.Stream) (n bad : Nat) : IO (Nat × Nat) := do
  let line ← h.getLine
  if line.isEmpty then return (n, bad)
  match checkLine line.trimAscii.toString with
  | none => loop h (n+1) bad
  | some msg =>
    if bad < 30 then IO.println s!"MISMATCH {msg}"
    loop h (n+1) (bad+1)

def main (args : List String) : IO UInt32 := do
  let path := args.headD "test-f32/ref.txt"
  let h ← IO.FS.Handle.mk path .read
  let (n, bad) ← loop (IO.FS.Stream.ofHandle h) 0 0
  IO.println s!"checked {n} lines, {bad} mismatches"
  return (if bad == 0 then 0 else 1)

-- This module serves as the root of the `SimilarVerif` library.
-- Import modules here that should be built as part of the library.
import SimilarVerif.Basic

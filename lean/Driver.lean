import SimilarVerif.Model.Iter
import SimilarVerif.Model.Text
import SimilarVerif.Model.Udiff
import SimilarVerif.Model.Remap
import SimilarVerif.Model.Inline
import SimilarVerif.Model.Helpers
/-! Line-protocol driver: one request per line on stdin, one canonical response line on stdout.
Imports the model only (core Lean), so it links natively. -/
open SimilarVerif

def words (s : String) : List String := (s.splitOn " ").filter (· ≠ "")

def parseNats (s : String) : Option (List Nat) := (words s).mapM String.toNat?

def optNat (s : String) : Option (Option Nat) := if s == "-" then some none else s.toNat?.map some

def showOp : Op → String
  | .equal o n l => s!"E.{o}.{n}.{l}"
  | .delete o l n => s!"D.{o}.{l}.{n}"
  | .insert o n l => s!"I.{o}.{n}.{l}"
  | .replace o ol n nl => s!"R.{o}.{ol}.{n}.{nl}"

def showCall : Call → String
  | .op x => showOp x
  | .finish => "F"

def showOps (l : List Op) : String := ",".intercalate (l.map showOp)
def showCalls (l : List Call) : String := ",".intercalate (l.map showCall)

def parseCall (s : String) : Option Call :=
  match s.splitOn "." with
  | ["F"] => some .finish
  | ["E", a, b, c] => do pure (.op (.equal (← a.toNat?) (← b.toNat?) (← c.toNat?)))
  | ["D", a, b, c] => do pure (.op (.delete (← a.toNat?) (← b.toNat?) (← c.toNat?)))
  | ["I", a, b, c] => do pure (.op (.insert (← a.toNat?) (← b.toNat?) (← c.toNat?)))
  | ["R", a, b, c, d] => do pure (.op (.replace (← a.toNat?) (← b.toNat?) (← c.toNat?) (← d.toNat?)))
  | _ => none

def parseCalls (s : String) : Option (List Call) :=
  if s.trimAscii.toString == "" then some [] else ((s.trimAscii.toString.splitOn ",").mapM parseCall)

def parseOps (s : String) : Option (List Op) := do
  let cs ← parseCalls s
  cs.mapM fun c => match c with | .op x => some x | .finish => none

def parseAlg : String → Option Alg
  | "myers" => some .myers | "patience" => some .patience | "lcs" => some .lcs | _ => none

def showRes (r : Res (Rec × World)) : String :=
  match r with
  | .ok (r, w) => s!"ok T={showCalls r.trace} c={w.cmps} p={w.probes}"
  | .error (.hookErr t) => s!"err T={showCalls t}"
  | .error .panic => "panic"
  | .error .fuel => "fuel"

/-- run `f` over the named adapter stack on top of the recording hook -/
def withStack (stack : String) (E : Env) (repair : Bool) (r : Rec) (w : World)
    (f : {σ : Type} → Hook σ → σ → World → Res (σ × World)) : Option (Res (Rec × World)) :=
  match stack with
  | "none" => some (f recHook r w)
  | "nofinish" => some (f (noFinishHook recHook) r w)
  | "replace" => some ((f (replaceHook recHook) ({}, r) w).map fun ((_, r), w) => (r, w))
  | "replacenofinish" => some ((f (replaceHook (noFinishHook recHook)) ({}, r) w).map fun ((_, r), w) => (r, w))
  | "compact" => some ((f (compactHook E repair recHook) ([], r) w).map fun ((_, r), w) => (r, w))
  | "compactreplace" =>
    some ((f (compactHook E repair (replaceHook recHook)) ([], ({}, r)) w).map fun ((_, _, r), w) => (r, w))
  | _ => none

def parseSeq (s : String) : Option (Nat × Array Nat) := do
  match ← parseNats s with
  | off :: rest => some (off, rest.toArray)
  | [] => none

def showChange (c : Change) : String :=
  let t := match c.tag with | .equal => "=" | .delete => "-" | .insert => "+"
  let o := match c.oldIndex with | some i => toString i | none => "_"
  let n := match c.newIndex with | some i => toString i | none => "_"
  s!"{t}.{o}.{n}.{if c.fromNew then "n" else "o"}{c.idx}"

def showSlice (x : CTag × Bool × Nat × Nat) : String :=
  let t := match x.1 with | .equal => "=" | .delete => "-" | .insert => "+"
  if x.2.2.1 == x.2.2.2 then s!"{t}.e" else
  s!"{t}.{if x.2.1 then "n" else "o"}.{x.2.2.1}.{x.2.2.2}"

def hexVal (c : Char) : Option Nat :=
  if '0' ≤ c && c ≤ '9' then some (c.toNat - '0'.toNat)
  else if 'a' ≤ c && c ≤ 'f' then some (c.toNat - 'a'.toNat + 10) else none

def parseHex (s : String) : Option Bytes :=
  let rec go : List Char → Option Bytes
    | [] => some []
    | [_] => none
    | a :: b :: rest => do
      let x ← hexVal a; let y ← hexVal b; let r ← go rest
      pure ((x * 16 + y).toUInt8 :: r)
  if s == "-" || s == "_" then some [] else go s.toList

def bytesToChars (b : Bytes) : Option (List Char) :=
  (String.fromUTF8? (ByteArray.mk b.toArray)).map (·.toList)

def showRanges (l : List (Nat × Nat)) : String := ",".intercalate (l.map fun (a, b) => s!"{a}-{b}")

/-- `tok <kind> <mode> | <hex> [| seg lens]` -/
def handleTok (kind mode : String) (b : Bytes) (seg : Option (List Nat)) : String :=
  match kind, seg with
  | "uwords", some lens | "graphemes", some lens =>
    if lens.all (0 < ·) && lens.sum == b.length then "ok K=" ++ showRanges (rangesOfLens 0 lens) else "contract"
  | _, _ =>
  if mode == "str" then
    match bytesToChars b with
    | none => "bad-op"
    | some cs =>
      (match kind with
       | "lines" => "ok K=" ++ showRanges (tokenizeLinesS cs)
       | "lnl" => "ok K=" ++ showRanges (tokenizeLinesAndNewlinesS cs)
       | "words" => "ok K=" ++ showRanges (tokenizeWordsS cs)
       | "chars" => "ok K=" ++ showRanges (tokenizeCharsS cs)
       | _ => "bad-op")
  else
    match kind with
    | "lines" => "ok K=" ++ showRanges (tokenizeLinesB b)
    | "lnl" => "ok K=" ++ showRanges (tokenizeLinesAndNewlinesB b)
    | "words" => "ok K=" ++ showRanges (tokenizeWordsB b)
    | "chars" => "ok K=" ++ showRanges (tokenizeCharsB b)
    | "decode" => "ok K=" ++ ",".intercalate ((charIndicesB b.length 0 b).map fun (s, e, c) => s!"{s}-{e}:{c.toNat}")
    | _ => "bad-op"

def showHex (b : Bytes) : String :=
  if b.isEmpty then "-" else
  let d (n : Nat) : Char := if n < 10 then Char.ofNat (48 + n) else Char.ofNat (87 + n)
  String.ofList (b.flatMap fun x => [d (x.toNat / 16), d (x.toNat % 16)])

def parseTokens (s : String) : Option (List Bytes) :=
  if s == "-" || s == "" then some [] else (s.splitOn ",").mapM parseHex

def parseSegs (s : String) : Option (List Nat) := if s == "-" then some [] else parseNats s

/-- tokenize by kind/mode; `seg` = external segment lengths for the unicode kinds -/
def tokenizeBy (kind mode : String) (b : Bytes) (seg : List Nat) : Option (List (Nat × Nat)) :=
  match kind with
  | "uwords" | "graphemes" => if seg.all (0 < ·) && seg.sum == b.length then some (rangesOfLens 0 seg) else none
  | _ =>
    if mode == "str" then
      match bytesToChars b with
      | none => none
      | some cs =>
        (match kind with
         | "lines" => some (tokenizeLinesS cs)
         | "lnl" => some (tokenizeLinesAndNewlinesS cs)
         | "words" => some (tokenizeWordsS cs)
         | "chars" => some (tokenizeCharsS cs)
         | _ => none)
    else
      match kind with
      | "lines" => some (tokenizeLinesB b)
      | "lnl" => some (tokenizeLinesAndNewlinesB b)
      | "words" => some (tokenizeWordsB b)
      | "chars" => some (tokenizeCharsB b)
      | _ => none

/-! ### cross-check of the soft-float model (Model/F32.lean) against the hardware `f32`
The model computes every `f32` as a bit pattern with exact arithmetic; here the same values are also
computed with Lean's native `Float32` (the machine's IEEE-754 operations).  Any disagreement makes the
response visibly different (`SOFTFLOAT-MISMATCH`), so every correspondence run tests the soft floats. -/

/-- bits of `if b == 0 { 1.0 } else { 2.0 * a as f32 / b as f32 }` computed by the hardware -/
def nativeRatioBits (a b : Nat) : Nat :=
  (if b = 0 then (1.0 : Float32) else 2.0 * a.toFloat32 / b.toFloat32).toBits.toNat

def ratioAgree (a b : Nat) : Bool := ratioF a b == nativeRatioBits a b

/-- the soft ratio bits, marked when the hardware disagrees -/
def showRatioBits (a b : Nat) : String :=
  if ratioAgree a b then toString (ratioF a b)
  else s!"{ratioF a b} SOFTFLOAT-MISMATCH(native={nativeRatioBits a b})"

/-- do the hardware comparisons `x < c`, `x >= c` agree with the soft ones on these two bit patterns? -/
def cmpAgree (x c : Nat) : Bool :=
  let fx := Float32.ofBits x.toUInt32
  let fc := Float32.ofBits c.toUInt32
  (decide (fx < fc) == F32.lt x c) && (decide (fx ≥ fc) == F32.ge x c)

/-- every `f32` value and comparison that `getCloseMatches` evaluates, re-done on the hardware -/
def closeNativeAgree (tok : Bytes → List Bytes) (word : Bytes) (cands : List Bytes) (cutoff : Nat) : Bool :=
  cands.all fun p =>
    let s1 := tok word
    let s2 := tok p
    let ua := min s1.length s2.length
    let ub := s1.length + s2.length
    let wc := countsOf s1
    let qa := quickLoop wc [] s2
    let qb := wc.length + s2.length
    ratioAgree ua ub && ratioAgree qa qb && cmpAgree (ratioF ua ub) cutoff && cmpAgree (ratioF qa qb) cutoff &&
    (if F32.lt (ratioF ua ub) cutoff || F32.lt (ratioF qa qb) cutoff then true
     else match textDiffOps .myers false s1.toArray s2.toArray {} with
       | .ok (ops, _) =>
         let (a, b) := ratioPair ops s1.length s2.length
         ratioAgree (a / 2) b && cmpAgree (ratioF (a / 2) b) cutoff
       | .error _ => true)

def algName : Alg → String
  | .myers => "myers" | .patience => "patience" | .lcs => "lcs"

def handleText (kind mode : String) (alg : Alg) (dl : Option Nat) (nlt : Option Bool) (old new : Bytes) (segO segN : List Nat) : String :=
  match tokenizeBy kind mode old segO, tokenizeBy kind mode new segN with
  | some ro, some rn =>
    let to := (ro.map (slice old)).toArray
    let tn := (rn.map (slice new)).toArray
    (match textDiffOps alg false to tn { clock := dl } with
     | .ok (ops, _) =>
       let (x, y) := ratioPair ops to.size tn.size
       s!"ok N={to.size},{tn.size} O={showOps ops} T={if newlineTerminated nlt (kind == "lines") then 1 else 0} A={algName alg} F={showRatioBits (x / 2) y}"
     | .error .fuel => "fuel"
     | .error _ => "panic")
  | _, _ => "contract"

def showInline (c : InlineChange) : String :=
  let t := match c.tag with | .equal => "=" | .delete => "-" | .insert => "+"
  let o := match c.oldIndex with | some i => toString i | none => "_"
  let n := match c.newIndex with | some i => toString i | none => "_"
  s!"{t}.{o}.{n}:" ++ "+".intercalate (c.values.map fun (e, b) => (if e then "e1" else "e0") ++ showHex b)

def parseSegLines (s : String) : Option (List (List Nat)) :=
  if s == "-" then some [] else (s.splitOn ";").mapM parseNats

def lnlOf (mode : String) (b : Bytes) : List (Nat × Nat) :=
  if mode == "str" then
    match bytesToChars b with
    | some cs => tokenizeLinesAndNewlinesS cs
    | none => tokenizeLinesAndNewlinesB b
  else tokenizeLinesAndNewlinesB b

def charsOf (mode : String) (b : Bytes) : List Bytes :=
  if mode == "str" then
    match bytesToChars b with
    | some cs => (tokenizeCharsS cs).map (slice b)
    | none => (tokenizeCharsB b).map (slice b)
  else (tokenizeCharsB b).map (slice b)

def parseHexU32 (s : String) : Option UInt32 :=
  s.toList.foldlM (fun (acc : Nat) c => (hexVal c).map (acc * 16 + ·)) 0 |>.map Nat.toUInt32

def handle5 (hd a b c d : String) : String :=
  match words hd with
  | ["helper", kind, mode, alg] =>
    (match parseAlg alg, parseHex a, parseHex b, parseSegs c, parseSegs d with
     | some alg, some old, some new, some so, some sn =>
       (match tokenizeBy kind mode old so, tokenizeBy kind mode new sn with
        | some ro, some rn =>
          let r := if kind == "lines" then utilsDiffLines alg old new ro rn {} else utilsDiffRemap alg old new ro rn {}
          (match r with
           | .ok l => "ok H=" ++ ",".intercalate (l.map fun (t, b) =>
               (match t with | .equal => "=" | .delete => "-" | .insert => "+") ++ showHex b)
           | .error .fuel => "fuel"
           | .error _ => "panic")
        | _, _ => "contract")
     | _, _, _, _, _ => "bad-op")
  | ["text", kind, mode, alg, dl, nlt] =>
    (match parseAlg alg, optNat dl, parseHex a, parseHex b, parseSegs c, parseSegs d with
     | some alg, some dl, some old, some new, some so, some sn =>
       let nlt := if nlt == "0" then some false else if nlt == "1" then some true else none
       handleText kind mode alg dl nlt old new so sn
     | _, _, _, _, _, _ => "bad-op")
  | _ => "bad-op"

def handle6 (hd a b c d e : String) : String :=
  match words hd with
  | ["DUMMY"] => "bad-op"
  | ["inline", mode, dl] =>
    (match optNat dl, parseOps a, parseTokens b, parseTokens c, parseSegLines d, parseSegLines e with
     | some dl, some [x], some old, some new, some so, some sn =>
       (match inlineChanges (lnlOf mode) false old.toArray new.toArray x so sn { clock := dl } with
        | .ok (cs, _) => "ok L=" ++ ";".intercalate (cs.map showInline)
        | .error .fuel => "fuel"
        | .error _ => "panic")
     | _, _, _, _, _, _ => "bad-op")
  | _ => "bad-op"


/-! ### unit-level requests: crate-internal helpers compared one by one (hooks `verif_internals`, DESIGN.md §9) -/

def showNats (l : List Nat) : String := ",".intercalate (l.map toString)

def showTable (t : Table) (nl ol : Nat) : String :=
  ",".intercalate ((List.range nl).flatMap fun i => (List.range ol).filterMap fun j =>
    let v := t.get i j; if 0 < v then some s!"{i}.{j}.{v}" else none)

def handleUnit4 (hd : List String) (so sn sr : String) : Option String :=
  match hd with
  | ["usnake", dl] =>
    (match optNat dl, parseSeq so, parseSeq sn, parseNats sr with
     | some dl, some (oOff, old), some (nOff, new), some [os, oe, ns, ne] =>
       let E := Env.ofSeqs old new oOff nOff
       let md := maxD (oe - os) (ne - ns)
       let v : V := Array.replicate (2 * md) 0
       some (match findMiddleSnake E os oe ns ne md v v { clock := dl } with
        | .ok (vf, vb, r, w) =>
          let rs := match r with | some (x, y) => s!"{x},{y}" | none => "none"
          s!"ok S={rs} VF={showNats vf.toList} VB={showNats vb.toList} c={w.cmps} p={w.probes}"
        | .error .fuel => "fuel"
        | .error _ => "panic")
     | _, _, _, _ => some "bad-op")
  | ["utable", dl] =>
    (match optNat dl, parseSeq so, parseSeq sn, parseNats sr with
     | some dl, some (oOff, old), some (nOff, new), some [os, oe, ns, ne] =>
       let E := Env.ofSeqs old new oOff nOff
       some (match makeTable E os oe ns ne { clock := dl } with
        | .ok (some t, w) => s!"ok T={showTable t (ne - ns) (oe - os)} c={w.cmps} p={w.probes}"
        | .ok (none, w) => s!"ok T=none c={w.cmps} p={w.probes}"
        | .error .fuel => "fuel"
        | .error _ => "panic")
     | _, _, _, _ => some "bad-op")
  | ["helperslices", alg] =>
    (match parseAlg alg, parseSeq so, parseSeq sn with
     | some alg, some (_, old), some (_, new) =>
       some (match utilsDiffSlices alg (Env.ofSeqs old new) old.size new.size {} with
        | .ok sl => "ok H=" ++ ",".intercalate (sl.map showSlice)
        | .error .fuel => "fuel"
        | .error _ => "panic")
     | _, _, _ => some "bad-op")
  | ["ucpl"] | ["ucsl"] =>
    (match parseSeq so, parseSeq sn, parseNats sr with
     | some (oOff, old), some (nOff, new), some [os, oe, ns, ne] =>
       let E := Env.ofSeqs old new oOff nOff
       let r := if hd == ["ucpl"] then commonPrefixLen E os oe ns ne {} else commonSuffixLen E os oe ns ne {}
       some (match r with
        | .ok (l, w) => s!"ok L={l} c={w.cmps}"
        | .error .fuel => "fuel"
        | .error _ => "panic")
     | _, _, _ => some "bad-op")
  | ["ucleanup", repair] =>
    (match parseSeq so, parseSeq sn, parseOps sr with
     | some (oOff, old), some (nOff, new), some ops =>
       let E := Env.ofSeqs old new oOff nOff
       some (match cleanupDiffOps E (repair == "1") ops {} with
        | .ok (ops, w) => s!"ok O={showOps ops} c={w.cmps}"
        | .error .fuel => "fuel"
        | .error _ => "panic")
     | _, _, _ => some "bad-op")
  | ["ushift", dir, repair, pointer] =>
    (match pointer.toNat?, parseSeq so, parseSeq sn, parseOps sr with
     | some pointer, some (oOff, old), some (nOff, new), some ops =>
       let E := Env.ofSeqs old new oOff nOff
       let fuel := 2 * opsWeight ops + 4
       let r := if dir == "up" then shiftUp E (repair == "1") fuel ops pointer {} else shiftDown E (repair == "1") fuel ops pointer {}
       some (match r with
        | .ok (ops, p, w) => s!"ok O={showOps ops} P={p} c={w.cmps}"
        | .error .fuel => "fuel"
        | .error _ => "panic")
     | _, _, _, _ => some "bad-op")
  | _ => none

def showSegs (l : List (Bool × Bytes)) : String :=
  "+".intercalate (l.map fun (e, b) => (if e then "e1" else "e0") ++ showHex b)

def parsePush (s : String) : Option (List (Nat × Bool × Bytes)) :=
  if s == "-" then some [] else (s.splitOn ",").mapM fun item =>
    match item.splitOn "." with
    | [i, e, h] => do pure ((← i.toNat?), e == "1", (← parseHex h))
    | _ => none

def handleUnit3 (hd : List String) (body seg : String) : Option String :=
  match hd with
  | ["uunique"] =>
    (match parseSeq body, parseNats seg with
     | some (off, a), some [s, e] =>
       some (match unique (Env.ofSeqs a a off off).oo s e with
        | some l => s!"ok U={showNats l}"
        | none => "panic")
     | _, _ => some "bad-op")
  | ["uquick"] =>
    (match parseTokens body, parseTokens seg with
     | some word, some cand =>
       let wc := countsOf word
       some s!"ok F={showRatioBits (quickLoop wc [] cand) (wc.length + cand.length)}"
     | _, _ => some "bad-op")
  | ["uorig", idx, len] =>
    (match idx.toNat?, len.toNat?, parseTokens body, parseSegLines seg with
     | some idx, some len, some lines, some segs =>
       let ws := multiLookup 0 lines segs
       some (match originalSlices lines.toArray ws.toArray idx len 0 none with
        | .ok sl => "ok S=" ++ ",".intercalate (sl.map fun (i, b) => s!"{i}:{showHex b}") ++
            " W=" ++ ",".intercalate (ws.map fun (b, i, o) => s!"{showHex b}.{i}.{o}")
        | .error _ => "panic")
     | _, _, _, _ => some "bad-op")
  | ["upush", mode] =>
    (match parsePush body with
     | some calls =>
       let v := calls.foldl (fun v (i, e, b) => pushValues (lnlOf mode) v i e b) #[]
       some ("ok V=" ++ ";".intercalate (v.toList.map showSegs))
     | none => some "bad-op")
  | _ => none

def handleCore (line : String) : String :=
  let parts := (line.splitOn "|").map (·.trimAscii.toString)
  match parts with
  | [hd, a, b, c, d, e] => handle6 hd a b c d e
  | [hd, a, b, c, d] => handle5 hd a b c d
  | [hd, so, sn, sr] =>
    (match words hd with
     | ["udiff", radius, hdr, nlt, hint, path] =>
       (match radius.toNat?, parseOps so, parseTokens sn, parseTokens sr with
        | some radius, some ops, some old, some new =>
          let header := if hdr == "1" then some (ascii "a.txt", ascii "b.txt") else none
          (match renderUnified radius header ops old.toArray new.toArray (nlt == "1") (hint == "1") (path == "display") with
           | .ok out => "ok U=" ++ showHex out
           | .error _ => "panic")
        | _, _, _, _ => "bad-op")
     | ["remap"] =>
       (match parseOps so, parseSegs sn, parseSegs sr with
        | some ops, some lo, some ln =>
          (match remapOps (remapIndexes 0 lo).toArray (remapIndexes 0 ln).toArray ops with
           | .ok sl => "ok S=" ++ ",".intercalate (sl.map fun (t, side, a, b) =>
               let t := match t with | .equal => "=" | .delete => "-" | .insert => "+"
               s!"{t}.{if side then "n" else "o"}.{a}-{b}")
           | .error _ => "panic")
        | _, _, _ => "bad-op")
     | ["identify"] =>
       (match parseSeq so, parseSeq sn, parseNats sr with
        | some (oOff, old), some (nOff, new), some [os, oe, ns, ne] =>
          (match identifyDistinct (Env.ofSeqs old new oOff nOff) os oe ns ne with
           | some (io, i_n) =>
             s!"ok I={",".intercalate (io.toList.map toString)};{",".intercalate (i_n.toList.map toString)} R={os},{os + io.size},{ns},{ns + i_n.size}"
           | none => "panic")
        | _, _, _ => "bad-op")
     | ["diff", alg, stack, dl, fail, native, repair] =>
       (match parseAlg alg, optNat dl, optNat fail, parseSeq so, parseSeq sn, parseNats sr with
        | some alg, some dl, some fail, some (oOff, old), some (nOff, new), some [os, oe, ns, ne] =>
          let E := Env.ofSeqs old new oOff nOff
          let r : Rec := { failAt := fail, nativeReplace := native == "1" }
          let w : World := { clock := dl }
          (match withStack stack E (repair == "1") r w (fun h s w => diffWith alg E h os oe ns ne s w) with
           | some res => showRes res
           | none => "bad-op")
        | _, _, _, _, _, _ => "bad-op")
     | ["capture", alg, dl, repair] =>
       (match parseAlg alg, optNat dl, parseSeq so, parseSeq sn, parseNats sr with
        | some alg, some dl, some (oOff, old), some (nOff, new), some [os, oe, ns, ne] =>
          let E := Env.ofSeqs old new oOff nOff
          (match captureDiff alg E (repair == "1") os oe ns ne { clock := dl } with
           | .ok (ops, w) => s!"ok O={showOps ops} c={w.cmps} p={w.probes}"
           | .error .fuel => "fuel"
           | .error _ => "panic")
        | _, _, _, _, _ => "bad-op")
     | ["script", stack, fail, native, repair] =>
       (match optNat fail, parseSeq so, parseSeq sn, parseCalls sr with
        | some fail, some (oOff, old), some (nOff, new), some calls =>
          let E := Env.ofSeqs old new oOff nOff
          let r : Rec := { failAt := fail, nativeReplace := native == "1" }
          (match withStack stack E (repair == "1") r {} (fun h s w => deliver h calls s w) with
           | some res => showRes res
           | none => "bad-op")
        | _, _, _, _ => "bad-op")
     | _ => "bad-op")
  | [hd, body, seg] =>
    (match words hd with
     | ["close", n, cutoff] =>
       (match n.toNat?, parseHexU32 cutoff, parseHex body, (if seg == "" then some [] else (seg.splitOn ",").mapM parseHex) with
        | some n, some bits, some word, some cands =>
          (match getCloseMatches (charsOf "str") word cands n bits.toNat with
           | .ok r => "ok M=" ++ ",".intercalate (r.map showHex) ++
               (if closeNativeAgree (charsOf "str") word cands bits.toNat then "" else " SOFTFLOAT-MISMATCH")
           | .error _ => "panic")
        | _, _, _, _ => "bad-op")
     | ["tok", kind, mode] =>
       (match parseHex body, parseSegs seg with
        | some b, some lens => handleTok kind mode b (some lens)
        | _, _ => "bad-op")
     | _ => "bad-op")
  | [hd, body] =>
    (match words hd with
     | ["tok", kind, mode] =>
       (match parseHex body with
        | some b => handleTok kind mode b none
        | none => "bad-op")
     | ["ws", lo, hi] =>
       (match lo.toNat?, hi.toNat? with
        | some lo, some hi =>
          "ok W=" ++ String.ofList ((List.range (hi - lo)).map fun i => if isWhitespace (Char.ofNat (lo + i)) then '1' else '0')
        | _, _ => "bad-op")
     | ["group", n] =>
       (match n.toNat?, parseOps body with
        | some n, some ops => "ok G=" ++ ";".intercalate ((groupDiffOps ops n).map showOps)
        | _, _ => "bad-op")
     | ["changes"] =>
       (match parseOps body with
        | some [x] => "ok C=" ++ ",".intercalate ((opChanges x).map showChange) ++
                      " S=" ++ ",".intercalate ((iterSlices x).map showSlice)
        | _ => "bad-op")
     | ["allchanges"] =>
       (match parseOps body with
        | some ops => "ok C=" ++ ",".intercalate ((allChanges ops).map showChange)
        | _ => "bad-op")
     | ["uupper", a, b] =>
       (match a.toNat?, b.toNat? with
        | some a, some b => s!"ok F={showRatioBits (min a b) (a + b)}"
        | _, _ => "bad-op")
     | ["ratio", a, b] =>
       (match a.toNat?, b.toNat?, parseOps body with
        | some a, some b, some ops =>
          let (x, y) := ratioPair ops a b
          s!"ok R={x}/{y} F={showRatioBits (x / 2) y}"
        | _, _, _ => "bad-op")
     | _ => "bad-op")
  | _ => "bad-op"

def handle (line : String) : String :=
  match (line.splitOn "|").map (·.trimAscii.toString) with
  | [hd, so, sn, sr] => (handleUnit4 (words hd) so sn sr).getD (handleCore line)
  | [hd, body, seg] => (handleUnit3 (words hd) body seg).getD (handleCore line)
  | _ => handleCore line

partial def loop (h : IO.FS.Stream) (out : IO.FS.Stream) : IO Unit := do
  let line ← h.getLine
  if line.isEmpty then return ()
  out.putStrLn (handle line.trimAscii.toString)
  loop h out

def main : IO Unit := do
  let out ← IO.getStdout
  loop (← IO.getStdin) out

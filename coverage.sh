#!/bin/sh
# Development-time tool (not a registered check): which lines/regions of /repo/src do the harness suites execute?
# Builds the harness with source-based coverage on the nightly toolchain (offline), runs every suite at the quick
# tier on the implementation side only, and prints llvm-cov's per-file summary for /repo/src plus the list of
# uncovered lines. Output: /verif/seeded/coverage/{summary.txt,uncovered.txt}. Scratch under /tmp/cov (removed).
set -e
T=/tmp/cov
BIN=/root/.rustup/toolchains/nightly-x86_64-unknown-linux-gnu/lib/rustlib/x86_64-unknown-linux-gnu/bin
rm -rf $T; mkdir -p $T/out $T/prof /verif/seeded/coverage
cd /verif/harness
CARGO_NET_OFFLINE=true CARGO_TARGET_DIR=$T/target RUSTFLAGS="--cfg similar_verif -C instrument-coverage" \
  cargo +nightly build --release --offline 2>&1 | tail -2
for s in raw cap stacks deadline script cost group changes tok text udiff inline remap close identify determinism api; do
  LLVM_PROFILE_FILE="$T/prof/$s-%p.profraw" $T/target/release/harness $s quick 1 16 $T/out/$s >/dev/null 2>&1 || echo "suite $s rc=$?"
done
$BIN/llvm-profdata merge -sparse $T/prof/*.profraw -o $T/all.profdata
$BIN/llvm-cov report $T/target/release/harness -instr-profile=$T/all.profdata --ignore-filename-regex='(\.cargo|rustc|harness/src)' \
  > /verif/seeded/coverage/summary.txt 2>&1
$BIN/llvm-cov show $T/target/release/harness -instr-profile=$T/all.profdata --ignore-filename-regex='(\.cargo|rustc|harness/src)' \
  --show-line-counts-or-regions 2>/dev/null | python3 -c "
import sys,re
cur=None; out=[]
intest=False
for l in sys.stdin:
    m=re.match(r'^(/repo/src/\S+):\$', l.strip())
    if m: cur=m.group(1); intest=False; continue
    m=re.match(r'^\s*(\d+)\|\s*([0-9.kME]*)\|(.*)\$', l.rstrip('\n'))
    if not m or cur is None: continue
    ln,cnt,src=m.groups()
    if '#[cfg(test)]' in src or '#[test]' in src: intest=True
    if intest: continue
    if cnt=='0': out.append('%s:%s: %s'%(cur,ln,src.strip()))
print('\n'.join(out))
" > /verif/seeded/coverage/uncovered.txt
cat /verif/seeded/coverage/summary.txt | sed -n 1,40p
wc -l /verif/seeded/coverage/uncovered.txt
rm -rf $T

#!/usr/bin/env python3
"""Development-time tool (never referenced by MANIFEST.json): mechanical mutation sweep.

Generates single-site mutants of /repo/src (relational / arithmetic / boolean operator swaps, off-by-one
constants, min/max, statement deletion, range bounds), and for each mutant that COMPILES and PASSES the
repository's own tests runs every registered quick check against it -- in a scratch copy, never in /repo:

  /tmp/ms/repo    git worktree of /repo HEAD (the mutant is applied here)
  /tmp/ms/verif   copy of /verif whose harness depends on /tmp/ms/repo (VERIF_REPO_OVERRIDE points check at it)

usage: mutsweep.py prepare | run <n> [seed] [file-filter] | report | clean
Results: /verif/seeded/sweep/results.jsonl (one line per mutant: site, operator, verdict, checks flagging).
Survivors (pass the tests, no check flags them) are the interesting ones: either equivalent mutants or gaps.
"""
import json, os, random, re, shutil, subprocess, sys, time

MS = "/tmp/ms"
REPO = MS + "/repo"
VERIF = MS + "/verif"
OUT = "/verif/seeded/sweep"
PROPS = ["C%02d" % i for i in range(1, 21)]


def sh(cmd, cwd=None, timeout=900, env=None):
    e = dict(os.environ)
    e["CARGO_NET_OFFLINE"] = "true"
    if env:
        e.update(env)
    try:
        p = subprocess.run(cmd, cwd=cwd, shell=True, env=e, stdout=subprocess.PIPE, stderr=subprocess.STDOUT, text=True, timeout=timeout)
        return p.returncode, p.stdout
    except subprocess.TimeoutExpired as x:
        return 124, (x.stdout or b"").decode(errors="replace") if isinstance(x.stdout, bytes) else (x.stdout or "")


def prepare():
    os.makedirs(MS, exist_ok=True)
    if not os.path.exists(REPO):
        sh("git -C /repo worktree add --detach %s HEAD" % REPO)
    sh("git checkout -- .", cwd=REPO)
    sh("rsync -a --delete --exclude .git --exclude .cache --exclude 'harness/target' --exclude evidence --exclude seeded /verif/ %s/" % VERIF)
    os.makedirs(VERIF + "/evidence", exist_ok=True)
    p = VERIF + "/harness/Cargo.toml"
    s = open(p).read().replace('path = "/repo"', 'path = "%s"' % REPO)
    open(p, "w").write(s)
    rc, o = sh("cargo build --release --offline 2>&1 | tail -2", cwd=VERIF + "/harness")
    print(o)
    rc, o = sh("cargo test --offline 2>&1 | grep 'test result'", cwd=REPO)
    print(o)


OPS = [
    (r" < ", " <= "), (r" <= ", " < "), (r" > ", " >= "), (r" >= ", " > "),
    (r" == ", " != "), (r" != ", " == "),
    (r" && ", " || "), (r" \|\| ", " && "),
    (r" \+ 1\b", " + 0"), (r" - 1\b", " - 0"), (r" \+ 1\b", " + 2"), (r" - 1\b", " - 2"),
    (r" \+= 1\b", " += 2"), (r" -= 1\b", " -= 2"),
    (r" \+ ", " - "), (r" - ", " + "),
    (r"\btrue\b", "false"), (r"\bfalse\b", "true"),
    (r"\.min\(", ".max("), (r"\.max\(", ".min("),
    (r"if !", "if "),
    (r"\.\.=", ".."), (r"(?<![.=])\.\.(?![.=])", "..="),
    (r"\b0\b", "1"), (r"\b1\b", "0"), (r"\b2\b", "3"), (r"\b100\b", "101"), (r"\b100\b", "99"),
    (r"\.saturating_sub\(", ".wrapping_sub("),
    (r"\bbreak;", "continue;"),
    (r"\.is_empty\(\)", ".is_empty() == false"),
    (r"\.start\b", ".end"), (r"\.end\b", ".start"),
    (r"\bold_index\b", "new_index"), (r"\bnew_index\b", "old_index"),
    (r"\bold_len\b", "new_len"), (r"\bnew_len\b", "old_len"),
    (r"\bold_range\b", "new_range"), (r"\bnew_range\b", "old_range"),
    (r"\bold_end\b", "new_end"), (r"\bold_current\b", "new_current"),
]
DELETE = re.compile(r"^\s*(?!let |return|break|continue|\}|\{|//|#|pub |fn |use |impl |where|else|match |if |for |while |loop)[^{}]*;\s*$")


def mutable_lines(path):
    """(line number, text) of code lines before the first test item, outside comments / attributes / verif hooks"""
    out = []
    lines = open(path).read().split("\n")
    depth_hook = None
    for i, l in enumerate(lines):
        st = l.strip()
        if st.startswith("#[cfg(test)]") or st.startswith("#[test]"):
            break
        if "similar_verif" in l or "verif_hooks" in l or "verif_repair" in l:
            # skip the hook item: until the brace depth returns
            depth_hook = 0
        if depth_hook is not None:
            depth_hook += l.count("{") - l.count("}")
            if depth_hook <= 0 and ("}" in l or ";" in l):
                depth_hook = None
            continue
        if not st or st.startswith("//") or st.startswith("#[") or st.startswith("#!") or st.startswith("*") or st.startswith("use "):
            continue
        if st.startswith("///") or st.startswith("//!"):
            continue
        out.append((i, l))
    return out, lines


def gen_mutants(filt=None):
    ms = []
    for d, _, fs in os.walk("/repo/src"):
        for f in sorted(fs):
            if not f.endswith(".rs"):
                continue
            p = os.path.join(d, f)
            rel = os.path.relpath(p, "/repo")
            if filt and filt not in rel:
                continue
            if rel.endswith("deadline_support.rs") or "wasm" in rel:
                continue
            ml, lines = mutable_lines(p)
            for (i, l) in ml:
                code = l.split("//")[0]
                for (pat, rep) in OPS:
                    for k, m in enumerate(re.finditer(pat, code)):
                        new = code[:m.start()] + re.sub(pat, rep, code[m.start():m.end()], count=1) + code[m.end():] + l[len(code):]
                        if new != l:
                            ms.append({"file": rel, "line": i + 1, "op": "%s -> %s" % (pat, rep), "occ": k, "old": l, "new": new})
                if DELETE.match(code) and "(" in code:
                    ms.append({"file": rel, "line": i + 1, "op": "delete statement", "occ": 0, "old": l, "new": ""})
    return ms


def run_one(m):
    res = dict(m)
    sh("git checkout -- .", cwd=REPO)
    p = os.path.join(REPO, m["file"])
    lines = open(p).read().split("\n")
    if lines[m["line"] - 1] != m["old"]:
        res["verdict"] = "stale"
        return res
    lines[m["line"] - 1] = m["new"]
    open(p, "w").write("\n".join(lines))
    t0 = time.time()
    rc, o = sh("cargo test --offline --all-features 2>&1 | grep -E '^test result|^error|FAILED|panicked' | head -20", cwd=REPO, timeout=300)
    if rc == 124:
        res["verdict"] = "tests-timeout"
        return res
    if "error" in o:
        res["verdict"] = "no-compile"
        return res
    if "FAILED" in o or "failed" in o and "0 failed" not in o or o.count("test result: ok") < 2:
        res["verdict"] = "killed-by-tests"
        return res
    rc, o = sh("cargo test --offline 2>&1 | grep -E '^test result|^error|FAILED' | head", cwd=REPO, timeout=300)
    if "FAILED" in o or "error" in o or o.count("test result: ok") < 2:
        res["verdict"] = "killed-by-tests"
        return res
    res["t_tests"] = round(time.time() - t0, 1)
    flagged, with_input, lines_out = [], [], {}
    t0 = time.time()
    for pid in PROPS:
        rc, o = sh("./check %s --tier quick" % pid, cwd=VERIF, timeout=1500,
                   env={"VERIF_REPO_OVERRIDE": REPO, "VERIF_SWEEP_NO_LEAN": "1", "HARNESS_HANG_SECS": "40"})
        v = [l for l in o.split("\n") if l.startswith("VIOLATION")]
        if rc != 0:
            flagged.append(pid)
            lines_out[pid] = (v[0] if v else o[-300:])[:300]
            if v and "no-failing-input-found" not in v[0]:
                with_input.append(pid)
    res["t_checks"] = round(time.time() - t0, 1)
    res["flagged"] = flagged
    res["with_input"] = with_input
    res["lines"] = lines_out
    res["verdict"] = "detected" if flagged else "SURVIVED"
    # the suite cache of the scratch copy is keyed by content; drop it to bound disk use
    shutil.rmtree(VERIF + "/.cache/runs", ignore_errors=True)
    return res


def main():
    cmd = sys.argv[1] if len(sys.argv) > 1 else ""
    if cmd == "prepare":
        prepare()
    elif cmd == "list":
        ms = gen_mutants(sys.argv[2] if len(sys.argv) > 2 else None)
        print(len(ms))
        from collections import Counter
        print(Counter(m["file"] for m in ms))
    elif cmd == "run":
        n = int(sys.argv[2])
        seed = int(sys.argv[3]) if len(sys.argv) > 3 else 1
        filt = sys.argv[4] if len(sys.argv) > 4 else None
        os.makedirs(OUT, exist_ok=True)
        ms = gen_mutants(filt)
        random.Random(seed).shuffle(ms)
        done = set()
        rf = os.path.join(OUT, "results.jsonl")
        if os.path.exists(rf):
            for l in open(rf):
                r = json.loads(l)
                done.add((r["file"], r["line"], r["op"], r["occ"]))
        k = 0
        for m in ms:
            if k >= n:
                break
            key = (m["file"], m["line"], m["op"], m["occ"])
            if key in done:
                continue
            r = run_one(m)
            if r["verdict"] in ("no-compile", "stale"):
                continue
            k += 1
            with open(rf, "a") as f:
                f.write(json.dumps(r) + "\n")
            print("%s:%d [%s] %s %s" % (r["file"], r["line"], r["op"], r["verdict"], r.get("flagged", "")), flush=True)
        sh("git checkout -- .", cwd=REPO)
    elif cmd == "report":
        rs = [json.loads(l) for l in open(os.path.join(OUT, "results.jsonl"))]
        from collections import Counter
        print(Counter(r["verdict"] for r in rs))
        for r in rs:
            if r["verdict"] == "SURVIVED":
                print("%s:%d [%s]\n   - %s\n   + %s" % (r["file"], r["line"], r["op"], r["old"].strip(), r["new"].strip()))
    elif cmd == "clean":
        sh("git -C /repo worktree remove --force %s" % REPO)
        shutil.rmtree(MS, ignore_errors=True)
    else:
        print(__doc__)


if __name__ == "__main__":
    main()

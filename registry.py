"""Per-property registry used by ./check and by gen_manifest.py: which Lean module holds the
theorems, which harness suites are run, and what the evidence/manifest say."""

ALLOWED_AXIOMS = ["propext", "Classical.choice", "Quot.sound"]

TRUSTED_BASE = [
    "Lean 4.33.0 kernel and elaborator (thorough tier: leanchecker re-checks the property module)",
    "axioms allowed in #print axioms of every property theorem: propext, Classical.choice, Quot.sound (no native_decide, no bv_decide, no axioms of ours)",
    "hand-written Lean model of the Rust code (lean/SimilarVerif/Model); tied to /repo only by the correspondence check = differential testing on the explored requests",
    "Lean compiler/runtime executing the model as the native driver; the Rust harness, its generators and canonicalisation",
]

SUITE_MODEL_DEPS = {}

PROPS = {
    "C01": {
        "title": "Every algorithm emits a sound, gap-free, index-exact edit script",
        "module": "SimilarVerif.Props.C01",
        "suites": ["raw"],
        "rule": "raw: all sequence pairs up to length 4 (thorough 5) over 3 symbols x 3 algorithms, all sub-range pairs of pairs up to length 3 (thorough 4) with slice and offset lookups, plus structured random pairs (7 families); non-trivial = at least one change and one equal item; distinct by request hash",
        "theorem_status": "LCS: total and valid for every clock (full). Myers: valid if it returns, for every clock, relative to SnakeInBox (split point inside the box; Myers' theory pending). Patience: correspondence only so far. Corollaries replay/coverage for every valid stream.",
        "level_text": "Lean theorems: LCS total+valid (all inputs, ranges, clocks); Myers partial correctness relative to the explicit hypothesis SnakeInBox; replay and coverage corollaries. Exact call traces, comparison and probe counts of all three algorithms are compared with the model on exhaustive small scopes and random inputs, and an independent strict walker validates the implementation's streams.",
        "level_note": "Myers/Patience totality and the in-box fact are hypotheses (named Props, not axioms); the model is tied to the code by differential testing only; release-build wrap-around of usize is modelled as a panic (checked build)",
        "assumptions": ["Myers theorems assume SnakeInBox E (explicit hypothesis)", "usize arithmetic modelled on Nat; overflow out of scope"],
    },
    "C10": {
        "title": "Compact and Replace preserve meaning and cost of any valid script",
        "module": "SimilarVerif.Props.C10",
        "suites": ["script"],
        "rule": "script: every valid raw script (exact carried indices, split runs, insert-before-delete) over all pairs up to length 3 (thorough 4) over 2 symbols, plus random longer scripts with heavy repetition, through Replace, Compact, Compact+Replace, with the swap-repair switch off and on; non-trivial = script has a change and >= 2 calls",
        "theorem_status": "Replace half full (all valid scripts). Compact half: proof in progress, covered by correspondence + validators.",
        "level_text": "Lean theorem for Replace over any valid script (validity, item counts, alternation, exactness, finish once, world untouched); Compact model compared with the code on all valid scripts of a small scope and validated by an independent walker/normal-form checker.",
        "level_note": "Compact clauses not yet proved; termination of the clean-up loops is not proved (the model aborts with `fuel`, which the correspondence would expose)",
    },
    "C12": {
        "title": "Grouping keeps every change once, in order, with exactly n items of context",
        "module": "SimilarVerif.Props.C12",
        "suites": ["group"],
        "rule": "group: all alternating op lists with <= 2 (thorough 3) changes of the three kinds, equal-run lengths 1..2n+2, optional leading/trailing equal run, n <= 2 (thorough 4), plus random lists with run lengths around the 2n threshold; non-trivial = at least two groups",
        "theorem_status": "full: changes kept once in order, contiguity, no all-equal group, context = min(n, available) from the adjacent end, interior runs whole and <= 2n, separation iff > 2n",
        "level_text": "Lean theorems about the model of group_diff_ops for all op lists and radii; model compared with the code exhaustively on a small scope; direct re-statement validator on the implementation.",
        "level_note": "clauses about all-equal groups need `AltOps` (no adjacent Equal ops), which is the form of captured diffs (C09); counterexample without it is recorded in the Props file",
    },
    "C13": {
        "title": "Expanding ops into changes and slices is faithful",
        "module": "SimilarVerif.Props.C13",
        "suites": ["changes"],
        "rule": "changes: every op of the four kinds with offsets/lengths 0..L (quick L=5, thorough L=8) over sequences of distinct values, exhaustive; non-trivial = expands to >= 2 changes; distinct by request hash",
        "theorem_status": "full: per-op expansion, slice expansion, whole-diff iteration and apply_to_hook are proved for all ops",
        "level_text": "Lean theorems for all ops: ChangesIter/AllChangesIter state machines drained = the specified lists; slices cover the same items; apply_to_hook reproduces the op. Model tied to the code by exhaustive small-scope differential testing of iter_changes/iter_slices.",
        "level_note": "trusted: Lean kernel; hand-written model of src/iter.rs checked against the code by the correspondence harness only on the explored ops",
        "assumptions": ["the lookups are only read through Index at the reported index (a Change in the model records that index instead of the value)"],
    },
}

"""Per-property registry used by ./check: which Lean module holds the theorems, which harness
suites are run, and what the evidence file says about the trusted base."""

ALLOWED_AXIOMS = ["propext", "Classical.choice", "Quot.sound"]

TRUSTED_BASE = [
    "Lean 4.33.0 kernel and elaborator (thorough tier: leanchecker re-checks the property module)",
    "axioms allowed in #print axioms of every property theorem: propext, Classical.choice, Quot.sound (no native_decide, no bv_decide, no axioms of ours)",
    "hand-written Lean model of the Rust code (lean/SimilarVerif/Model); tied to /repo only by the correspondence check = differential testing on the explored requests",
    "Lean compiler/runtime executing the model as the native driver; the Rust harness, its generators and canonicalisation",
]

SUITE_MODEL_DEPS = {}

PROPS = {
    "C13": {
        "module": "SimilarVerif.Props.C13",
        "suites": ["changes"],
        "rule": "changes: every op of the four kinds with offsets/lengths 0..L (quick L=5, thorough L=8) over sequences of distinct values, exhaustive; non-trivial = expands to >= 2 changes; distinct by request hash",
        "theorem_status": "full: per-op expansion, slice expansion, whole-diff iteration and apply_to_hook are proved for all ops",
        "assumptions": ["the lookups are only read through Index at the reported index (a Change in the model records that index instead of the value)"],
    },
}

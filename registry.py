"""Per-property registry used by ./check and by gen_manifest.py: which Lean module holds the
theorems, which harness suites are run, and what the evidence/manifest say."""

ALLOWED_AXIOMS = ["propext", "Classical.choice", "Quot.sound"]

TRUSTED_BASE = [
    "Lean 4.33.0 kernel and elaborator (thorough tier: leanchecker re-checks the property module)",
    "axioms allowed in #print axioms of every property theorem: propext, Classical.choice, Quot.sound (no native_decide, no bv_decide, no axioms of ours)",
    "hand-written Lean model of the Rust code (lean/SimilarVerif/Model); tied to /repo only by the correspondence check = differential testing on the explored requests",
    "Lean compiler/runtime executing the model as the native driver; the Rust harness, its generators and canonicalisation",
]

SUITE_MODEL_DEPS = {}

PROPS = {
    "C01": {
        "title": "Every algorithm emits a sound, gap-free, index-exact edit script",
        "module": "SimilarVerif.Props.C01",
        "suites": ["raw", "deadline", "api", "umyers"],
        "rule": "raw: all sequence pairs up to length 4 (thorough 5) over 3 symbols x 3 algorithms, all sub-range pairs of pairs up to length 3 (thorough 4) with slice and offset lookups, plus structured random pairs (7 families); non-trivial = at least one change and one equal item; distinct by request hash; api: every thin public entry point (per-algorithm modules, diff/diff_slices, capture wrappers, Capture::into_*, TextDiff::from_*, diff_slices, owned text types, builder/getter/formatter re-use, Change/InlineChange accessors and Display, udiff::unified_diff, remapper slices, get_close_matches on bytes) against its canonical path on exhaustive small and random cases (implementation-only, metamorphic); umyers: the crate-internal common_prefix_len/common_suffix_len and ONE find_middle_snake search on fresh V arrays (split point, final contents of both V arrays, comparison and probe counts) compared with the model on every in-bounds sub-range pair of all pairs up to length 3 (thorough 4) over 3 symbols, offsets, five clocks, and on stripped random boxes; validator: the split point lies in the box, on a shortest path, and is no corner of a stripped box",
        "theorem_status": "LCS full (total + valid, every clock). Myers full (total + valid, every clock): Myers' middle-snake theory is formalised (furthest-reaching invariant, overlap at ceil(D/2), split point on an optimal path inside the box, not a corner) and discharges SnakeInBox/SnakeFound for every environment. Patience full (total + valid, every clock; needs the same-side comparisons of `unique` in bounds). Replay/coverage corollaries. Shift invariance full: diffing a sub-range = diffing the extracted slices with every index shifted by the range starts, all algorithms, every clock, aborts and counters included, also for arbitrary related hooks (Lemmas/Shift.lean).",
        "level_text": "Lean theorems: LCS, Myers and Patience total + valid (all inputs, in-bounds ranges, every clock; Myers' middle-snake theory formalised); replay and coverage corollaries; shift invariance of sub-range diffs. Exact call traces, comparison and probe counts of all three algorithms are compared with the model on exhaustive small scopes and random inputs, and an independent strict walker validates the implementation's streams.",
        "level_note": "the model is tied to the code by differential testing only; release-build wrap-around of usize is modelled as a panic (checked build)",
        "assumptions": ["usize arithmetic modelled on Nat; overflow out of scope", "in-bounds ranges (InBounds): cross comparisons inside the ranges are defined; Patience also the same-side comparisons of unique()"],
    },
    "C10": {
        "title": "Compact and Replace preserve meaning and cost of any valid script",
        "module": "SimilarVerif.Props.C10",
        "suites": ["script", "ucompact"],
        "rule": "script: every valid raw script (exact carried indices, split runs, insert-before-delete) over all pairs up to length 3 (thorough 4) over 2 symbols, plus random longer scripts with heavy repetition, through Replace, Compact, Compact+Replace, with the swap-repair switch off and on; non-trivial = script has a change and >= 2 calls; ucompact: cleanup_diff_ops and ONE call of shift_diff_ops_up / shift_diff_ops_down at every change of every valid script over pairs up to length 3 (thorough 4) over 2 symbols plus random scripts (ops and returned pointer, shipped and repaired swap) compared with the model; validator: still a valid script with the same deleted/inserted item counts after every single helper call",
        "theorem_status": "full: Replace on all valid scripts; Compact (whenever it returns: validity, item counts, cost) and its totality/termination on valid input with exact or run-relative carried indices (quadratic round bound found by the termination proof); Compact then Replace valid, cost preserving, alternating; through both adapters the FULL normal form of C09 incl. the latest-position clause (Headline C10_statement); delete_arm_never_slides: the two shift-deletions arms of the clean-up are dead for every environment",
        "level_text": "Lean theorems for Replace and for Compact over any valid script (validity, item counts, alternation, exactness under the repaired swap, finish once, totality); Compact model compared with the code on all valid scripts of a small scope and validated by an independent walker/normal-form checker.",
        "level_note": "the model's loop bounds (fuel) are proved sufficient (CompactT.cleanup_total_*); a `fuel` answer of the driver would be a disagreement",
    },
    "C12": {
        "title": "Grouping keeps every change once, in order, with exactly n items of context",
        "module": "SimilarVerif.Props.C12",
        "suites": ["group", "text", "api"],
        "rule": "group: all alternating op lists with <= 2 (thorough 3) changes of the three kinds, equal-run lengths 1..2n+2, optional leading/trailing equal run, n <= 2 (thorough 4), plus random lists with run lengths around the 2n threshold; non-trivial = at least two groups; api: every thin public entry point (per-algorithm modules, diff/diff_slices, capture wrappers, Capture::into_*, TextDiff::from_*, diff_slices, owned text types, builder/getter/formatter re-use, Change/InlineChange accessors and Display, udiff::unified_diff, remapper slices, get_close_matches on bytes) against its canonical path on exhaustive small and random cases (implementation-only, metamorphic)",
        "theorem_status": "full: changes kept once in order, contiguity, no all-equal group, context = min(n, available) from the adjacent end, interior runs whole and <= 2n, separation iff > 2n; group_captured: the AltOps hypothesis holds for every captured diff, so all clauses hold for groupDiffOps of whatever capture_diff returns (any algorithm, any clock)",
        "level_text": "Lean theorems about the model of group_diff_ops for all op lists and radii; model compared with the code exhaustively on a small scope; direct re-statement validator on the implementation.",
        "level_note": "clauses about all-equal groups need `AltOps` (no adjacent Equal ops), which is the form of captured diffs (C09); counterexample without it is recorded in the Props file",
    },
    "C13": {
        "title": "Expanding ops into changes and slices is faithful",
        "module": "SimilarVerif.Props.C13",
        "suites": ["changes", "text", "api"],
        "rule": "changes: every op of the four kinds with offsets/lengths 0..L (quick L=5, thorough L=8) over sequences of distinct values, exhaustive, each iterator also driven through nth/skip/step_by/count/last/fold/size_hint against plain next(); text: iter_all_changes of every text diff of the text suite compared with the per-op expansions and driven the same way; non-trivial = expands to >= 2 changes; distinct by request hash; api: every thin public entry point (per-algorithm modules, diff/diff_slices, capture wrappers, Capture::into_*, TextDiff::from_*, diff_slices, owned text types, builder/getter/formatter re-use, Change/InlineChange accessors and Display, udiff::unified_diff, remapper slices, get_close_matches on bytes) against its canonical path on exhaustive small and random cases (implementation-only, metamorphic)",
        "theorem_status": "full: per-op expansion, slice expansion, whole-diff iteration and apply_to_hook are proved for all ops",
        "level_text": "Lean theorems for all ops: ChangesIter/AllChangesIter state machines drained = the specified lists; slices cover the same items; apply_to_hook reproduces the op. Model tied to the code by exhaustive small-scope differential testing of iter_changes/iter_slices.",
        "level_note": "trusted: Lean kernel; hand-written model of src/iter.rs checked against the code by the correspondence harness only on the explored ops",
        "assumptions": ["the lookups are only read through Index at the reported index (a Change in the model records that index instead of the value)"],
    },
}

PROPS.update({
    "C02": {
        "title": "Captured ops form a valid edit script old->new",
        "module": "SimilarVerif.Props.C02",
        "suites": ["cap", "deadline", "text", "api"],
        "rule": "cap: capture_diff_deadline on all pairs up to length 4 (thorough 5) over 3 symbols, all sub-ranges of pairs up to 3 (thorough 4) with slice/offset lookups, structured random pairs; each case also through Compact(Replace(hook)) built by hand and with the repair switch; deadline: every expiry point; non-trivial = a change and an equal item; api: every thin public entry point (per-algorithm modules, diff/diff_slices, capture wrappers, Capture::into_*, TextDiff::from_*, diff_slices, owned text types, builder/getter/formatter re-use, Change/InlineChange accessors and Display, udiff::unified_diff, remapper slices, get_close_matches on bytes) against its canonical path on exhaustive small and random cases (implementation-only, metamorphic)",
        "theorem_status": "full for everything that follows from validity of the op list (application, coverage, ratio in [0,1], ratio = 1 iff no change iff element-wise equal) and for the Replace->Capture stage on any valid script; Compact stage and end-to-end factorisation of captureDiff into raw stream -> clean-up -> Replace proved (Lemmas/Capture.lean): whatever capture_diff_deadline returns is a valid alternating op list, all algorithms, every clock; identical inputs give exactly [Equal(os,ns,n)] (nothing for n = 0) for every algorithm and clock, never a panic (Lemmas/Identical.lean; Patience under EqPattern, counterexample without it recorded)",
        "level_text": "Lean theorems about any valid op list, the factorisation of the capture pipeline and its validity end to end for all three algorithms (unconditional), identical inputs give exactly one Equal op; captured op lists of the implementation compared with the model exactly (incl. comparison/probe counts) and validated by an independent walker / replayer / ratio check.",
        "level_note": "f32 ratio is computed natively in the driver, theorems are over the exact fraction",
    },
    "C03": {
        "title": "Myers and LCS report a shortest edit script; ratio = 2*LCS/(N+M)",
        "module": "SimilarVerif.Props.C03",
        "suites": ["raw", "cap", "text", "umyers", "ulcs"],
        "rule": "raw/cap as for C01/C02; the validator computes a brute-force DP LCS for every Myers and LCS run (raw and captured) and compares deleted+inserted, equal total and the f32 ratio; text: TextDiff::ops of every text diff of the text suite through the same validators (normal form / exact positions with known-finding attribution / minimality and f32 ratio); umyers/ulcs: ONE middle-snake search (split point + both V arrays) and the whole LCS table (every entry) compared with the model; validators: the split point is on a shortest path (brute-force LCS of both halves), every table entry is the LCS length of the two suffixes and absent exactly when that is 0",
        "theorem_status": "lower bound for every valid script (full); LCS minimal for all inputs and sub-ranges (full); clean-up and Replace keep item counts (partial correctness of Compact); Myers minimal (full: raw stream costs N+M-2L and beats every valid script; theory in Lemmas/MyersTheory+MyersOptimal); captured Myers and captured LCS end to end (capture_myers_minimal, capture_lcs_minimal_total: for in-bounds ranges without deadline the capture function RETURNS, its ops are valid, cost N+M-2L, nEq = L, ratio pair (2L, N+M), no valid script is cheaper)",
        "level_text": "Lean theorems: cost >= N+M-2L for every valid script; LCS raw stream attains it (table correctness + greedy walk optimality + prefix/suffix stripping); clean-up preserves counts; Myers raw stream attains it as well (middle-snake theory: the split point lies on an optimal path). Minimality is also validated on the implementation by brute force on the whole explored space.",
        "level_note": "Spec.lcsLen is the textbook recursion; ratio = 2L/(N+M) is proved for the exact fraction, the f32 value is the soft-float F32.ratio of that pair (Model/F32.lean), proved monotone and exact below 2^24, compared bit for bit with the implementation and with native Float32 on every request",
    },
    "C06": {
        "title": "Tokenizers are lossless partitions with the documented token shape",
        "module": "SimilarVerif.Props.C06",
        "suites": ["tok"],
        "rule": "tok: all strings up to length 3 (thorough 4) over a 14-symbol alphabet (ASCII, LF, CR, NBSP, U+2028, U+3000, U+0085, e-acute, combining acute, ZWJ, regional indicator, NUL) as str and bytes, all byte strings up to length 3 (thorough 4) over 14 critical bytes incl. invalid UTF-8, random longer texts; 6 tokenizers each; bstr char_indices and char::is_whitespace compared with the model (thorough: all scalar values); non-trivial = at least 2 tokens",
        "theorem_status": "full for the eight non-unicode tokenizers (losslessness, shapes, str = bytes on valid UTF-8, for all inputs); unicode words/graphemes lossless relative to the external segmenter's Partition contract",
        "level_text": "Lean theorems for every string / byte string; the lossy UTF-8 decoder of bstr is modelled and compared exhaustively on short byte strings; unicode segmenters are external parameters whose contract is checked on every case.",
        "level_note": "unicode-segmentation and bstr's word/grapheme segmenters are not modelled (parameters with contract Partition)",
    },
    "C07": {
        "title": "Deadline expiry at any point still yields a valid diff, promptly; it is plumbed",
        "counts": True,
        "module": "SimilarVerif.Props.C07",
        "suites": ["deadline", "text", "umyers", "ulcs"],
        "rule": "deadline: all pairs up to length 4 over 2 (thorough 3) symbols + random pairs x 3 algorithms x every expiry point k = 0..#checks+1 (sampled beyond 40) through algorithms::diff_deadline and capture_diff_deadline under the virtual clock; validators: script validity, finish once, comparisons after expiry <= 2x the hand-derived bound, never-expiring = none; text: TextDiffConfig deadline/timeout reach the algorithm; non-trivial = the clock actually expired; umyers/ulcs: the middle-snake search and the LCS table under the virtual clock (probe and comparison counts exact)",
        "theorem_status": "validity and finish-once for EVERY expiry point: LCS full (incl. totality), Myers full incl. totality, Patience full incl. totality (C01.patience_total_valid); never-expiring deadline = no deadline (all algorithms, recording hook and capture pipeline): full; LCS no comparison after expiry: full; Myers <= 3*min(N,M) comparisons after the first expired probe: full; Patience entered with an expired deadline: <= 5*min(N,M)+4 comparisons from entry (full); Patience expiring at ANY probe - of the outer run, of a gap run inside a hook call, or of the tail run: <= 7*min(N,M) comparisons after the first probe that answered 'exceeded' (patience_post_expiry_bound / _kth_probe, full, via a ghost-instrumented run proved equal to the model run)",
        "level_text": "Lean theorems quantify over all virtual-clock states, i.e. all expiry points; the virtual clock is the cfg(similar_verif) hook in /repo, so expiry at the k-th check is an input of the correspondence as well.",
        "level_note": "real time cannot be exhibited by the model: Instant::now() > deadline is replaced by the virtual clock under the guard",
    },
    "C08": {
        "title": "Hook protocol: finish once and last; a hook error aborts the diff unchanged",
        "module": "SimilarVerif.Props.C08",
        "suites": ["stacks", "deadline", "api"],
        "rule": "stacks: all pairs up to length 3 (thorough 5) over 2 symbols + random pairs x 3 algorithms x 6 adapter stacks (none, &mut, NoFinish, Replace, Compact, Compact+Replace) x hook with/without replace override x every failing call index k; non-trivial = more than 2 calls",
        "theorem_status": "full: abort-prefix theorem for every algorithm x {none, NoFinish, Replace, Compact, Compact+Replace} x every k and both replace modes; finish once and last follows from C01's validity (LCS and Myers full, Patience whenever it returns); NoFinish forwarding and default replace by definition",
        "level_text": "Lean theorem: the run against a hook failing at call k is exactly the k+1-prefix of the never-failing run, returns that error, for all inputs (simulation proof over every hook-generic model function); the correspondence exercises every k on the real code.",
        "level_note": "&mut D forwarding is the identity in the model; a dropped `?` cannot be expressed in the model and is caught by the correspondence",
    },
    "C09": {
        "title": "Captured diffs are in canonical normal form",
        "module": "SimilarVerif.Props.C09",
        "suites": ["cap", "script", "deadline", "text", "ucompact"],
        "rule": "cap/deadline/script as for C02/C07/C10; the normal-form validator (alternation, no empty op, delete+insert merged, insert at latest position) runs on every captured op list and on every arbitrary script pushed through Compact+Replace; text: TextDiff::ops of every text diff of the text suite through the same validators (normal form / exact positions with known-finding attribution / minimality and f32 ratio); ucompact: cleanup_diff_ops and ONE call of shift_diff_ops_up / shift_diff_ops_down at every change of every valid script (ops and returned pointer, shipped and repaired swap) compared with the model; validator: valid script, same item counts, no insertion left that could slide down",
        "theorem_status": "clauses 1-3 (alternation, no adjacent changes, no empty op) full for Replace on any valid script; clause 4 (insertion at latest position) full for the clean-up output (CompactT.cleanup_insert_latest, both swap variants); END TO END (capture_normal_form / capture_normalForm): for every algorithm, in-bounds ranges and EVERY clock the capture function returns a valid op list satisfying all four clauses (clause 4 carried through Replace: in the cleaned list every insertion is followed by an equal op or nothing, so a lone insertion before an equal run reaches the output unchanged); Headline C09_statement: CanonicalNormalForm (five clauses incl. item-level deletes-before-inserts and Replace ops with both parts non-empty) for capture_diff, for the ops of every text diff, and for any valid script through Compact+Replace",
        "level_text": "Lean theorems: clauses 1-3 for the Replace stage on every valid script, clause 4 (insertion at its latest position) for the output of the clean-up on every valid script (shipped and repaired swap); clean-up model compared with the code on all valid scripts of a small scope and on every captured diff.",
        "level_note": "clause 4 is proved for the clean-up output; its transport through the Replace stage (which merges neighbours) is covered by the normal-form validator on every captured op list",
    },
    "C11": {
        "title": "Every captured op carries exact positions in both sequences",
        "module": "SimilarVerif.Props.C11",
        "suites": ["cap", "deadline", "text", "ucompact"],
        "rule": "cap as for C02, without deadline; every captured op list is checked for exact positions; a failing case is re-run with the cfg(similar_verif) swap-repair switch and attributed to the known finding only if the failure disappears; text: TextDiff::ops of every text diff of the text suite through the same validators (normal form / exact positions with known-finding attribution / minimality and f32 ratio); ucompact: the clean-up and its two shift helpers one call at a time, shipped and repaired swap, compared with the model",
        "theorem_status": "the unchanged code violates C11 (known finding KF-compact-swap): counterexample theorem on the shipped model; with the swap repair the clean-up keeps exactness for all valid scripts; shipped and repaired variants differ only in carried indices; Replace/LCS/Myers-without-deadline stages exact; end to end: captured Myers ops exact with the repaired swap (unconditional); capture_exact_repaired_total: with the repaired swap all three algorithms return exact captured ops without deadline (LCS for every clock: capture_lcs_exact_repaired; Patience raw stream exact: patience_raw_exact); expired_deadline_raw_not_exact: the raw Myers fallback insert is Carried but not Exact (rfl on a 2x2 input); FIFTH SESSION: capture_exact_repaired_every_clock -- with the repaired swap the captured ops are exact for every algorithm and EVERY clock, also when a deadline expires in the middle of Myers or Patience (Lemmas/CompactLoose.lean, CaptureExactClock.lean); shipped and repaired results agree end to end on everything but carried indices (Headline C11_statement (d))",
        "level_text": "Lean theorems: negation witness for the shipped swap, positive theorem for the repaired swap, attribution lemma; both variants of the implementation compared with both variants of the model.",
        "level_note": "KNOWN FINDING listed in known_findings.json; the check prints KNOWN-FINDING and exits 0 only when every failure is attributable to the swap site",
    },
    "C15": {
        "title": "Patience keeps a maximum in-order set of unique common items",
        "module": "SimilarVerif.Props.C15",
        "suites": ["raw", "cap", "uunique"],
        "rule": "raw/cap as for C01/C02; for every Patience run (raw and captured) the validator computes the longest common in-order subsequence of the items unique on both sides by brute force and compares with the number of such items reported Equal; uunique: the crate-internal unique() on every sub-range of every sequence up to length 5 (thorough 6) over 3 symbols under five kinds of hashing (incl. colliding and constant hashes) and offsets, compared with the model and with a brute-force count",
        "theorem_status": "full: pairing clause (an anchored item is matched to its unique counterpart) and size clause (a chain of lcsLen(unique old, unique new) anchor pairs is reported Equal: the outer Myers run over the unique lists is optimal and every pair it reports reaches the user stream), raw stream, no deadline; captured variant proved as well (captured_count_ge_lis(_total), captured_anchor_matched_to_counterpart: capture_diff with Patience returns valid ops whose Equal total is at least the LIS bound, and pairs unique items with their counterparts)",
        "level_text": "Lean theorems: Patience streams are valid scripts; equal segments pair equal items, hence unique items their counterparts; unique() is ascending and in range; size clause: at least lcsLen(unique old, unique new) anchors are reported Equal (no deadline).",
        "level_note": "size clause proved for the raw stream and for captured ops (the pipeline preserves nEq)",
    },
    "C19": {
        "title": "Myers and Patience do work proportional to (N+M)*(D+1)",
        "counts": True,
        "module": "SimilarVerif.Props.C19",
        "suites": ["cost", "umyers"],
        "rule": "cost: 700 (thorough 6000) generated pairs up to 600 (thorough 3000) items per side from 7 families (near-identical, block moves, periodic, heavy repeats, unrelated, unique-rich, small alphabet) x Myers and Patience; comparisons counted by the element type; non-trivial = near-identical (D*8 < N+M); umyers: comparison counts of ONE middle-snake search and of the prefix/suffix scans, exact",
        "theorem_status": "Myers full: cmps <= 22 (N+M+1)(D+1) for every input without deadline (potential argument + middle-snake theory); per-scan costs; Patience full: cmps <= 57 (N+M+1)(D+1) with D the size of the script it reports, for element tests that come from two label sequences (EqPattern; false for inconsistent same-side relations, counterexample recorded): 22 for the outer run over the unique items, whose edit distance is at most the cost of any valid script (outer_le_cost), at most 35 for scans, gap runs and tail run; measured on the implementation: cross comparisons below 0.9 (N+M+1)(D+1), same-side below 1.4 per item",
        "level_text": "Lean theorems for the cost of the prefix/suffix scans; the cost model (exact comparison counts) is validated against the code on every request of every suite; the (N+M+1)(D+1) bound is a theorem for Myers (constant 22) and for Patience (constant 57, D its own script) and is also checked by measurement (constant 3).",
        "level_note": "the proved constants (22, 57) are far from the measured one (< 0.9); the Patience bound needs element tests that come from two label sequences (EqPattern; counterexample without it in the Props file); wall-clock time is not modelled, comparisons are the proxy the property names",
    },
    "C20": {
        "title": "Diffs are deterministic and depend only on the equality pattern of the items",
        "module": "SimilarVerif.Props.C20",
        "suites": ["determinism", "text", "api", "tok"],
        "rule": "determinism: small exhaustive and random label sequences x 3 algorithms, each run twice in the calling thread, on two long-lived and (sampled) two freshly spawned threads, with a second hash salt and with injectively relabelled values; text: str vs bytes of the same text, repeated and threaded runs; non-trivial = diff has a change; api: every thin public entry point (per-algorithm modules, diff/diff_slices, capture wrappers, Capture::into_*, TextDiff::from_*, diff_slices, owned text types, builder/getter/formatter re-use, Change/InlineChange accessors and Display, udiff::unified_diff, remapper slices, get_close_matches on bytes) against its canonical path on exhaustive small and random cases (implementation-only, metamorphic); tok: the str and [u8] tokenizers themselves (C20's last clause rests on their agreement): every scalar value between two letters through the word / line / char tokenizers of both modes, exhaustive",
        "theorem_status": "full at model level: injective relabelling gives the same environment hence the same result of every model function; unique/IdentifyDistinct specified without hash order; str = bytes tokens on valid UTF-8",
        "level_text": "Lean theorems about the model; threads and hasher seeds are runtime behaviour no executable model can exhibit and are covered by the harness (repeated, threaded, re-salted, relabelled runs must agree).",
        "level_note": "the runtime half (threads, RandomState) is testing, labelled as such",
    },
})

PROPS.update({
    "C05": {
        "title": "Rendered unified diffs are well-formed and apply exactly",
        "module": "SimilarVerif.Props.C05",
        "suites": ["udiff", "api"],
        "rule": "udiff: line diffs of all texts of up to 4 lines from {a LF, b LF, a CRLF, c CR} optionally ending in a line without terminator, random longer line texts with few edits (several hunks), bytes with invalid UTF-8 x 3 algorithms x radius 0..3 (thorough 0..4) x header on/off x Display/to_writer x str/bytes; the request carries the implementation's ops and tokens, the model renders from them; validator: strict parse + apply of the real output, header counts/starts/order, context <= radius, deletions before insertions, marker placement, writer vs Display; non-trivial = output has >= 1 hunk and context; api: every thin public entry point (per-algorithm modules, diff/diff_slices, capture wrappers, Capture::into_*, TextDiff::from_*, diff_slices, owned text types, builder/getter/formatter re-use, Change/InlineChange accessors and Display, udiff::unified_diff, remapper slices, get_close_matches on bytes) against its canonical path on exhaustive small and random cases (implementation-only, metamorphic)",
        "theorem_status": "structured part full under Exact (positions exact, C11): renderer total, output = structured hunks, strict application gives new, counts/positions/order, equal inputs render empty, context <= radius, deletions first, line and range formats. Byte level: a strict parser of the unified format is proved to read the printed bytes back as exactly the structured hunks (header names, all three range forms, count-driven bodies, missing-newline markers, LF/CRLF/CR terminators) and the parsed hunks patch old into new (Lemmas/UdiffParse.lean; to_writer path with hints, line tokens, names without LF). Display vs writer: display_is_lossy_writer (the Display output is exactly the lossy UTF-8 decoding of the to_writer output, every input, both hint settings) and display_eq_writer_on_utf8. The unchanged code violates the Exact hypothesis at the compaction swap (known finding): counterexample theorem included; END TO END (Headline C05_statement (h)): for the repaired swap, every algorithm and EVERY clock the Exact hypothesis is discharged -- two texts -> line diff -> render -> strict parse -> apply gives the new text (via C11.capture_exact_repaired_every_clock)",
        "level_text": "Lean theorems about the model renderer for all valid exact op lists, radii and settings; rendered bytes of the implementation compared with the model byte for byte (Display and writer), and parsed + strictly applied by an independent validator.",
        "level_note": "KNOWN FINDING KF-compact-swap-udiff (stale carried index after the compaction swap feeds wrong header positions); a failing case is attributed to it only if it disappears when the diff is rebuilt with the cfg(similar_verif) swap repair",
    },
    "C14": {
        "title": "A text diff is the sequence diff of its tokens at every size and config",
        "module": "SimilarVerif.Props.C14",
        "suites": ["text", "identify", "api"],
        "rule": "text: 5 tokenizers x str/bytes x 3 algorithms x newline override over an exhaustive small text space, random texts and near-identical texts with 95..110 tokens on one or both sides; identify: IdentifyDistinct over exhaustive small and random label sequences with offset lookups and sub-ranges; non-trivial = diff has a change and an equal; api: every thin public entry point (per-algorithm modules, diff/diff_slices, capture wrappers, Capture::into_*, TextDiff::from_*, diff_slices, owned text types, builder/getter/formatter re-use, Change/InlineChange accessors and Display, udiff::unified_diff, remapper slices, get_close_matches on bytes) against its canonical path on exhaustive small and random cases (implementation-only, metamorphic)",
        "theorem_status": "full at model level: textDiffOps = captureDiff on the token environment for every size; identifyDistinct total, ids equal iff items equal (all four side combinations), first-seen numbering, ranges kept",
        "level_text": "Lean theorems: the 100-token switch is invisible (the id arrays induce the same environment, by funext) and the integer mapping is a faithful first-seen numbering; TextDiff::ops compared with capture_diff_slices on the tokens by the validator and with the model on both sides of the threshold.",
        "level_note": "the Rust HashMap is specified (first-seen ids), not modelled; more distinct items than the integer type holds is out of scope as the property states",
    },
    "C16": {
        "title": "Inline changes re-split each line losslessly; only changed words emphasised",
        "module": "SimilarVerif.Props.C16",
        "suites": ["inline", "api", "uinline"],
        "rule": "inline: line diffs of text pairs sharing words (multi-byte words, mixed terminators, missing final newline) x algorithms x inline deadline none / expired / small fuel; every op of every diff through iter_inline_changes_deadline; word segmentation passed as external parameter; non-trivial = a Replace op passing both ratio gates; api: every thin public entry point (per-algorithm modules, diff/diff_slices, capture wrappers, Capture::into_*, TextDiff::from_*, diff_slices, owned text types, builder/getter/formatter re-use, Change/InlineChange accessors and Display, udiff::unified_diff, remapper slices, get_close_matches on bytes) against its canonical path on exhaustive small and random cases (implementation-only, metamorphic); uinline: MultiLookup's word table, get_original_slices on word runs and push_values sequences compared with the model; validator: slices concatenate to the words, emphasised segments contain no line break",
        "theorem_status": "full relative to (i) the word segmenter's contract SegsOK and (ii) validity of the second-level captured ops (C02): same tags/indices as plain expansion, segments concatenate to the line, emphasised segments are non-newline runs without line breaks, missing-newline flag agrees; both outcomes of each ratio gate covered; the gates are soft-float comparisons (F32.lt .. F32.half) and gate_fires_iff characterises them exactly below 2^24 tokens (fires iff 4*matches < len); hypothesis (ii) discharged: second_level_total/valid, replace_refined_uncond, inline_changes_total (for a valid line diff over non-empty line tokens and a segmenter meeting SegsOK every op expands without panic with the stated tags, indices, concatenations, emphasis shape and missing-newline flag), inline_text_diff_total (from the two texts, any algorithm and clock)",
        "level_text": "Lean theorems for every op kind and both outcomes of both ratio gates; the implementation's inline changes are compared with the model segment by segment under the virtual clock.",
        "level_note": "unicode word segmentation is an external parameter; f32 gates are modelled by the soft-float model F32 (cross-checked against native Float32 by the driver on every request)",
    },
    "C17": {
        "title": "Remapped slices are the original substrings and reconstruct both texts",
        "module": "SimilarVerif.Props.C17",
        "suites": ["remap"],
        "rule": "remap: 5 tokenizers x str/bytes x 3 algorithms over small exhaustive and random text pairs incl. empty and multi-byte; TextDiffRemapper::iter_slices for every op plus the six utils::diff_* helpers; non-trivial = >= 2 ops",
        "theorem_status": "full for any valid op list over tiling tokens: no panic, exact byte ranges, tags of slice-wise expansion, slice = concatenation of its tokens, no empty slice, both texts reconstructed byte for byte; the one-call helpers diff_chars/words/unicode_words/graphemes/lines end to end (helpers_total, helpers_nonempty, helpers_reconstruct_old/new, helpers_tags: for tokens that tile the texts, every algorithm, every clock: they return, never an empty slice, both texts reconstructed); text_diff_total: the text diff of any two token arrays returns a valid op list for every algorithm and clock; diff_slices (modelled as utilsDiffSlices): slices_helper_total -- it returns, no slice is empty, the slices expand to the items of the captured ops, which count both inputs consecutively (every algorithm and clock)",
        "level_text": "Lean theorems about the model of SliceRemapper/TextDiffRemapper for all token length lists and valid scripts; byte ranges of the implementation's slices compared with the model; helpers validated by reconstruction.",
        "level_note": "the tokenizer enters the helper theorems through the Tiling hypothesis that C06 proves for the non-unicode tokenizers (unicode ones: relative to the segmenter contract)",
    },
    "C18": {
        "title": "get_close_matches equals exhaustive ranking by similarity ratio",
        "module": "SimilarVerif.Props.C18",
        "suites": ["close", "api", "uclose"],
        "rule": "close: words and candidate lists (2-5 candidates incl. duplicates and the empty string) over {a,b,c,e-acute} up to length 4 x n 0..4 x cutoffs incl. values hit exactly, random longer words; thorough adds the tiny-ratio family (200000-char candidates); validator: brute-force ranking with the crate's own ratio(); non-trivial = >= 2 candidates pass; api: every thin public entry point (per-algorithm modules, diff/diff_slices, capture wrappers, Capture::into_*, TextDiff::from_*, diff_slices, owned text types, builder/getter/formatter re-use, Change/InlineChange accessors and Display, udiff::unified_diff, remapper slices, get_close_matches on bytes) against its canonical path on exhaustive small and random cases (implementation-only, metamorphic); uclose: the two pre-filters upper_seq_ratio and QuickSeqRatio::calc (f32 bits) compared with the soft-float model on all length pairs below 24, lengths around 2^24 and 2^25, random words over 1-4-byte chars; validator: both are upper bounds of the real ratio",
        "theorem_status": "FULL, no hypothesis: get_close_matches_is_exhaustive_ranking — for every tokenizer, word, candidate list, n and cutoff bit pattern (NaN, negative, subnormal, infinite included) the model returns exactly the first n of all candidates whose f32 ratio is >= cutoff, sorted by ratio descending then lexicographically; the two pre-filters are invisible (prefilters_are_invisible / filters_never_discard_f32); heap-key order = IEEE order of the ratios (key_order_is_ratio_order); the f32 operations are the soft-float model F32 (n as f32, 2.0*x, correctly rounded x/y, IEEE comparisons on arbitrary patterns) whose rounding is PROVED monotone (soft_float_rounding_is_monotone discharges the former Rnd hypothesis)",
        "level_text": "Lean theorems over a soft-float model of the f32 operations (exact natural-number arithmetic, validated against hardware on 5*10^5 vectors in lean/test-f32 and re-checked against native Float32 by the driver on every request); the implementation's results are compared bit for bit on every request.",
        "level_note": "trusted: hardware f32 = the soft-float model F32 on the values that occur (cross-checked on every run); no IEEE fact is assumed in any theorem",
    },
})

PROPS.update({
    "C04": {
        "title": "Text diffs reconstruct both inputs byte-for-byte for every tokenizer",
        "module": "SimilarVerif.Props.C04",
        "suites": ["text", "identify"],
        "rule": "text: 5 tokenizers x str/bytes x 3 algorithms over an exhaustive small text space (pieces with LF, CRLF, CR, no terminator, multi-byte, spaces), random texts (bytes: invalid UTF-8) and near-identical texts around the 100-token switch; validator: reassembly of both texts from iter_all_changes and from per-op iter_changes, index discipline; non-trivial = a change and an equal; identify: the integer mapping used above 100 tokens (IdentifyDistinct) on all sub-range pairs of small sequences and random pairs, with four kinds of hashing -- a text diff above 100 tokens reports Equal exactly where this mapping gives equal numbers",
        "theorem_status": "full as a composition: any valid op list over tiling tokens reconstructs both texts byte for byte with consecutive indices and the right index shape; instantiated for the model's text diff with LCS and Myers unconditionally and Patience whenever it returns; unicode tokenizers relative to the external segmenter's Partition contract; END TO END (text_diff_total_reconstructs): for every algorithm, every clock and token ranges that tile the two texts, the text diff RETURNS, its whole-diff expansion has the index shape of the property (consecutive indices from 0 on each side) and reconstructs both texts byte for byte; text_diff_total_linesB: no hypothesis at all for the byte line tokenizer",
        "level_text": "Lean theorems composing C06 (tiling tokens), C02 (captured ops walk both token lists) and C13 (faithful expansion); TextDiff of the implementation compared with the model (token counts, ops, flags) and validated by reassembly.",
        "level_note": "unicode-segmentation / bstr segmenters are external parameters with contract Partition",
    },
})

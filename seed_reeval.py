#!/usr/bin/env python3
"""Development-time tool: re-evaluate every kept seeded change against the CURRENT checks, in scratch copies
(never in /repo): /tmp/se/repo (worktree of /repo HEAD) and /tmp/se/verif (copy of /verif whose harness
depends on /tmp/se/repo). For each /verif/seeded/<id>/patch.diff: apply, run all 20 quick checks
(correspondence + validators; the Lean stage does not depend on /repo and is skipped), record which raise
VIOLATION and which of those with a failing input. Writes /verif/seeded/RECHECK.json and RECHECK.md.
usage: seed_reeval.py [id-prefix ...]"""
import json, os, shutil, subprocess, sys, time

SE = os.environ.get("SEED_REEVAL_DIR", "/tmp/se")  # several instances may run side by side on disjoint seeds, each in its own scratch dir
TARGET_ONLY = bool(os.environ.get("SEED_REEVAL_TARGET_ONLY"))  # regression mode: only the target property's check
REPO, VERIF = SE + "/repo", SE + "/verif"
PROPS = ["C%02d" % i for i in range(1, 21)]


def sh(cmd, cwd=None, timeout=1800, env=None):
    e = dict(os.environ)
    e["CARGO_NET_OFFLINE"] = "true"
    if env:
        e.update(env)
    try:
        p = subprocess.run(cmd, cwd=cwd, shell=True, env=e, stdout=subprocess.PIPE, stderr=subprocess.STDOUT, text=True, timeout=timeout)
        return p.returncode, p.stdout
    except subprocess.TimeoutExpired:
        return 124, "timeout"


def prepare():
    os.makedirs(SE, exist_ok=True)
    if not os.path.exists(REPO):
        sh("git -C /repo worktree add --detach %s HEAD" % REPO)
    sh("git checkout -- . && git clean -fdq", cwd=REPO)
    head = sh("git -C /repo rev-parse HEAD")[1].strip()
    sh("git checkout -q --detach %s" % head, cwd=REPO)  # the hooks the harness needs are those of /repo's HEAD
    # the machinery under evaluation: /verif's working tree, or a snapshot of a commit (SEED_REEVAL_SRC) so that "first run"
    # verdicts are not influenced by edits made while the evaluation is running
    src = os.environ.get("SEED_REEVAL_SRC", "/verif").rstrip("/")
    sh("rsync -a --delete --exclude .git --exclude .cache --exclude 'harness/target' --exclude evidence --exclude seeded %s/ %s/" % (src, VERIF))
    if src != "/verif" and os.path.exists("/verif/lean/.lake") and not os.path.exists(VERIF + "/lean/.lake"):
        sh("rsync -a /verif/lean/.lake %s/lean/" % VERIF)
    os.makedirs(VERIF + "/evidence", exist_ok=True)
    p = VERIF + "/harness/Cargo.toml"
    txt = open(p).read().replace('path = "/repo"', 'path = "%s"' % REPO)
    open(p, "w").write(txt)
    print(sh("cargo build --release --offline 2>&1 | tail -1", cwd=VERIF + "/harness")[1])


def main():
    prefixes = sys.argv[1:]
    prepare()
    ids = sorted(d for d in os.listdir("/verif/seeded") if os.path.exists("/verif/seeded/%s/patch.diff" % d))
    if prefixes:
        ids = [i for i in ids if any(i.startswith(p) for p in prefixes)]
    out_path = "/verif/seeded/RECHECK.json"
    res = json.load(open(out_path)) if os.path.exists(out_path) else {}
    for sid in ids:
        meta = json.load(open("/verif/seeded/%s/meta.json" % sid))
        target = meta.get("property") or sid[:3]
        sh("git checkout -- . && git clean -fdq", cwd=REPO)
        rc, o = sh("git apply /verif/seeded/%s/patch.diff" % sid, cwd=REPO)
        if rc != 0:
            # the change was written against an earlier HEAD (before a hook commit touched neighbouring lines)
            rc, o = sh("patch -p1 --fuzz=3 --no-backup-if-mismatch < /verif/seeded/%s/patch.diff" % sid, cwd=REPO)
        if rc != 0:
            res[sid] = {"target": target, "error": "patch does not apply: " + o[-200:]}
            continue
        flagged, with_input = [], []
        t0 = time.time()
        for pid in ([target] if TARGET_ONLY else PROPS):
            rc, o = sh("./check %s --tier quick" % pid, cwd=VERIF, env={"VERIF_REPO_OVERRIDE": REPO, "VERIF_SWEEP_NO_LEAN": "1", "HARNESS_HANG_SECS": "60"})
            if rc != 0:
                flagged.append(pid)
                v = [l for l in o.split("\n") if l.startswith("VIOLATION")]
                if v and "no-failing-input-found" not in v[0]:
                    with_input.append(pid)
        shutil.rmtree(VERIF + "/.cache/runs", ignore_errors=True)
        if TARGET_ONLY and sid in res and "flagged" in res[sid]:
            # keep the earlier full row, refresh the target's verdict
            prev = res[sid]
            flagged = sorted(set([p for p in prev["flagged"] if p != target] + flagged))
            with_input = sorted(set([p for p in prev["with_input"] if p != target] + with_input))
        res[sid] = {"target": target, "flagged": flagged, "with_input": with_input, "target_flagged": target in flagged,
                    "target_with_input": target in with_input, "wall": round(time.time() - t0, 1), "target_only_refresh": TARGET_ONLY}
        print(sid, "target", target, "flagged" if target in flagged else "MISSED", "input" if target in with_input else "-", flagged, flush=True)
        cur = json.load(open(out_path)) if os.path.exists(out_path) else {}
        cur[sid] = res[sid]
        res = cur
        json.dump(res, open(out_path, "w"), indent=1)
    sh("git checkout -- . && git clean -fdq", cwd=REPO)
    rows = ["| seed | target | checks raising VIOLATION (bold = with failing input) |", "|---|---|---|"]
    for sid in sorted(res):
        r = res[sid]
        if "flagged" not in r:
            rows.append("| %s | %s | %s |" % (sid, r["target"], r.get("error", "")))
            continue
        rows.append("| %s | %s | %s |" % (sid, r["target"], ", ".join(("**%s**" % p) if p in r["with_input"] else p for p in r["flagged"])))
    n = len([r for r in res.values() if "flagged" in r])
    tf = len([r for r in res.values() if r.get("target_flagged")])
    ti = len([r for r in res.values() if r.get("target_with_input")])
    any_in = len([r for r in res.values() if r.get("with_input")])
    head = "%d seeds re-evaluated: target property flagged %d, with a failing input on the target %d, with a failing input on some property %d\n\n" % (n, tf, ti, any_in)
    open("/verif/seeded/RECHECK.md", "w").write(head + "\n".join(rows) + "\n")
    print(head)


if __name__ == "__main__":
    main()

#!/usr/bin/env python3
"""Development-time tool: evaluate seeded mutants against the registered quick checks.
usage: seed_eval.py <property> <mutant_dir> <seed_id>
 1. verifies the mutant in a scratch worktree (/tmp/mv/wt): builds, passes the existing tests, demo fails with / passes without
 2. applies it to /repo, runs every registered quick check, records which raise VIOLATION, reverts /repo
 3. stores /verif/seeded/<seed_id>/{patch.diff,demo.rs,notes.md,meta.json}
"""
import json, os, shutil, subprocess, sys, time
prop, mdir, sid = sys.argv[1], sys.argv[2], sys.argv[3]
WT = "/tmp/mv/wt"
def sh(cmd, cwd=None, timeout=3600):
    e = dict(os.environ); e["CARGO_NET_OFFLINE"] = "true"
    p = subprocess.run(cmd, cwd=cwd, shell=True, env=e, stdout=subprocess.PIPE, stderr=subprocess.STDOUT, text=True, timeout=timeout)
    return p.returncode, p.stdout
patch = os.path.join(mdir, "patch.diff")
meta = {"seed_id": sid, "property": prop, "source_dir": mdir}
# --- 1. scratch verification
sh("git checkout -- . && rm -rf tests", cwd=WT)
rc, out = sh("git apply %s" % patch, cwd=WT)
meta["applies"] = rc == 0
if rc != 0:
    meta["apply_error"] = out[-500:]
    print(json.dumps(meta)); sys.exit(1)
rc, out = sh("cargo test --offline 2>&1 | grep -E '^test result|FAILED|^error' ", cwd=WT)
meta["tests_pass_with_mutant"] = ("FAILED" not in out) and ("error" not in out) and out.count("test result: ok") >= 2
meta["tests_output"] = out[-400:]
sh("mkdir -p tests && cp %s tests/demo.rs" % os.path.join(mdir, "demo.rs"), cwd=WT)
rc, out = sh("cargo test --offline --all-features --test demo 2>&1 | tail -5", cwd=WT)
meta["demo_fails_with_mutant"] = "test result: FAILED" in out or "panicked" in out
sh("git checkout -- src", cwd=WT)
rc, out = sh("cargo test --offline --all-features --test demo 2>&1 | tail -5", cwd=WT)
meta["demo_passes_without"] = "test result: ok" in out
sh("git checkout -- . && rm -rf tests", cwd=WT)
# --- 2. checks on /repo
man = json.load(open("/verif/MANIFEST.json"))
rc, out = sh("git -C /repo status --porcelain --untracked-files=no")
if out.strip():
    print("REPO NOT CLEAN, abort"); sys.exit(2)
rc, out = sh("git -C /repo apply %s" % patch)
flagged, results = [], {}
try:
    for c in man["checks"]:
        pid = c["property_id"]
        t0 = time.time()
        rc, o = sh(c["quick_cmd"], cwd="/verif")
        v = [l for l in o.split("\n") if l.startswith("VIOLATION")]
        results[pid] = {"rc": rc, "violation": v[:1], "wall": round(time.time() - t0, 1)}
        if rc != 0:
            flagged.append(pid)
finally:
    sh("git -C /repo checkout -- .")
meta["checks_flagging"] = flagged
meta["target_flagged"] = prop in flagged
meta["with_failing_input"] = [p for p in flagged if results[p]["violation"] and "no-failing-input-found" not in results[p]["violation"][0]]
meta["results"] = results
d = "/verif/seeded/%s" % sid
os.makedirs(d, exist_ok=True)
for f in ("patch.diff", "demo.rs", "notes.md"):
    if os.path.exists(os.path.join(mdir, f)):
        shutil.copy(os.path.join(mdir, f), os.path.join(d, f))
json.dump(meta, open(os.path.join(d, "meta.json"), "w"), indent=1)
print(sid, "verified:", meta["tests_pass_with_mutant"], meta["demo_fails_with_mutant"], meta["demo_passes_without"], "| target", prop, "flagged:", meta["target_flagged"], "| all flagged:", flagged, "| with input:", meta["with_failing_input"])

#!/usr/bin/env python3
"""Regenerates MANIFEST.json from registry.py (so that the manifest always lists exactly the claimed checks)."""
import json, os, subprocess
from registry import PROPS
ROOT = os.path.dirname(os.path.abspath(__file__))
ALL = ["C%02d" % i for i in range(1, 21)]
NOT_APPLICABLE = {}
hooks = subprocess.run(["git", "-C", "/repo", "log", "--format=%h %s"], stdout=subprocess.PIPE, text=True).stdout.strip().split("\n")
hook_commits = [l.split()[0] for l in hooks if l.split(" ", 1)[1].startswith("verif hooks")]
checks = []
for pid in ALL:
    if pid not in PROPS:
        continue
    p = PROPS[pid]
    checks.append({
        "property_id": pid,
        "quick_cmd": "./check %s --tier quick" % pid,
        "thorough_cmd": "./check %s --tier thorough" % pid,
        "evidence_file": "evidence/%s.json" % pid,
        "replay_cmd_template": "./check %s --replay {path}" % pid,
        "engine": "lean-proof",
        "level_claimed": {"category": "proof", "text": p["level_text"] + " Status: " + p["theorem_status"], "design_ref": "DESIGN.md §8 " + pid},
        "level_note": p["level_note"],
        "technique": "Lean 4 machine-checked proof about a hand-written model + model/implementation correspondence check (differential, exhaustive small scope + random) with independent validators for the failing-input search",
    })
m = {
    "version": 1,
    "setup_cmd": "cd /verif/lean && lake build SimilarVerif driver && cd /verif/harness && CARGO_NET_OFFLINE=true cargo build --release --offline",
    "hooks": {
        "guard": "similar_verif",
        "enable": "RUSTFLAGS=\"--cfg similar_verif\" (set in /verif/harness/.cargo/config.toml; the harness depends on /repo by path)",
        "baseline_off_cmd": "cd /repo && cargo test --workspace --no-fail-fast --offline",
        "source_commits": hook_commits,
        "add_only": True,
    },
    "engines": [
        {"name": "lean-proof", "path": "lean", "serves_properties": [c["property_id"] for c in checks],
         "kind_free_text": "Lean 4 model (SimilarVerif/Model), specs (Spec), lemmas and per-property theorems (Props); native driver speaking the line protocol of PROTOCOL.md"},
        {"name": "correspondence-harness", "path": "harness", "serves_properties": [c["property_id"] for c in checks],
         "kind_free_text": "Rust crate calling /repo in-process (cfg similar_verif): enumerators/generators, observation (recording hook, counting items, virtual clock), independent property validators"},
    ],
    "checks": checks,
    "notes": "Every check: lake build of the property's theorems + axiom audit (proof obligations), harness rebuilt against /repo's working tree, suites run on the implementation and through the Lean driver, verdict per DESIGN.md §5. Known findings: known_findings.json.",
    "not_applicable": [{"property_id": pid, "reason": NOT_APPLICABLE.get(pid, "not yet claimed: model/theorems/suites for this property are still being built in this session (no technique switch; it will be claimed at level proof)")}
                       for pid in ALL if pid not in PROPS],
}
json.dump(m, open(os.path.join(ROOT, "MANIFEST.json"), "w"), indent=1)
print("manifest: %d checks, %d not yet claimed" % (len(checks), len(m["not_applicable"])))

#!/usr/bin/env python3
"""Development-time tool: confirm a seeded change in a scratch worktree and store it (the checks are run by seed_reeval.py).
usage: seed_add.py <property> <mutant_dir> <seed_id>
 1. verifies the mutant in a scratch worktree (/tmp/mv/wt): builds, passes the existing tests, demo fails with / passes without
 2. applies it to /repo, runs every registered quick check, records which raise VIOLATION, reverts /repo
 3. stores /verif/seeded/<seed_id>/{patch.diff,demo.rs,notes.md,meta.json}
"""
import json, os, shutil, subprocess, sys, time
prop, mdir, sid = sys.argv[1], sys.argv[2], sys.argv[3]
WT = os.environ.get("SEED_ADD_WT", "/tmp/mv/wt")
if not os.path.exists(WT):
    os.makedirs(os.path.dirname(WT), exist_ok=True)
    subprocess.run("git -C /repo worktree add --detach %s HEAD" % WT, shell=True)
def sh(cmd, cwd=None, timeout=3600):
    e = dict(os.environ); e["CARGO_NET_OFFLINE"] = "true"
    p = subprocess.run(cmd, cwd=cwd, shell=True, env=e, stdout=subprocess.PIPE, stderr=subprocess.STDOUT, text=True, timeout=timeout)
    return p.returncode, p.stdout
patch = os.path.join(mdir, "patch.diff")
meta = {"seed_id": sid, "property": prop, "source_dir": mdir}
# --- 1. scratch verification
sh("git checkout -- . && rm -rf tests", cwd=WT)
sh("git checkout -q --detach $(git -C /repo rev-parse HEAD)", cwd=WT)
rc, out = sh("git apply %s" % patch, cwd=WT)
meta["applies"] = rc == 0
if rc != 0:
    meta["apply_error"] = out[-500:]
    print(json.dumps(meta)); sys.exit(1)
rc, out = sh("cargo test --offline 2>&1 | grep -E '^test result|FAILED|^error' ", cwd=WT)
meta["tests_pass_with_mutant"] = ("FAILED" not in out) and ("error" not in out) and out.count("test result: ok") >= 2
meta["tests_output"] = out[-400:]
sh("mkdir -p tests && cp %s tests/demo.rs" % os.path.join(mdir, "demo.rs"), cwd=WT)
rc, out = sh("cargo test --offline --all-features --test demo 2>&1 | tail -5", cwd=WT)
meta["demo_fails_with_mutant"] = "test result: FAILED" in out or "panicked" in out
sh("git checkout -- src", cwd=WT)
rc, out = sh("cargo test --offline --all-features --test demo 2>&1 | tail -5", cwd=WT)
meta["demo_passes_without"] = "test result: ok" in out
sh("git checkout -- . && rm -rf tests", cwd=WT)
meta["checks_flagging"] = None  # evaluated by seed_reeval.py (scratch copies), see seeded/RECHECK.json
d = "/verif/seeded/%s" % sid
os.makedirs(d, exist_ok=True)
for f in ("patch.diff", "demo.rs", "notes.md"):
    if os.path.exists(os.path.join(mdir, f)):
        shutil.copy(os.path.join(mdir, f), os.path.join(d, f))
json.dump(meta, open(os.path.join(d, "meta.json"), "w"), indent=1)
print(sid, "verified:", meta["tests_pass_with_mutant"], meta["demo_fails_with_mutant"], meta["demo_passes_without"])

//! Observation of the real code: counting items, offset lookups, a recording hook that can
//! fail at call k, the virtual clock, panic capture.
use std::cell::Cell;
use std::hash::{Hash, Hasher};
use std::ops::{Index, Range};
use std::panic::{catch_unwind, AssertUnwindSafe};

use similar::algorithms::{Compact, DiffHook, NoFinishHook, Replace};
use similar::{verif_hooks, Algorithm};

use crate::proto::Call;

thread_local! {
    static CROSS_CMPS: Cell<u64> = const { Cell::new(0) };
    static SAME_CMPS: Cell<u64> = const { Cell::new(0) };
    static AT_EXPIRY: Cell<Option<u64>> = const { Cell::new(None) };
    /// cross comparisons at the previous probe, and the largest number of cross comparisons between two consecutive probes
    static LAST_PROBE_AT: Cell<u64> = const { Cell::new(0) };
    static MAX_PROBE_GAP: Cell<u64> = const { Cell::new(0) };
}

fn on_probe() {
    let now = cross_cmps();
    let gap = now - LAST_PROBE_AT.with(|c| c.get());
    LAST_PROBE_AT.with(|c| c.set(now));
    MAX_PROBE_GAP.with(|c| c.set(c.get().max(gap)));
}
/// largest number of cross comparisons between two consecutive deadline probes (and before the first one) of the last run
pub fn max_probe_gap() -> u64 {
    MAX_PROBE_GAP.with(|c| c.get())
}

fn on_expiry() {
    AT_EXPIRY.with(|c| c.set(Some(cross_cmps())));
}
/// cross comparisons made before the first probe that answered "exceeded" (None: never expired)
pub fn cmps_at_expiry() -> Option<u64> {
    AT_EXPIRY.with(|c| c.get())
}

pub fn reset_counters() {
    CROSS_CMPS.with(|c| c.set(0));
    SAME_CMPS.with(|c| c.set(0));
    AT_EXPIRY.with(|c| c.set(None));
    LAST_PROBE_AT.with(|c| c.set(0));
    MAX_PROBE_GAP.with(|c| c.set(0));
}
pub fn cross_cmps() -> u64 {
    CROSS_CMPS.with(|c| c.get())
}
pub fn same_cmps() -> u64 {
    SAME_CMPS.with(|c| c.get())
}

/// item of the old sequence; `salt` perturbs the hash only (never equality)
#[derive(Clone, Copy, Debug, PartialOrd, Ord)]
pub struct OItem(pub u32, pub u32);
/// item of the new sequence
#[derive(Clone, Copy, Debug, PartialOrd, Ord)]
pub struct NItem(pub u32, pub u32);

impl PartialEq for OItem {
    fn eq(&self, o: &OItem) -> bool {
        SAME_CMPS.with(|c| c.set(c.get() + 1));
        self.0 == o.0
    }
}
impl Eq for OItem {}
impl PartialEq for NItem {
    fn eq(&self, o: &NItem) -> bool {
        SAME_CMPS.with(|c| c.set(c.get() + 1));
        self.0 == o.0
    }
}
impl Eq for NItem {}
impl PartialEq<OItem> for NItem {
    fn eq(&self, o: &OItem) -> bool {
        CROSS_CMPS.with(|c| c.set(c.get() + 1));
        self.0 == o.0
    }
}
/// salt `WEAK_HASH`: a lawful but heavily colliding hash (only the parity of the label);
/// salt `CONST_HASH`: every item hashes alike
pub const WEAK_HASH: u32 = u32::MAX;
pub const CONST_HASH: u32 = u32::MAX - 1;
/// salt `STR_HASH`: hash like a short string does (`write(bytes)` then `write_u8(0xff)`)
pub const STR_HASH: u32 = u32::MAX - 2;
fn item_hash<H: Hasher>(label: u32, salt: u32, h: &mut H) {
    if salt == STR_HASH {
        label.to_string().hash(h)
    } else if salt == WEAK_HASH {
        (label & 1).hash(h)
    } else if salt == CONST_HASH {
        7u32.hash(h)
    } else {
        (label ^ salt.wrapping_mul(0x9E37_79B9)).hash(h)
    }
}
impl Hash for OItem {
    fn hash<H: Hasher>(&self, h: &mut H) {
        item_hash(self.0, self.1, h)
    }
}
/// Under an odd ordinary salt the items of the new sequence hash differently from equal items of the old sequence:
/// the diff algorithms only require `New::Output: PartialEq<Old::Output>`, the hashes of the two types are unrelated.
/// (Never under salt 0: `IdentifyDistinct` keys ONE map by items of both types and so does need agreeing hashes.)
pub fn hetero_hash(salt: u32) -> bool {
    salt % 2 == 1 && salt < STR_HASH
}
impl Hash for NItem {
    fn hash<H: Hasher>(&self, h: &mut H) {
        item_hash(self.0, self.1, h);
        if hetero_hash(self.1) {
            0xabu8.hash(h)
        }
    }
}

/// a lookup that subtracts an offset (like `OffsetLookup`): panics below the offset and past the end
pub struct Off<T> {
    pub off: usize,
    pub v: Vec<T>,
}
impl<T> Index<usize> for Off<T> {
    type Output = T;
    fn index(&self, i: usize) -> &T {
        &self.v[i - self.off]
    }
}

#[derive(Debug, Clone, Copy, PartialEq, Eq)]
pub struct HookErr;

/// recording hook; fails at call number `fail_at` (0-based, counting every call it receives)
pub struct RecHook {
    pub trace: Vec<Call>,
    pub fail_at: Option<usize>,
}
impl RecHook {
    pub fn new(fail_at: Option<usize>) -> RecHook {
        RecHook { trace: vec![], fail_at }
    }
    fn push(&mut self, c: Call) -> Result<(), HookErr> {
        let k = self.trace.len();
        self.trace.push(c);
        if self.fail_at == Some(k) {
            Err(HookErr)
        } else {
            Ok(())
        }
    }
}
impl DiffHook for RecHook {
    type Error = HookErr;
    fn equal(&mut self, o: usize, n: usize, l: usize) -> Result<(), HookErr> {
        self.push(Call::Equal(o, n, l))
    }
    fn delete(&mut self, o: usize, l: usize, n: usize) -> Result<(), HookErr> {
        self.push(Call::Delete(o, l, n))
    }
    fn insert(&mut self, o: usize, n: usize, l: usize) -> Result<(), HookErr> {
        self.push(Call::Insert(o, n, l))
    }
    fn replace(&mut self, o: usize, ol: usize, n: usize, nl: usize) -> Result<(), HookErr> {
        self.push(Call::Replace(o, ol, n, nl))
    }
    fn finish(&mut self) -> Result<(), HookErr> {
        self.push(Call::Finish)
    }
}

/// the same hook without a `replace` override: must receive delete + insert
pub struct RecHookNoReplace(pub RecHook);
impl DiffHook for RecHookNoReplace {
    type Error = HookErr;
    fn equal(&mut self, o: usize, n: usize, l: usize) -> Result<(), HookErr> {
        self.0.push(Call::Equal(o, n, l))
    }
    fn delete(&mut self, o: usize, l: usize, n: usize) -> Result<(), HookErr> {
        self.0.push(Call::Delete(o, l, n))
    }
    fn insert(&mut self, o: usize, n: usize, l: usize) -> Result<(), HookErr> {
        self.0.push(Call::Insert(o, n, l))
    }
    fn finish(&mut self) -> Result<(), HookErr> {
        self.0.push(Call::Finish)
    }
}

#[derive(Clone, Copy, Debug, PartialEq, Eq, Hash)]
pub enum Stack {
    None,
    MutRef,
    NoFinish,
    Replace,
    Compact,
    CompactReplace,
    /// `Replace::new(NoFinishHook::new(hook))`: the wrapper must forward `replace` itself
    ReplaceNoFinish,
    /// `Replace::new(&mut hook)`: the `&mut D` forwarding impl must forward `replace` itself
    ReplaceMutRef,
    /// `Compact::new(Replace::new(&mut hook), ..)`
    CompactReplaceMutRef,
}
impl Stack {
    pub const ALL: [Stack; 9] = [
        Stack::None,
        Stack::MutRef,
        Stack::NoFinish,
        Stack::Replace,
        Stack::Compact,
        Stack::CompactReplace,
        Stack::ReplaceNoFinish,
        Stack::ReplaceMutRef,
        Stack::CompactReplaceMutRef,
    ];
    /// name in the request line; `&mut D` forwarding is the identity in the model
    pub fn name(&self) -> &'static str {
        match self {
            Stack::None | Stack::MutRef => "none",
            Stack::NoFinish => "nofinish",
            Stack::Replace | Stack::ReplaceMutRef => "replace",
            Stack::Compact => "compact",
            Stack::CompactReplace | Stack::CompactReplaceMutRef => "compactreplace",
            Stack::ReplaceNoFinish => "replacenofinish",
        }
    }
}

pub fn alg_name(a: Algorithm) -> &'static str {
    match a {
        Algorithm::Myers => "myers",
        Algorithm::Patience => "patience",
        Algorithm::Lcs => "lcs",
    }
}
pub const ALGS: [Algorithm; 3] = [Algorithm::Myers, Algorithm::Patience, Algorithm::Lcs];

#[derive(Clone, Debug, PartialEq, Eq)]
pub enum Status {
    Ok,
    HookErr,
    Panic,
}

#[derive(Clone, Debug)]
pub struct Outcome {
    pub status: Status,
    pub trace: Vec<Call>,
    pub cmps: u64,
    pub same_cmps: u64,
    pub probes: u64,
    pub at_expiry: Option<u64>,
    /// most cross comparisons between two consecutive deadline probes (0 without a deadline)
    pub max_probe_gap: u64,
}
impl Outcome {
    pub fn show(&self) -> String {
        match self.status {
            Status::Ok => format!("ok T={} c={} p={}", crate::proto::show_calls(&self.trace), self.cmps, self.probes),
            Status::HookErr => format!("err T={}", crate::proto::show_calls(&self.trace)),
            Status::Panic => "panic".to_string(),
        }
    }
}

/// one diff case
#[derive(Clone, Debug)]
pub struct Case {
    pub alg: Algorithm,
    pub stack: Stack,
    pub old: Vec<u32>,
    pub new: Vec<u32>,
    pub o_off: usize,
    pub n_off: usize,
    pub os: usize,
    pub oe: usize,
    pub ns: usize,
    pub ne: usize,
    /// virtual clock fuel; None = no deadline passed at all
    pub dl: Option<u64>,
    pub fail: Option<usize>,
    pub native_replace: bool,
    pub repair: bool,
    /// hash salt (changes hashes, not equality)
    pub salt: u32,
}

impl Case {
    pub fn full(alg: Algorithm, old: &[u32], new: &[u32]) -> Case {
        Case {
            alg,
            stack: Stack::None,
            old: old.to_vec(),
            new: new.to_vec(),
            o_off: 0,
            n_off: 0,
            os: 0,
            oe: old.len(),
            ns: 0,
            ne: new.len(),
            dl: None,
            fail: None,
            native_replace: true,
            repair: false,
            salt: 0,
        }
    }
    pub fn request(&self) -> String {
        format!(
            "diff {} {} {} {} {} {} | {} | {} | {} {} {} {}",
            alg_name(self.alg),
            self.stack.name(),
            crate::proto::opt(self.dl),
            crate::proto::opt(self.fail.map(|x| x as u64)),
            if self.native_replace { 1 } else { 0 },
            if self.repair { 1 } else { 0 },
            crate::proto::show_seq(self.o_off, &self.old),
            crate::proto::show_seq(self.n_off, &self.new),
            self.os,
            self.oe,
            self.ns,
            self.ne
        )
    }
}

fn run_alg<D: DiffHook, O, N>(
    alg: Algorithm,
    d: &mut D,
    old: &O,
    or: Range<usize>,
    new: &N,
    nr: Range<usize>,
    dl: Option<std::time::Instant>,
) -> Result<(), D::Error>
where
    O: Index<usize, Output = OItem> + ?Sized,
    N: Index<usize, Output = NItem> + ?Sized,
{
    similar::algorithms::diff_deadline(alg, d, old, or, new, nr, dl)
}

fn run_stack<H: DiffHook<Error = HookErr>, O, N>(
    c: &Case,
    mut h: H,
    old: &O,
    new: &N,
    dl: Option<std::time::Instant>,
    get: impl Fn(&H) -> Vec<Call>,
) -> (Result<(), HookErr>, Vec<Call>)
where
    O: Index<usize, Output = OItem> + ?Sized,
    N: Index<usize, Output = NItem> + ?Sized,
{
    let (or, nr) = (c.os..c.oe, c.ns..c.ne);
    match c.stack {
        Stack::None => {
            let r = run_alg(c.alg, &mut h, old, or, new, nr, dl);
            (r, get(&h))
        }
        Stack::MutRef => {
            let mut m = &mut h;
            let r = run_alg(c.alg, &mut m, old, or, new, nr, dl);
            (r, get(&h))
        }
        Stack::NoFinish => {
            let mut d = NoFinishHook::new(h);
            let r = run_alg(c.alg, &mut d, old, or, new, nr, dl);
            (r, get(&d.into_inner()))
        }
        Stack::Replace => {
            let mut d = Replace::new(h);
            let r = run_alg(c.alg, &mut d, old, or, new, nr, dl);
            (r, get(&d.into_inner()))
        }
        Stack::Compact => {
            let mut d = Compact::new(h, old, new);
            let r = run_alg(c.alg, &mut d, old, or, new, nr, dl);
            (r, get(&d.into_inner()))
        }
        Stack::CompactReplace => {
            let mut d = Compact::new(Replace::new(h), old, new);
            let r = run_alg(c.alg, &mut d, old, or, new, nr, dl);
            (r, get(&d.into_inner().into_inner()))
        }
        Stack::ReplaceNoFinish => {
            let mut d = Replace::new(NoFinishHook::new(h));
            let r = run_alg(c.alg, &mut d, old, or, new, nr, dl);
            (r, get(&d.into_inner().into_inner()))
        }
        Stack::ReplaceMutRef => {
            let r = {
                let mut d = Replace::new(&mut h);
                run_alg(c.alg, &mut d, old, or, new, nr, dl)
            };
            (r, get(&h))
        }
        Stack::CompactReplaceMutRef => {
            let r = {
                let mut d = Compact::new(Replace::new(&mut h), old, new);
                run_alg(c.alg, &mut d, old, or, new, nr, dl)
            };
            (r, get(&h))
        }
    }
}

fn run_lookups<O, N>(c: &Case, old: &O, new: &N, dl: Option<std::time::Instant>) -> (Result<(), HookErr>, Vec<Call>)
where
    O: Index<usize, Output = OItem> + ?Sized,
    N: Index<usize, Output = NItem> + ?Sized,
{
    if c.native_replace {
        run_stack(c, RecHook::new(c.fail), old, new, dl, |h| h.trace.clone())
    } else {
        run_stack(c, RecHookNoReplace(RecHook::new(c.fail)), old, new, dl, |h| h.0.trace.clone())
    }
}

/// installs the world (clock, repair switch, counters), runs `f`, captures a panic
pub fn with_world<T>(dl: Option<u64>, repair: bool, f: impl FnOnce(Option<std::time::Instant>) -> T) -> (Option<T>, u64, u64, u64) {
    reset_counters();
    verif_hooks::set_repair_swap(repair);
    let instant = match dl {
        Some(k) => {
            verif_hooks::install_clock(k);
            verif_hooks::set_expiry_callback(Some(on_expiry));
            verif_hooks::set_probe_callback(Some(on_probe));
            Some(std::time::Instant::now())
        }
        None => {
            verif_hooks::clear_clock();
            None
        }
    };
    let r = catch_unwind(AssertUnwindSafe(|| f(instant)));
    let probes = if dl.is_some() { verif_hooks::probes() } else { 0 };
    verif_hooks::clear_clock();
    verif_hooks::set_expiry_callback(None);
    verif_hooks::set_probe_callback(None);
    verif_hooks::set_repair_swap(false);
    (r.ok(), cross_cmps(), same_cmps(), probes)
}

/// Runs one case against the real code.
pub fn run_case(c: &Case) -> Outcome {
    let old: Vec<OItem> = c.old.iter().map(|&x| OItem(x, c.salt)).collect();
    let new: Vec<NItem> = c.new.iter().map(|&x| NItem(x, c.salt)).collect();
    let (r, cmps, same, probes) = with_world(c.dl, c.repair, |dl| {
        if c.o_off == 0 && c.n_off == 0 {
            run_lookups(c, &old[..], &new[..], dl)
        } else {
            let o = Off { off: c.o_off, v: old.clone() };
            let n = Off { off: c.n_off, v: new.clone() };
            run_lookups(c, &o, &n, dl)
        }
    });
    let at_expiry = cmps_at_expiry();
    let max_probe_gap = max_probe_gap();
    match r {
        None => Outcome { status: Status::Panic, trace: vec![], cmps, same_cmps: same, probes, at_expiry, max_probe_gap },
        Some((Ok(()), trace)) => Outcome { status: Status::Ok, trace, cmps, same_cmps: same, probes, at_expiry, max_probe_gap },
        Some((Err(HookErr), trace)) => Outcome { status: Status::HookErr, trace, cmps, same_cmps: same, probes, at_expiry, max_probe_gap },
    }
}

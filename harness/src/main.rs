//! Correspondence harness: runs the real `similar` on enumerated / generated cases, writes the
//! request lines for the Lean driver and the implementation's canonical answers, and runs the
//! independent property validators on what the implementation returned.
mod obs;
mod oracle;
mod proto;
mod rng;
mod suites;

use std::collections::BTreeMap;
use std::fs::File;
use std::io::{BufWriter, Write};

#[derive(Clone, Copy, PartialEq, Eq, Debug)]
pub enum Tier {
    Quick,
    Thorough,
}

pub struct Violation {
    pub property: String,
    pub request: String,
    pub detail: String,
    /// id of the known finding this failure is attributed to (None: not a known finding)
    pub known: Option<String>,
}

pub struct Ctx {
    pub tier: Tier,
    pub seed: u64,
    pub shard: usize,
    pub nshards: usize,
    idx: u64,
    req: BufWriter<File>,
    imp: BufWriter<File>,
    pub violations: Vec<Violation>,
    pub stats: BTreeMap<String, u64>,
    pub samples: Vec<String>,
    pub emitted: u64,
    pub nontrivial: std::collections::HashSet<u64>,
}

impl Ctx {
    /// true if the next case belongs to this shard
    pub fn take(&mut self) -> bool {
        let mine = (self.idx % self.nshards as u64) as usize == self.shard;
        self.idx += 1;
        mine
    }
    pub fn case_index(&self) -> u64 {
        self.idx
    }
    pub fn emit(&mut self, req: &str, imp: &str) {
        writeln!(self.req, "{}", req).unwrap();
        writeln!(self.imp, "{}", imp).unwrap();
        self.emitted += 1;
        if self.samples.len() < 3 && self.emitted % 977 == 1 {
            self.samples.push(format!("{}  =>  {}", req, imp));
        }
    }
    pub fn count(&mut self, key: &str) {
        *self.stats.entry(key.to_string()).or_insert(0) += 1;
    }
    pub fn add(&mut self, key: &str, n: u64) {
        *self.stats.entry(key.to_string()).or_insert(0) += n;
    }
    pub fn max(&mut self, key: &str, n: u64) {
        let e = self.stats.entry(key.to_string()).or_insert(0);
        if n > *e {
            *e = n;
        }
    }
    /// record a distinct non-trivial case (by hash of its canonical request)
    pub fn nontrivial(&mut self, req: &str) {
        use std::hash::{Hash, Hasher};
        let mut h = std::collections::hash_map::DefaultHasher::new();
        req.hash(&mut h);
        self.nontrivial.insert(h.finish());
    }
    pub fn violation(&mut self, property: &str, request: &str, detail: String) {
        self.violation_k(property, request, detail, None)
    }
    pub fn violation_k(&mut self, property: &str, request: &str, detail: String, known: Option<&str>) {
        // stored examples are capped per (property, known id): entries of the known-findings file must never
        // crowd out a violation that is not listed there
        let same = self.violations.iter().filter(|v| v.property == property && v.known.as_deref() == known).count();
        if same < if known.is_some() { 40 } else { 200 } {
            self.violations.push(Violation {
                property: property.to_string(),
                request: request.to_string(),
                detail,
                known: known.map(|s| s.to_string()),
            });
        }
        self.count(&format!("violations.{}{}", property, if known.is_some() { ".known" } else { "" }));
    }
}

pub fn json_str(s: &str) -> String {
    let mut o = String::from("\"");
    for c in s.chars() {
        match c {
            '"' => o.push_str("\\\""),
            '\\' => o.push_str("\\\\"),
            '\n' => o.push_str("\\n"),
            '\r' => o.push_str("\\r"),
            '\t' => o.push_str("\\t"),
            c if (c as u32) < 0x20 => o.push_str(&format!("\\u{:04x}", c as u32)),
            c => o.push(c),
        }
    }
    o.push('"');
    o
}

pub fn new_ctx(path: &str) -> Ctx {
    Ctx {
        tier: Tier::Quick,
        seed: 0,
        shard: 0,
        nshards: 1,
        idx: 0,
        req: BufWriter::new(File::create(path).unwrap()),
        imp: BufWriter::new(File::create(path).unwrap()),
        violations: vec![],
        stats: BTreeMap::new(),
        samples: vec![],
        emitted: 0,
        nontrivial: Default::default(),
    }
}

fn run_shard(suite: &str, tier: Tier, seed: u64, shard: usize, nshards: usize, out: &str) {
    let req = BufWriter::new(File::create(format!("{}/{}.{}.req", out, suite, shard)).unwrap());
    let imp = BufWriter::new(File::create(format!("{}/{}.{}.impl", out, suite, shard)).unwrap());
    let mut ctx = Ctx {
        tier,
        seed,
        shard,
        nshards,
        idx: 0,
        req,
        imp,
        violations: vec![],
        stats: BTreeMap::new(),
        samples: vec![],
        emitted: 0,
        nontrivial: Default::default(),
    };
    suites::run(suite, &mut ctx);
    ctx.req.flush().unwrap();
    ctx.imp.flush().unwrap();
    let mut m = File::create(format!("{}/{}.{}.meta.json", out, suite, shard)).unwrap();
    let viol: Vec<String> = ctx
        .violations
        .iter()
        .map(|v| {
            format!(
                "{{\"property\":{},\"request\":{},\"detail\":{},\"known\":{}}}",
                json_str(&v.property),
                json_str(&v.request),
                json_str(&v.detail),
                match &v.known {
                    Some(k) => json_str(k),
                    None => "null".to_string(),
                }
            )
        })
        .collect();
    let stats: Vec<String> = ctx.stats.iter().map(|(k, v)| format!("{}:{}", json_str(k), v)).collect();
    let samples: Vec<String> = ctx.samples.iter().map(|s| json_str(s)).collect();
    let nt: Vec<String> = ctx.nontrivial.iter().map(|h| h.to_string()).collect();
    writeln!(
        m,
        "{{\"suite\":{},\"shard\":{},\"cases\":{},\"emitted\":{},\"violations\":[{}],\"stats\":{{{}}},\"samples\":[{}],\"nontrivial_hashes\":[{}]}}",
        json_str(suite),
        shard,
        ctx.idx,
        ctx.emitted,
        viol.join(","),
        stats.join(","),
        samples.join(","),
        nt.join(",")
    )
    .unwrap();
}

fn main() {
    if std::env::var("HARNESS_VERBOSE_PANIC").is_err() {
        std::panic::set_hook(Box::new(|_| {}));
    }
    let args: Vec<String> = std::env::args().collect();
    if args.len() >= 3 && args[1] == "replay" {
        suites::replay(&args[2]);
        return;
    }
    if args.len() < 6 {
        eprintln!("usage: harness <suite> <quick|thorough> <seed> <nshards> <outdir> | harness replay <request line>");
        std::process::exit(2);
    }
    let suite = args[1].clone();
    let tier = if args[2] == "thorough" { Tier::Thorough } else { Tier::Quick };
    let seed: u64 = args[3].parse().unwrap_or(0);
    let nshards: usize = args[4].parse().unwrap_or(1);
    let out = args[5].clone();
    std::fs::create_dir_all(&out).unwrap();
    let mut handles = vec![];
    for shard in 0..nshards {
        let (suite, out) = (suite.clone(), out.clone());
        handles.push(
            std::thread::Builder::new()
                .stack_size(256 << 20)
                .spawn(move || run_shard(&suite, tier, seed, shard, nshards, &out))
                .unwrap(),
        );
    }
    let mut bad = false;
    for h in handles {
        if h.join().is_err() {
            bad = true;
        }
    }
    if bad {
        eprintln!("harness: a shard thread died");
        std::process::exit(3);
    }
}

//! Correspondence harness: runs the real `similar` on enumerated / generated cases, writes the
//! request lines for the Lean driver and the implementation's canonical answers, and runs the
//! independent property validators on what the implementation returned.
mod obs;
mod oracle;
mod proto;
mod rng;
mod suites;

use std::collections::BTreeMap;
use std::fs::File;
use std::io::{BufWriter, Write};
use std::sync::atomic::{AtomicBool, AtomicU64, Ordering};
use std::sync::Mutex;

/// progress heartbeat per shard (cases taken + answers emitted), read by the hang watchdog
const MAX_SHARDS: usize = 64;
#[allow(clippy::declare_interior_mutable_const)]
const ZERO: AtomicU64 = AtomicU64::new(0);
#[allow(clippy::declare_interior_mutable_const)]
const FALSE: AtomicBool = AtomicBool::new(false);
static PROGRESS: [AtomicU64; MAX_SHARDS] = [ZERO; MAX_SHARDS];
static CASE_IDX: [AtomicU64; MAX_SHARDS] = [ZERO; MAX_SHARDS];
static SHARD_DONE: [AtomicBool; MAX_SHARDS] = [FALSE; MAX_SHARDS];
static LAST_REQ: Mutex<Vec<String>> = Mutex::new(Vec::new());

#[derive(Clone, Copy, PartialEq, Eq, Debug)]
pub enum Tier {
    Quick,
    Thorough,
}

pub struct Violation {
    pub property: String,
    pub request: String,
    pub detail: String,
    /// id of the known finding this failure is attributed to (None: not a known finding)
    pub known: Option<String>,
}

pub struct Ctx {
    pub tier: Tier,
    pub seed: u64,
    pub shard: usize,
    pub nshards: usize,
    idx: u64,
    /// replay of a single case (hang replay): only the case with this index is run
    only: Option<u64>,
    req: BufWriter<File>,
    imp: BufWriter<File>,
    pub violations: Vec<Violation>,
    pub stats: BTreeMap<String, u64>,
    pub samples: Vec<String>,
    pub emitted: u64,
    pub nontrivial: std::collections::HashSet<u64>,
}

impl Ctx {
    /// true if the next case belongs to this shard
    pub fn take(&mut self) -> bool {
        let mut mine = (self.idx % self.nshards as u64) as usize == self.shard;
        if let Some(only) = self.only {
            mine = mine && self.idx == only;
        }
        if mine {
            CASE_IDX[self.shard % MAX_SHARDS].store(self.idx, Ordering::Relaxed);
            PROGRESS[self.shard % MAX_SHARDS].fetch_add(1, Ordering::Relaxed);
        }
        self.idx += 1;
        mine
    }
    pub fn case_index(&self) -> u64 {
        self.idx
    }
    pub fn emit(&mut self, req: &str, imp: &str) {
        writeln!(self.req, "{}", req).unwrap();
        writeln!(self.imp, "{}", imp).unwrap();
        self.emitted += 1;
        PROGRESS[self.shard % MAX_SHARDS].fetch_add(1, Ordering::Relaxed);
        if self.emitted % 64 == 0 || self.only.is_some() {
            if let Ok(mut l) = LAST_REQ.lock() {
                if l.len() <= self.shard {
                    l.resize(self.shard + 1, String::new());
                }
                l[self.shard].clear();
                let mut cut = req.len().min(400);
                while !req.is_char_boundary(cut) {
                    cut -= 1;
                }
                l[self.shard].push_str(&req[..cut]);
            }
        }
        if self.samples.len() < 3 && self.emitted % 977 == 1 {
            self.samples.push(format!("{}  =>  {}", req, imp));
        }
    }
    pub fn count(&mut self, key: &str) {
        *self.stats.entry(key.to_string()).or_insert(0) += 1;
    }
    pub fn add(&mut self, key: &str, n: u64) {
        *self.stats.entry(key.to_string()).or_insert(0) += n;
    }
    pub fn max(&mut self, key: &str, n: u64) {
        let e = self.stats.entry(key.to_string()).or_insert(0);
        if n > *e {
            *e = n;
        }
    }
    /// record a distinct non-trivial case (by hash of its canonical request)
    pub fn nontrivial(&mut self, req: &str) {
        use std::hash::{Hash, Hasher};
        let mut h = std::collections::hash_map::DefaultHasher::new();
        req.hash(&mut h);
        self.nontrivial.insert(h.finish());
    }
    pub fn violation(&mut self, property: &str, request: &str, detail: String) {
        self.violation_k(property, request, detail, None)
    }
    pub fn violation_k(&mut self, property: &str, request: &str, detail: String, known: Option<&str>) {
        // stored examples are capped per (property, known id): entries of the known-findings file must never
        // crowd out a violation that is not listed there
        let same = self.violations.iter().filter(|v| v.property == property && v.known.as_deref() == known).count();
        if same < if known.is_some() { 40 } else { 200 } {
            self.violations.push(Violation {
                property: property.to_string(),
                request: request.to_string(),
                detail,
                known: known.map(|s| s.to_string()),
            });
        }
        self.count(&format!("violations.{}{}", property, if known.is_some() { ".known" } else { "" }));
    }
}

pub fn json_str(s: &str) -> String {
    let mut o = String::from("\"");
    for c in s.chars() {
        match c {
            '"' => o.push_str("\\\""),
            '\\' => o.push_str("\\\\"),
            '\n' => o.push_str("\\n"),
            '\r' => o.push_str("\\r"),
            '\t' => o.push_str("\\t"),
            c if (c as u32) < 0x20 => o.push_str(&format!("\\u{:04x}", c as u32)),
            c => o.push(c),
        }
    }
    o.push('"');
    o
}

pub fn new_ctx(path: &str) -> Ctx {
    Ctx {
        tier: Tier::Quick,
        seed: 0,
        shard: 0,
        nshards: 1,
        idx: 0,
        only: None,
        req: BufWriter::new(File::create(path).unwrap()),
        imp: BufWriter::new(File::create(path).unwrap()),
        violations: vec![],
        stats: BTreeMap::new(),
        samples: vec![],
        emitted: 0,
        nontrivial: Default::default(),
    }
}

fn run_shard(suite: &str, tier: Tier, seed: u64, shard: usize, nshards: usize, out: &str, only: Option<u64>) {
    let req = BufWriter::new(File::create(format!("{}/{}.{}.req", out, suite, shard)).unwrap());
    let imp = BufWriter::new(File::create(format!("{}/{}.{}.impl", out, suite, shard)).unwrap());
    let mut ctx = Ctx {
        tier,
        seed,
        shard,
        nshards,
        idx: 0,
        only,
        req,
        imp,
        violations: vec![],
        stats: BTreeMap::new(),
        samples: vec![],
        emitted: 0,
        nontrivial: Default::default(),
    };
    suites::run(suite, &mut ctx);
    SHARD_DONE[shard % MAX_SHARDS].store(true, Ordering::Relaxed);
    ctx.req.flush().unwrap();
    ctx.imp.flush().unwrap();
    let mut m = File::create(format!("{}/{}.{}.meta.json", out, suite, shard)).unwrap();
    let viol: Vec<String> = ctx
        .violations
        .iter()
        .map(|v| {
            format!(
                "{{\"property\":{},\"request\":{},\"detail\":{},\"known\":{}}}",
                json_str(&v.property),
                json_str(&v.request),
                json_str(&v.detail),
                match &v.known {
                    Some(k) => json_str(k),
                    None => "null".to_string(),
                }
            )
        })
        .collect();
    let stats: Vec<String> = ctx.stats.iter().map(|(k, v)| format!("{}:{}", json_str(k), v)).collect();
    let samples: Vec<String> = ctx.samples.iter().map(|s| json_str(s)).collect();
    let nt: Vec<String> = ctx.nontrivial.iter().map(|h| h.to_string()).collect();
    writeln!(
        m,
        "{{\"suite\":{},\"shard\":{},\"cases\":{},\"emitted\":{},\"violations\":[{}],\"stats\":{{{}}},\"samples\":[{}],\"nontrivial_hashes\":[{}]}}",
        json_str(suite),
        shard,
        ctx.idx,
        ctx.emitted,
        viol.join(","),
        stats.join(","),
        samples.join(","),
        nt.join(",")
    )
    .unwrap();
}

/// A stack overflow, a failed allocation, an abort inside the library kills the whole process; `catch_unwind` cannot help.
/// This handler (async-signal-safe: atomics, a stack buffer, `write`, `_exit`) prints which case every shard was running,
/// so that `check` can re-run those few cases one by one (`hangcase`) and name the one that does not survive.
extern "C" fn on_fatal_signal(sig: libc::c_int) {
    let mut buf = [0u8; 1400];
    let mut n = 0usize;
    let mut put = |b: &[u8], n: &mut usize| {
        for &x in b {
            if *n < 1399 {
                buf[*n] = x;
                *n += 1;
            }
        }
    };
    let num = |mut v: u64, out: &mut [u8; 20]| -> usize {
        let mut i = 20;
        loop {
            i -= 1;
            out[i] = b'0' + (v % 10) as u8;
            v /= 10;
            if v == 0 {
                break;
            }
        }
        i
    };
    put(b"\nHARNESS-CRASH signal=", &mut n);
    let mut d = [0u8; 20];
    let i = num(sig as u64, &mut d);
    put(&d[i..], &mut n);
    put(b" cases=", &mut n);
    for sh in 0..MAX_SHARDS {
        let mut d = [0u8; 20];
        let v = if SHARD_DONE[sh].load(Ordering::Relaxed) { u64::MAX } else { CASE_IDX[sh].load(Ordering::Relaxed) };
        if v == u64::MAX {
            put(b"-", &mut n);
        } else {
            let i = num(v, &mut d);
            put(&d[i..], &mut n);
        }
        put(if sh + 1 < MAX_SHARDS { b"," } else { b"\n" }, &mut n);
    }
    unsafe {
        libc::write(2, buf.as_ptr() as *const libc::c_void, n);
        libc::_exit(7);
    }
}

fn install_crash_handler() {
    unsafe {
        for sig in [libc::SIGABRT, libc::SIGSEGV, libc::SIGBUS, libc::SIGILL] {
            let mut sa: libc::sigaction = std::mem::zeroed();
            sa.sa_sigaction = on_fatal_signal as usize;
            sa.sa_flags = libc::SA_ONSTACK | libc::SA_RESETHAND;
            libc::sigemptyset(&mut sa.sa_mask);
            libc::sigaction(sig, &sa, std::ptr::null_mut());
        }
    }
}

fn main() {
    if std::env::var("HARNESS_VERBOSE_PANIC").is_err() {
        std::panic::set_hook(Box::new(|_| {}));
    }
    install_crash_handler();
    let args: Vec<String> = std::env::args().collect();
    if args.len() >= 2 && args[1] == "crashtest" {
        // self-test of the crash handler: overflow the stack of a worker thread
        #[allow(unconditional_recursion)]
        fn deep(x: u64) -> u64 {
            let a = [x; 64];
            std::hint::black_box(&a);
            deep(x + 1) + a[3]
        }
        CASE_IDX[2].store(4711, Ordering::Relaxed);
        let h = std::thread::Builder::new().stack_size(1 << 20).spawn(|| deep(1)).unwrap();
        let _ = h.join();
        return;
    }
    if args.len() >= 3 && args[1] == "replay" {
        suites::replay(&args[2]);
        return;
    }
    if args.len() >= 3 && args[1] == "search" {
        // `harness search <request> [<out.json>]`: validators on amplified variants of the request; one JSON line per failure
        let mut ctx = new_ctx("/dev/null");
        let line = args[2].clone();
        let r = std::thread::Builder::new().stack_size(256 << 20).spawn(move || {
            suites::search(&line, &mut ctx);
            ctx.violations.iter().map(|v| format!("{{\"property\":{},\"request\":{},\"detail\":{},\"known\":{}}}", json_str(&v.property), json_str(&v.request), json_str(&v.detail), match &v.known { Some(k) => json_str(k), None => "null".to_string() })).collect::<Vec<_>>()
        }).unwrap().join();
        match r {
            Ok(lines) => {
                for l in lines {
                    println!("SEARCH-VIOLATION {}", l);
                }
            }
            Err(_) => println!("SEARCH-DIED"),
        }
        return;
    }
    if args.len() < 6 || (args[1] == "hangcase" && args.len() < 9) {
        eprintln!("usage: harness <suite> <quick|thorough> <seed> <nshards> <outdir> | harness replay <request line>");
        std::process::exit(2);
    }
    // `harness hangcase <suite> <tier> <seed> <nshards> <outdir> <shard> <case index>`: run exactly one case
    let (only, base) = if args[1] == "hangcase" && args.len() >= 9 {
        (Some((args[7].parse::<usize>().unwrap_or(0), args[8].parse::<u64>().unwrap_or(0))), 2)
    } else {
        (None, 1)
    };
    let suite = args[base].clone();
    let tier = if args[base + 1] == "thorough" { Tier::Thorough } else { Tier::Quick };
    let seed: u64 = args[base + 2].parse().unwrap_or(0);
    let nshards: usize = args[base + 3].parse().unwrap_or(1).min(MAX_SHARDS);
    let out = args[base + 4].clone();
    std::fs::create_dir_all(&out).unwrap();
    // hang watchdog: a shard that neither takes a case nor emits an answer for HARNESS_HANG_SECS seconds
    // is reported (suite, shard, case index, last request written) and the process exits with code 4
    let hang_secs: u64 = std::env::var("HARNESS_HANG_SECS").ok().and_then(|s| s.parse().ok()).unwrap_or(match tier {
        Tier::Quick => 240,
        Tier::Thorough => 900,
    });
    {
        let (suite, out) = (suite.clone(), out.clone());
        std::thread::spawn(move || {
            let mut last = vec![(0u64, std::time::Instant::now()); MAX_SHARDS];
            loop {
                std::thread::sleep(std::time::Duration::from_millis(500));
                for sh in 0..nshards {
                    if let Some((s, _)) = only {
                        if s != sh {
                            continue;
                        }
                    }
                    if SHARD_DONE[sh].load(Ordering::Relaxed) {
                        continue;
                    }
                    let p = PROGRESS[sh].load(Ordering::Relaxed);
                    if p != last[sh].0 {
                        last[sh] = (p, std::time::Instant::now());
                    } else if last[sh].1.elapsed().as_secs() >= hang_secs {
                        let lr = LAST_REQ.lock().map(|l| l.get(sh).cloned().unwrap_or_default()).unwrap_or_default();
                        let msg = format!(
                            "{{\"suite\":{},\"shard\":{},\"nshards\":{},\"seed\":{},\"tier\":{},\"case_index\":{},\"stalled_secs\":{},\"last_request_written_by_shard\":{}}}",
                            json_str(&suite),
                            sh,
                            nshards,
                            seed,
                            json_str(if tier == Tier::Thorough { "thorough" } else { "quick" }),
                            CASE_IDX[sh].load(Ordering::Relaxed),
                            hang_secs,
                            json_str(&lr)
                        );
                        let _ = std::fs::write(format!("{}/{}.hang.json", out, suite), &msg);
                        eprintln!("harness: HANG {}", msg);
                        std::process::exit(4);
                    }
                }
            }
        });
    }
    let mut handles = vec![];
    for shard in 0..nshards {
        let one = match only {
            Some((s, i)) => {
                if s != shard {
                    continue;
                }
                Some(i)
            }
            None => None,
        };
        let (suite, out) = (suite.clone(), out.clone());
        handles.push(
            std::thread::Builder::new()
                .stack_size(256 << 20)
                .spawn(move || run_shard(&suite, tier, seed, shard, nshards, &out, one))
                .unwrap(),
        );
    }
    let mut bad = false;
    for h in handles {
        if h.join().is_err() {
            bad = true;
        }
    }
    if bad {
        eprintln!("harness: a shard thread died");
        std::process::exit(3);
    }
    if only.is_some() {
        let lr = LAST_REQ.lock().map(|l| l.iter().find(|s| !s.is_empty()).cloned().unwrap_or_default()).unwrap_or_default();
        println!("case returned; last request written: {}", lr);
    }
}

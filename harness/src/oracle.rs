//! Independent validators of the properties themselves, run on what the implementation returned.
//! They never look at the model.
use crate::proto::Call;

pub type V = Result<(), String>;

fn err<T>(s: String) -> Result<T, String> {
    Err(s)
}

/// C01/C02 walk: primary indices exact, nothing empty, equal segments element-wise equal,
/// ends at both range ends.  `allow_empty`: C02 does not speak about empty ops (C09 does).
pub fn walk(old: &[u32], new: &[u32], o_off: usize, n_off: usize, r: (usize, usize, usize, usize), calls: &[Call], allow_empty: bool) -> V {
    let (os, oe, ns, ne) = r;
    let (mut o, mut n) = (os, ns);
    let og = |i: usize| -> Option<u32> { i.checked_sub(o_off).and_then(|j| old.get(j).copied()) };
    let ng = |i: usize| -> Option<u32> { i.checked_sub(n_off).and_then(|j| new.get(j).copied()) };
    for (idx, c) in calls.iter().enumerate() {
        match *c {
            Call::Equal(co, cn, len) => {
                if co != o || cn != n {
                    return err(format!("call {} {}: expected position ({},{})", idx, c.show(), o, n));
                }
                if len == 0 && !allow_empty {
                    return err(format!("call {} {}: empty", idx, c.show()));
                }
                if o + len > oe || n + len > ne {
                    return err(format!("call {} {}: leaves the range", idx, c.show()));
                }
                for t in 0..len {
                    if og(o + t).is_none() || og(o + t) != ng(n + t) {
                        return err(format!("call {} {}: items at offset {} differ", idx, c.show(), t));
                    }
                }
                o += len;
                n += len;
            }
            Call::Delete(co, len, _) => {
                if co != o {
                    return err(format!("call {} {}: expected old position {}", idx, c.show(), o));
                }
                if len == 0 && !allow_empty {
                    return err(format!("call {} {}: empty", idx, c.show()));
                }
                if o + len > oe {
                    return err(format!("call {} {}: leaves the range", idx, c.show()));
                }
                o += len;
            }
            Call::Insert(_, cn, len) => {
                if cn != n {
                    return err(format!("call {} {}: expected new position {}", idx, c.show(), n));
                }
                if len == 0 && !allow_empty {
                    return err(format!("call {} {}: empty", idx, c.show()));
                }
                if n + len > ne {
                    return err(format!("call {} {}: leaves the range", idx, c.show()));
                }
                n += len;
            }
            Call::Replace(co, ol, cn, nl) => {
                if co != o || cn != n {
                    return err(format!("call {} {}: expected position ({},{})", idx, c.show(), o, n));
                }
                if ol + nl == 0 && !allow_empty {
                    return err(format!("call {} {}: empty", idx, c.show()));
                }
                if o + ol > oe || n + nl > ne {
                    return err(format!("call {} {}: leaves the range", idx, c.show()));
                }
                o += ol;
                n += nl;
            }
            Call::Finish => return err(format!("call {}: finish inside the script", idx)),
        }
    }
    if o != oe || n != ne {
        return err(format!("script ends at ({},{}) instead of ({},{})", o, n, oe, ne));
    }
    Ok(())
}

/// C01 carried indices: within each maximal run of delete/insert/replace calls spanning
/// (o0,n0)..(o1,n1), a delete's new index lies in [n0,n1] and an insert's old index in [o0,o1].
pub fn carried_run_relative(r: (usize, usize, usize, usize), calls: &[Call]) -> V {
    let (mut o, mut n) = (r.0, r.2);
    let mut i = 0;
    while i < calls.len() {
        match calls[i] {
            Call::Equal(_, _, len) => {
                o += len;
                n += len;
                i += 1;
            }
            Call::Finish => i += 1,
            _ => {
                let (o0, n0) = (o, n);
                let mut j = i;
                while j < calls.len() {
                    match calls[j] {
                        Call::Delete(_, l, _) => o += l,
                        Call::Insert(_, _, l) => n += l,
                        Call::Replace(_, ol, _, nl) => {
                            o += ol;
                            n += nl
                        }
                        _ => break,
                    }
                    j += 1;
                }
                for c in &calls[i..j] {
                    match *c {
                        Call::Delete(_, _, cn) if cn < n0 || cn > n => {
                            return err(format!("{}: carried new index outside its run [{},{}]", c.show(), n0, n))
                        }
                        Call::Insert(co, _, _) if co < o0 || co > o => {
                            return err(format!("{}: carried old index outside its run [{},{}]", c.show(), o0, o))
                        }
                        _ => {}
                    }
                }
                i = j;
            }
        }
    }
    Ok(())
}

/// C11 / C10: every index of every op is the exact current position.
pub fn carried_exact(r: (usize, usize, usize, usize), calls: &[Call]) -> V {
    let (mut o, mut n) = (r.0, r.2);
    for c in calls {
        match *c {
            Call::Equal(co, cn, len) => {
                if co != o || cn != n {
                    return err(format!("{}: true position ({},{})", c.show(), o, n));
                }
                o += len;
                n += len;
            }
            Call::Delete(co, len, cn) => {
                if co != o || cn != n {
                    return err(format!("{}: true position ({},{})", c.show(), o, n));
                }
                o += len;
            }
            Call::Insert(co, cn, len) => {
                if co != o || cn != n {
                    return err(format!("{}: true position ({},{})", c.show(), o, n));
                }
                n += len;
            }
            Call::Replace(co, ol, cn, nl) => {
                if co != o || cn != n {
                    return err(format!("{}: true position ({},{})", c.show(), o, n));
                }
                o += ol;
                n += nl;
            }
            Call::Finish => {}
        }
    }
    Ok(())
}

/// replay the calls on old: must give new[ns..ne] (and inverted: old[os..oe])
pub fn replay(old: &[u32], new: &[u32], o_off: usize, n_off: usize, r: (usize, usize, usize, usize), calls: &[Call]) -> V {
    let mut fwd = vec![];
    let mut bwd = vec![];
    let og = |i: usize| -> Option<u32> { i.checked_sub(o_off).and_then(|j| old.get(j).copied()) };
    let ng = |i: usize| -> Option<u32> { i.checked_sub(n_off).and_then(|j| new.get(j).copied()) };
    for c in calls {
        match *c {
            Call::Equal(co, cn, len) => {
                for t in 0..len {
                    fwd.push(og(co + t));
                    bwd.push(ng(cn + t));
                }
            }
            Call::Delete(co, len, _) => {
                for t in 0..len {
                    bwd.push(og(co + t));
                }
            }
            Call::Insert(_, cn, len) => {
                for t in 0..len {
                    fwd.push(ng(cn + t));
                }
            }
            Call::Replace(co, ol, cn, nl) => {
                for t in 0..ol {
                    bwd.push(og(co + t));
                }
                for t in 0..nl {
                    fwd.push(ng(cn + t));
                }
            }
            Call::Finish => {}
        }
    }
    let want_new: Vec<Option<u32>> = (r.2..r.3).map(ng).collect();
    let want_old: Vec<Option<u32>> = (r.0..r.1).map(og).collect();
    if fwd != want_new {
        return err("replaying the script on old does not give new".to_string());
    }
    if bwd != want_old {
        return err("replaying the inverted script on new does not give old".to_string());
    }
    Ok(())
}

/// exactly one finish, and it is the last call
pub fn finish_once_last(trace: &[Call]) -> V {
    let k = trace.iter().filter(|c| **c == Call::Finish).count();
    if k != 1 {
        return err(format!("{} finish calls", k));
    }
    if trace.last() != Some(&Call::Finish) {
        return err("finish is not the last call".to_string());
    }
    Ok(())
}

pub fn strip_finish(trace: &[Call]) -> Vec<Call> {
    trace.iter().copied().filter(|c| *c != Call::Finish).collect()
}

/// brute-force LCS length of old[os..oe] vs new[ns..ne]
pub fn lcs_len(a: &[u32], b: &[u32]) -> usize {
    let mut prev = vec![0usize; b.len() + 1];
    for i in 0..a.len() {
        let mut cur = vec![0usize; b.len() + 1];
        for j in 0..b.len() {
            cur[j + 1] = if a[i] == b[j] { prev[j] + 1 } else { cur[j].max(prev[j + 1]) };
        }
        prev = cur;
    }
    prev[b.len()]
}

pub fn cost(calls: &[Call]) -> (usize, usize, usize) {
    let (mut d, mut i, mut e) = (0, 0, 0);
    for c in calls {
        match *c {
            Call::Equal(_, _, l) => e += l,
            Call::Delete(_, l, _) => d += l,
            Call::Insert(_, _, l) => i += l,
            Call::Replace(_, ol, _, nl) => {
                d += ol;
                i += nl
            }
            Call::Finish => {}
        }
    }
    (d, i, e)
}

/// C09 normal form of a captured op list
pub fn normal_form(old: &[u32], new: &[u32], o_off: usize, n_off: usize, ops: &[Call]) -> V {
    let og = |i: usize| -> Option<u32> { i.checked_sub(o_off).and_then(|j| old.get(j).copied()) };
    let ng = |i: usize| -> Option<u32> { i.checked_sub(n_off).and_then(|j| new.get(j).copied()) };
    for (i, c) in ops.iter().enumerate() {
        let empty = match *c {
            Call::Equal(_, _, l) | Call::Delete(_, l, _) | Call::Insert(_, _, l) => l == 0,
            Call::Replace(_, ol, _, nl) => ol == 0 || nl == 0,
            Call::Finish => return err("finish in op list".to_string()),
        };
        if empty {
            return err(format!("op {} {} is empty", i, c.show()));
        }
        if i + 1 < ops.len() {
            let a_eq = matches!(c, Call::Equal(..));
            let b_eq = matches!(ops[i + 1], Call::Equal(..));
            if a_eq == b_eq {
                return err(format!("ops {} and {} ({} {}) do not alternate equal/non-equal", i, i + 1, c.show(), ops[i + 1].show()));
            }
            if let (Call::Insert(_, cn, _), Call::Equal(eo, _, _)) = (*c, ops[i + 1]) {
                if ng(cn).is_some() && ng(cn) == og(eo) {
                    return err(format!("insert {} could slide down over {}", c.show(), ops[i + 1].show()));
                }
            }
        }
    }
    Ok(())
}

//! Canonical text forms shared with the Lean driver.
use similar::DiffOp;

#[derive(Clone, Copy, Debug, PartialEq, Eq, Hash)]
pub enum Call {
    Equal(usize, usize, usize),
    Delete(usize, usize, usize),
    Insert(usize, usize, usize),
    Replace(usize, usize, usize, usize),
    Finish,
}

impl Call {
    pub fn show(&self) -> String {
        match *self {
            Call::Equal(o, n, l) => format!("E.{}.{}.{}", o, n, l),
            Call::Delete(o, l, n) => format!("D.{}.{}.{}", o, l, n),
            Call::Insert(o, n, l) => format!("I.{}.{}.{}", o, n, l),
            Call::Replace(o, ol, n, nl) => format!("R.{}.{}.{}.{}", o, ol, n, nl),
            Call::Finish => "F".to_string(),
        }
    }
    pub fn from_op(op: &DiffOp) -> Call {
        match *op {
            DiffOp::Equal { old_index, new_index, len } => Call::Equal(old_index, new_index, len),
            DiffOp::Delete { old_index, old_len, new_index } => Call::Delete(old_index, old_len, new_index),
            DiffOp::Insert { old_index, new_index, new_len } => Call::Insert(old_index, new_index, new_len),
            DiffOp::Replace { old_index, old_len, new_index, new_len } => {
                Call::Replace(old_index, old_len, new_index, new_len)
            }
        }
    }
    pub fn to_op(&self) -> Option<DiffOp> {
        Some(match *self {
            Call::Equal(o, n, l) => DiffOp::Equal { old_index: o, new_index: n, len: l },
            Call::Delete(o, l, n) => DiffOp::Delete { old_index: o, old_len: l, new_index: n },
            Call::Insert(o, n, l) => DiffOp::Insert { old_index: o, new_index: n, new_len: l },
            Call::Replace(o, ol, n, nl) => DiffOp::Replace { old_index: o, old_len: ol, new_index: n, new_len: nl },
            Call::Finish => return None,
        })
    }
    pub fn parse(s: &str) -> Option<Call> {
        let p: Vec<&str> = s.split('.').collect();
        let n = |i: usize| p.get(i).and_then(|x| x.parse::<usize>().ok());
        Some(match (p[0], p.len()) {
            ("F", 1) => Call::Finish,
            ("E", 4) => Call::Equal(n(1)?, n(2)?, n(3)?),
            ("D", 4) => Call::Delete(n(1)?, n(2)?, n(3)?),
            ("I", 4) => Call::Insert(n(1)?, n(2)?, n(3)?),
            ("R", 5) => Call::Replace(n(1)?, n(2)?, n(3)?, n(4)?),
            _ => return None,
        })
    }
}

pub fn show_calls(cs: &[Call]) -> String {
    cs.iter().map(|c| c.show()).collect::<Vec<_>>().join(",")
}

pub fn show_ops(ops: &[DiffOp]) -> String {
    ops.iter().map(|o| Call::from_op(o).show()).collect::<Vec<_>>().join(",")
}

pub fn parse_calls(s: &str) -> Option<Vec<Call>> {
    let s = s.trim();
    if s.is_empty() {
        return Some(vec![]);
    }
    s.split(',').map(Call::parse).collect()
}

pub fn show_seq(off: usize, v: &[u32]) -> String {
    let mut s = off.to_string();
    for x in v {
        s.push(' ');
        s.push_str(&x.to_string());
    }
    s
}

pub fn opt(x: Option<u64>) -> String {
    match x {
        Some(k) => k.to_string(),
        None => "-".to_string(),
    }
}

//! Suites over the diff algorithms and the hook adapters.
use similar::Algorithm;

use super::gen::{self, FAMILIES};
use crate::obs::{self, alg_name, run_case, Case, NItem, OItem, Off, Outcome, Stack, Status, ALGS};
use crate::oracle;
use crate::proto::{self, Call};
use crate::rng::Rng;
use crate::{Ctx, Tier};

fn og(c: &Case) -> Vec<u32> {
    (c.os..c.oe).map(|i| c.old[i - c.o_off]).collect()
}
fn ng(c: &Case) -> Vec<u32> {
    (c.ns..c.ne).map(|i| c.new[i - c.n_off]).collect()
}
fn ranges(c: &Case) -> (usize, usize, usize, usize) {
    (c.os, c.oe, c.ns, c.ne)
}

/// number of items occurring exactly once on each side that the script reports equal, and the
/// longest common in-order subsequence of such items (C15)
fn unique_anchor_stats(c: &Case, calls: &[Call]) -> (usize, usize) {
    let o = og(c);
    let n = ng(c);
    let cnt = |v: &[u32], x: u32| v.iter().filter(|y| **y == x).count();
    // pairs (old idx, new idx) of unique common items, ordered by old idx
    let mut pairs = vec![];
    for (i, x) in o.iter().enumerate() {
        if cnt(&o, *x) == 1 && cnt(&n, *x) == 1 {
            let j = n.iter().position(|y| y == x).unwrap();
            pairs.push((i, j));
        }
    }
    // LIS over new idx
    let mut best = vec![0usize; pairs.len()];
    let mut lis = 0;
    for a in 0..pairs.len() {
        best[a] = 1;
        for b in 0..a {
            if pairs[b].1 < pairs[a].1 && best[b] + 1 > best[a] {
                best[a] = best[b] + 1;
            }
        }
        lis = lis.max(best[a]);
    }
    let mut reported = 0;
    for call in calls {
        if let Call::Equal(co, cn, len) = *call {
            for t in 0..len {
                let (i, j) = (co + t - c.os, cn + t - c.ns);
                if pairs.contains(&(i, j)) {
                    reported += 1;
                }
            }
        }
    }
    (reported, lis)
}

/// C15's second clause on ANY list of calls, valid script or not: an item that occurs exactly once in the old range and
/// exactly once in the new range may be reported Equal only with that one counterpart (never with another position, a
/// position outside the range, or an unequal item)
fn anchors_matched_to_counterpart(c: &Case, calls: &[Call]) -> Result<(), String> {
    let o = og(c);
    let n = ng(c);
    let cnt = |v: &[u32], x: u32| v.iter().filter(|y| **y == x).count();
    for call in calls {
        if let Call::Equal(co, cn, len) = *call {
            for t in 0..len {
                let (ao, an) = (co + t, cn + t);
                if ao < c.os || ao >= c.oe {
                    continue;
                }
                let x = o[ao - c.os];
                if cnt(&o, x) == 1 && cnt(&n, x) == 1 {
                    let j = c.ns + n.iter().position(|y| *y == x).unwrap();
                    if an != j {
                        return Err(format!("{}: old item {} occurs once in each range, its counterpart is new item {}, but it is reported Equal with new item {}", call.show(), ao, j, an));
                    }
                }
            }
        }
    }
    Ok(())
}

/// C01 (+ C03 raw, C15 raw) on a raw trace of a run without adapters
fn check_raw(ctx: &mut Ctx, c: &Case, out: &Outcome, req: &str) {
    if out.status != Status::Ok {
        ctx.violation("C01", req, format!("the call did not return Ok: {:?}", out.status));
        return;
    }
    if let Err(e) = oracle::finish_once_last(&out.trace) {
        ctx.violation("C01", req, e.clone());
        ctx.violation("C08", req, e.clone());
        if c.dl.is_some() {
            ctx.violation("C07", req, e);
        }
    }
    let calls = oracle::strip_finish(&out.trace);
    let r = ranges(c);
    if c.alg == Algorithm::Patience && c.dl.is_none() {
        if let Err(e) = anchors_matched_to_counterpart(c, &calls) {
            ctx.violation("C15", req, e);
        }
    }
    if let Err(e) = oracle::walk(&c.old, &c.new, c.o_off, c.n_off, r, &calls, false) {
        ctx.violation("C01", req, e.clone());
        if c.dl.is_some() {
            ctx.violation("C07", req, e);
        }
        return;
    }
    if let Err(e) = oracle::carried_run_relative(r, &calls) {
        ctx.violation("C01", req, e.clone());
        if c.dl.is_some() {
            ctx.violation("C07", req, e);
        }
    }
    if let Err(e) = oracle::replay(&c.old, &c.new, c.o_off, c.n_off, r, &calls) {
        ctx.violation("C01", req, e);
    }
    if c.dl.is_none() {
        if let Err(e) = oracle::carried_exact(r, &calls) {
            // stronger than C01 demands; needed by C11's proof, so only counted
            ctx.count("raw.carried_not_exact_without_deadline");
            let _ = e;
        }
        let (d, i, e) = oracle::cost(&calls);
        if c.alg != Algorithm::Patience {
            let l = oracle::lcs_len(&og(c), &ng(c));
            if d + i != (c.oe - c.os) + (c.ne - c.ns) - 2 * l || e != l {
                ctx.violation("C03", req, format!("deleted+inserted = {} but N+M-2L = {}", d + i, (c.oe - c.os) + (c.ne - c.ns) - 2 * l));
            }
        } else {
            let (rep, lis) = unique_anchor_stats(c, &calls);
            if rep < lis {
                ctx.violation("C15", req, format!("{} unique common items reported equal, longest in-order set has {}", rep, lis));
            }
            if lis >= 2 {
                ctx.count("raw.patience_ge2_anchors");
            }
        }
        if d + i > 0 && e > 0 {
            ctx.nontrivial(req);
        }
    }
}

fn emit_case(ctx: &mut Ctx, c: &Case) -> (String, Outcome) {
    let req = c.request();
    let out = run_case(c);
    ctx.emit(&req, &out.show());
    (req, out)
}

fn shifted(calls: &[Call], dos: usize, dns: usize) -> Vec<Call> {
    calls
        .iter()
        .map(|c| match *c {
            Call::Equal(o, n, l) => Call::Equal(o + dos, n + dns, l),
            Call::Delete(o, l, n) => Call::Delete(o + dos, l, n + dns),
            Call::Insert(o, n, l) => Call::Insert(o + dos, n + dns, l),
            Call::Replace(o, ol, n, nl) => Call::Replace(o + dos, ol, n + dns, nl),
            Call::Finish => Call::Finish,
        })
        .collect()
}

/// diffing a sub-range equals diffing the extracted slices shifted by the range starts
fn check_shift(ctx: &mut Ctx, c: &Case, out: &Outcome, req: &str, prop: &str) {
    let mut e = c.clone();
    e.old = og(c);
    e.new = ng(c);
    e.o_off = 0;
    e.n_off = 0;
    e.os = 0;
    e.oe = e.old.len();
    e.ns = 0;
    e.ne = e.new.len();
    let o2 = run_case(&e);
    if o2.status != out.status || shifted(&o2.trace, c.os, c.ns) != out.trace {
        ctx.violation(prop, req, format!("sub-range result differs from shifted slice result {}", proto::show_calls(&shifted(&o2.trace, c.os, c.ns))));
    }
}

/// Varies how the items hash (never what they equal): the default mix, a lawful but colliding hash (parity of the
/// label), one bucket for everything, and the hash of a short string. Chosen from the content of the case.
fn vary_hash(mut c: Case) -> Case {
    let h = c.old.iter().chain(c.new.iter()).fold(c.old.len() as u32 * 31 + c.new.len() as u32, |a, &x| a.wrapping_mul(37).wrapping_add(x));
    c.salt = match h % 5 {
        0 => 0,
        1 => obs::WEAK_HASH,
        2 if c.old.len() + c.new.len() <= 80 => obs::CONST_HASH,
        2 => obs::WEAK_HASH,
        3 => obs::STR_HASH,
        _ => 0x5a17 + h % 0x7000_0000,
    };
    c
}

fn for_small_cases(ctx: &mut Ctx, k_full: u32, l_full: usize, k_sub: u32, l_sub: usize, mut f: impl FnMut(&mut Ctx, Case)) {
    // binary sequences, two items longer (repeats next to edits; totals up to 2*(l_full+2))
    let bin = gen::all_seqs(2, l_full + 2);
    for alg in ALGS {
        for old in &bin {
            for new in &bin {
                if old.len() <= l_full && new.len() <= l_full {
                    continue; // covered by the ternary enumeration below
                }
                if !ctx.take() {
                    continue;
                }
                f(ctx, vary_hash(Case::full(alg, old, new)));
            }
        }
    }
    // full ranges
    let seqs = gen::all_seqs(k_full, l_full);
    for alg in ALGS {
        for old in &seqs {
            for new in &seqs {
                if !ctx.take() {
                    continue;
                }
                f(ctx, vary_hash(Case::full(alg, old, new)));
            }
        }
    }
    // all sub-ranges, slice and offset lookups
    let seqs = gen::all_seqs(k_sub, l_sub);
    for alg in ALGS {
        for old in &seqs {
            for new in &seqs {
                for (os, oe) in gen::subranges(old.len()) {
                    for (ns, ne) in gen::subranges(new.len()) {
                        if os == 0 && ns == 0 && oe == old.len() && ne == new.len() {
                            continue;
                        }
                        if !ctx.take() {
                            continue;
                        }
                        let mut c = Case::full(alg, old, new);
                        c.os = os;
                        c.oe = oe;
                        c.ns = ns;
                        c.ne = ne;
                        // offset lookup on every other case: lookup indices start at 2 / 3, or at the
                        // very top of the index space (lookups whose last index is usize::MAX - 1)
                        let sel = os + 2 * oe + 3 * ns + 5 * ne;
                        if sel % 2 == 1 {
                            let (oo, no) = if sel % 6 == 1 {
                                (usize::MAX - old.len(), usize::MAX - new.len())
                            } else {
                                (2, 3)
                            };
                            c.o_off = oo;
                            c.n_off = no;
                            c.os += oo;
                            c.oe += oo;
                            c.ns += no;
                            c.ne += no;
                        }
                        f(ctx, vary_hash(c));
                    }
                }
            }
        }
    }
}

fn random_cases(ctx: &mut Ctx, count: usize, max_size: usize, tag: u64, mut f: impl FnMut(&mut Ctx, Case, &mut Rng)) {
    for i in 0..count {
        if !ctx.take() {
            continue;
        }
        let mut rng = Rng::new(ctx.seed ^ tag.wrapping_mul(0x1000193) ^ (i as u64).wrapping_mul(0x9E3779B97F4A7C15));
        let fam = FAMILIES[i % FAMILIES.len()];
        // every tenth case just above 100 items per side (where a caller-side "map big inputs to integers first" step would sit)
        let size = if i % 10 == 7 { 101 + rng.below(80) } else { 1 + rng.below(max_size) };
        let (old, new) = gen::gen_pair(&mut rng, fam, size);
        let alg = if i % 10 == 7 { ALGS[rng.below(2)] } else { ALGS[rng.below(3)] };
        // LCS is quadratic in space and time: keep it small
        let (old, new) = if alg == Algorithm::Lcs && old.len() + new.len() > 120 {
            (old[..old.len().min(60)].to_vec(), new[..new.len().min(60)].to_vec())
        } else {
            (old, new)
        };
        let mut c = Case::full(alg, &old, &new);
        if rng.chance(1, 4) && !old.is_empty() && !new.is_empty() {
            c.os = rng.below(old.len());
            c.oe = rng.range(c.os, old.len());
            c.ns = rng.below(new.len());
            c.ne = rng.range(c.ns, new.len());
        }
        ctx.count(&format!("random.family.{:?}", fam));
        ctx.max("random.max_len", (old.len() + new.len()) as u64);
        f(ctx, vary_hash(c), &mut rng);
    }
}

/// the SAME buffer passed as old and as new, with arbitrary sub-range pairs (plain `u32` items:
/// comparisons cannot be counted, the answer carries `c=- p=-`)
fn self_diff_cases(ctx: &mut Ctx, k: u32, l: usize) {
    use similar::algorithms::diff;
    for buf in gen::all_seqs(k, l) {
        for alg in ALGS {
            for (os, oe) in gen::subranges(buf.len()) {
                for (ns, ne) in gen::subranges(buf.len()) {
                    if !ctx.take() {
                        continue;
                    }
                    let mut c = Case::full(alg, &buf, &buf);
                    c.os = os;
                    c.oe = oe;
                    c.ns = ns;
                    c.ne = ne;
                    let req = c.request();
                    let b = buf.clone();
                    let r = std::panic::catch_unwind(move || {
                        let mut h = obs::RecHook::new(None);
                        let r = diff(alg, &mut h, &b[..], os..oe, &b[..], ns..ne);
                        (r.is_ok(), h.trace)
                    });
                    let out = match r {
                        Ok((true, trace)) => Outcome { status: Status::Ok, trace, cmps: 0, same_cmps: 0, probes: 0, at_expiry: None, max_probe_gap: 0 },
                        Ok((false, trace)) => Outcome { status: Status::HookErr, trace, cmps: 0, same_cmps: 0, probes: 0, at_expiry: None, max_probe_gap: 0 },
                        Err(_) => Outcome { status: Status::Panic, trace: vec![], cmps: 0, same_cmps: 0, probes: 0, at_expiry: None, max_probe_gap: 0 },
                    };
                    let shown = match out.status {
                        Status::Ok => format!("ok T={} c=- p=-", proto::show_calls(&out.trace)),
                        _ => out.show(),
                    };
                    ctx.emit(&req, &shown);
                    ctx.count("raw.self_diff_cases");
                    check_raw(ctx, &c, &out, &req);
                }
            }
        }
    }
}

/// item with a NON-REFLEXIVE equality (like `f64::NAN`): labels >= NAN_FROM are equal to nothing, not even themselves
#[derive(Clone, Copy, Debug, PartialOrd, Ord, Hash)]
struct Nr(u32);
const NAN_FROM: u32 = 100;
impl PartialEq for Nr {
    fn eq(&self, o: &Nr) -> bool {
        self.0 == o.0 && self.0 < NAN_FROM
    }
}
impl Eq for Nr {}

/// The SAME object on both sides, items whose equality is not reflexive: "the two sides are the same slice" says
/// nothing about element-wise equality, every segment reported equal must still consist of items that compare equal.
/// The model sees the same equality pattern through two label sequences in which every NaN item has its own label.
fn self_diff_nonreflexive_cases(ctx: &mut Ctx, l: usize) {
    for shape in gen::all_seqs(3, l) {
        if !shape.contains(&2) {
            continue;
        }
        for alg in ALGS {
            if !ctx.take() {
                continue;
            }
            let buf: Vec<Nr> = shape.iter().map(|&x| if x == 2 { Nr(NAN_FROM) } else { Nr(x) }).collect();
            let old_l: Vec<u32> = shape.iter().enumerate().map(|(i, &x)| if x == 2 { 1000 + i as u32 } else { x }).collect();
            let new_l: Vec<u32> = shape.iter().enumerate().map(|(i, &x)| if x == 2 { 2000 + i as u32 } else { x }).collect();
            let c = Case::full(alg, &old_l, &new_l);
            let req = c.request();
            let n = buf.len();
            let run = |which: u8| -> Outcome {
                let b = buf.clone();
                let r = std::panic::catch_unwind(move || {
                    let mut h = obs::RecHook::new(None);
                    let r = match (which, alg) {
                        (0, _) => similar::algorithms::diff(alg, &mut h, &b[..], 0..n, &b[..], 0..n),
                        (_, Algorithm::Myers) => similar::algorithms::myers::diff(&mut h, &b[..], 0..n, &b[..], 0..n),
                        (_, Algorithm::Lcs) => similar::algorithms::lcs::diff(&mut h, &b[..], 0..n, &b[..], 0..n),
                        (_, Algorithm::Patience) => similar::algorithms::patience::diff(&mut h, &b[..], 0..n, &b[..], 0..n),
                    };
                    (r.is_ok(), h.trace)
                });
                match r {
                    Ok((true, trace)) => Outcome { status: Status::Ok, trace, cmps: 0, same_cmps: 0, probes: 0, at_expiry: None, max_probe_gap: 0 },
                    Ok((false, trace)) => Outcome { status: Status::HookErr, trace, cmps: 0, same_cmps: 0, probes: 0, at_expiry: None, max_probe_gap: 0 },
                    Err(_) => Outcome { status: Status::Panic, trace: vec![], cmps: 0, same_cmps: 0, probes: 0, at_expiry: None, max_probe_gap: 0 },
                }
            };
            for which in [0u8, 1] {
                let out = run(which);
                let shown = match out.status {
                    Status::Ok => format!("ok T={} c=- p=-", proto::show_calls(&out.trace)),
                    _ => out.show(),
                };
                ctx.emit(&req, &shown);
                ctx.count("raw.self_diff_nonreflexive_cases");
                check_raw(ctx, &c, &out, &req);
            }
        }
    }
}

/// a few large inputs: Myers with an edit distance above 2000 around a shared middle block, and an
/// LCS middle section above 1024 x 1024 cells
fn big_cases(seed: u64) -> Vec<Case> {
    let mut rng = Rng::new(seed ^ 0xb16);
    let mut v = vec![];
    // unrelated heads and tails around a shared block: D ~ 2 * 1100
    let shared: Vec<u32> = (0..150u32).map(|i| 50_000 + i).collect();
    let mut old: Vec<u32> = (0..1100).map(|_| rng.below(40) as u32).collect();
    let mut new: Vec<u32> = (0..1100).map(|_| 100 + rng.below(40) as u32).collect();
    old.splice(500..500, shared.iter().copied());
    new.splice(700..700, shared.iter().copied());
    v.push(Case::full(Algorithm::Myers, &old, &new));
    // two revisions of a ~1150 item sequence for LCS (few edits, but a large stripped middle)
    let base: Vec<u32> = (0..1150u32).map(|i| i % 97 + (i / 300) * 1000).collect();
    let mut rev = base.clone();
    rev[3] = 777_777;
    rev[1140] = 888_888;
    rev.remove(600);
    rev.insert(200, 999_999);
    v.push(Case::full(Algorithm::Lcs, &base, &rev));
    // lopsided LCS input: more than 65 536 items on one side, three on the other, whose first item matches only at
    // the far end of the long side while the later ones match early (a table keyed by narrower integers aliases)
    {
        let mut old: Vec<u32> = vec![900_001, 900_002];
        old.extend((0..65_540u32).map(|i| 200_000 + i));
        old.push(900_000);
        let new: Vec<u32> = vec![900_000, 900_001, 900_002];
        v.push(Case::full(Algorithm::Lcs, &old, &new));
        v.push(Case::full(Algorithm::Lcs, &new, &old));
    }
    // LOPSIDED unrelated inputs: one to three items against 600 / 1500 unrelated ones (a very long edit script in a box that
    // is only a few items wide), both ways round
    for (k, &long) in [600usize, 1500].iter().enumerate() {
        for short in [1usize, 3] {
            let a: Vec<u32> = (0..short as u32).map(|i| 700_000 + i).collect();
            let b: Vec<u32> = (0..long as u32).map(|i| 800_000 + i).collect();
            let alg = if (k + short) % 2 == 0 { Algorithm::Myers } else { Algorithm::Patience };
            v.push(Case::full(alg, &a, &b));
            v.push(Case::full(alg, &b, &a));
        }
    }
    // LOPSIDED with one or two SHARED items: a single item (or a pair) against 70 / 600 distinct items that contain it once,
    // at the start, in the middle, at the end -- both ways round, all algorithms (LCS only for the small one)
    for &long in &[70usize, 600] {
        let b: Vec<u32> = (0..long as u32).map(|i| 600_000 + i).collect();
        for (k, &at) in [0usize, 1, long / 2, long - 2, long - 1].iter().enumerate() {
            let shorts: [Vec<u32>; 2] = [vec![b[at]], vec![b[at], 599_999]];
            for a in shorts {
                let alg = ALGS[if long > 100 { k % 2 } else { k % 3 }];
                v.push(Case::full(alg, &a, &b));
                v.push(Case::full(alg, &b, &a));
            }
        }
    }
    // blocks moved across bigger blocks, hundreds of edits in ONE divide step: old = j K B S T, new = K S B T'
    // (all items distinct; keeping B costs 2|S|, keeping S costs 2|B|). An early-exit rule of the middle-snake search
    // (a "good enough" snake after so many rounds) splits off every shortest path only on shapes like this one.
    for k in 0..3usize {
        let b = 255 + rng.below(120) + 40 * k;
        let sl = 32 + rng.below(200);
        let kl = 2 * (b + 1) + rng.below(200);
        let (t1, t2) = (b + rng.below(60), b + rng.below(60));
        let mut next = 100_000u32 * (k as u32 + 1);
        let mut block = |n: usize| -> Vec<u32> {
            let v: Vec<u32> = (0..n as u32).map(|i| next + i).collect();
            next += n as u32 + 7;
            v
        };
        let (jj, kk, bb, ss, ta, tb) = (block(1), block(kl), block(b), block(sl), block(t1), block(t2));
        let old: Vec<u32> = [&jj[..], &kk[..], &bb[..], &ss[..], &ta[..]].concat();
        let new: Vec<u32> = [&kk[..], &ss[..], &bb[..], &tb[..]].concat();
        if k == 2 {
            v.push(Case::full(Algorithm::Myers, &new, &old));
        } else {
            v.push(Case::full(Algorithm::Myers, &old, &new));
        }
    }
    v
}

/// Long common head and/or tail (64..200 items) around short middles in which items of the head or tail are
/// repeated ("echoes": they occur once in each middle, so they are unique INSIDE the middle but not in the whole
/// range) next to items that really are unique on both sides and cross them. Whether an item may anchor a
/// Patience diff is decided over the WHOLE range (C15); a search restricted to the middle picks echoes.
fn echo_cases(seed: u64, count: usize) -> Vec<Case> {
    let mut v = vec![];
    for i in 0..count {
        let mut rng = Rng::new(seed ^ 0xec40 ^ (i as u64).wrapping_mul(0x9E3779B97F4A7C15));
        let h = if i % 3 == 2 { 0 } else { rng.range(64, 200) };
        let t = if i % 3 == 0 { 0 } else { rng.range(64, 130) };
        let head: Vec<u32> = (0..h as u32).map(|x| 1000 + x).collect();
        let tail: Vec<u32> = (0..t as u32).map(|x| 5000 + x).collect();
        let pool: Vec<u32> = head.iter().chain(tail.iter()).copied().collect();
        let k = rng.range(1, 5);
        let mut mid: Vec<u32> = (0..k).map(|_| pool[rng.below(pool.len())]).collect();
        mid.sort();
        mid.dedup();
        let u = rng.range(1, 3);
        let fresh: Vec<u32> = (0..u as u32).map(|x| 9000 + x).collect();
        let mut old_mid: Vec<u32> = mid.iter().chain(fresh.iter()).copied().collect();
        for _ in 0..rng.below(3) {
            old_mid.push(7); // a repeated filler
        }
        let shuffle = |rng: &mut Rng, v: &mut Vec<u32>| {
            for a in (1..v.len()).rev() {
                let b = rng.below(a + 1);
                v.swap(a, b);
            }
        };
        let mut new_mid = old_mid.clone();
        shuffle(&mut rng, &mut old_mid);
        shuffle(&mut rng, &mut new_mid);
        if i % 4 == 1 {
            // the canonical shape: echoes in order, the unique items moved across them
            old_mid = mid.iter().chain(fresh.iter()).copied().collect();
            new_mid = fresh.iter().chain(mid.iter()).copied().collect();
        }
        let old: Vec<u32> = head.iter().chain(old_mid.iter()).chain(tail.iter()).copied().collect();
        let new: Vec<u32> = head.iter().chain(new_mid.iter()).chain(tail.iter()).copied().collect();
        let alg = if i % 5 == 4 { Algorithm::Myers } else { Algorithm::Patience };
        let mut c = Case::full(alg, &old, &new);
        if i % 6 == 3 {
            // differing, non-zero sub-range starts through offset lookups
            c.o_off = 3;
            c.n_off = 11;
            c.os += 3;
            c.oe += 3;
            c.ns += 11;
            c.ne += 11;
        }
        v.push(c);
    }
    v
}

pub fn suite_raw(ctx: &mut Ctx) {
    let (kf, lf, ks, ls, nrand, maxsz) = match ctx.tier {
        Tier::Quick => (3, 4, 2, 3, 3000, 60),
        Tier::Thorough => (3, 6, 3, 4, 200000, 400),
    };
    for_small_cases(ctx, kf, lf, ks, ls, |ctx, c| {
        let (req, out) = emit_case(ctx, &c);
        check_raw(ctx, &c, &out, &req);
        if c.os != 0 || c.ns != 0 || c.o_off != 0 {
            check_shift(ctx, &c, &out, &req, "C01");
            ctx.count("raw.subrange_cases");
        }
        ctx.count(&format!("raw.{}", alg_name(c.alg)));
    });
    random_cases(ctx, nrand, maxsz, 1, |ctx, c, _| {
        let (req, out) = emit_case(ctx, &c);
        check_raw(ctx, &c, &out, &req);
        if c.os != 0 || c.ns != 0 {
            check_shift(ctx, &c, &out, &req, "C01");
        }
    });
    self_diff_cases(ctx, 2, if ctx.tier == Tier::Quick { 4 } else { 5 });
    self_diff_nonreflexive_cases(ctx, if ctx.tier == Tier::Quick { 5 } else { 7 });
    for c in big_cases(ctx.seed) {
        if !ctx.take() {
            continue;
        }
        let (req, out) = emit_case(ctx, &c);
        check_raw(ctx, &c, &out, &req);
        ctx.count("raw.big_cases");
    }
    for c in echo_cases(ctx.seed, if ctx.tier == Tier::Quick { 60 } else { 1200 }) {
        if !ctx.take() {
            continue;
        }
        let (req, out) = emit_case(ctx, &c);
        check_raw(ctx, &c, &out, &req);
        ctx.count("raw.echo_cases");
    }
    // implementation only: large DISJOINT middles (cheap for every algorithm) of unequal lengths between shared ends, full
    // ranges and sub-ranges with differing starts -- beyond any table / work size at which one algorithm might hand over to
    // another; the raw stream must still be a valid, gap-free script (and minimal for Myers / LCS: everything but the ends changes)
    let sizes: &[(usize, usize)] = if ctx.tier == Tier::Quick { &[(1100, 1030), (4200, 4100), (6000, 6003), (9000, 8000)] } else { &[(1100, 1030), (3300, 3400), (4200, 4100), (6000, 6003), (9000, 8000), (10_001, 9_000), (5, 1 << 24)] };
    for &(mo, mn) in sizes {
        for (h, t) in [(3usize, 3usize), (0, 2), (2, 0), (1, 1)] {
            for alg in ALGS {
                if mo.max(mn) > 7000 && alg != Algorithm::Lcs {
                    continue;
                }
                if !ctx.take() {
                    continue;
                }
                let mut old: Vec<u32> = (0..h as u32).map(|i| 10 + i).chain((0..mo as u32).map(|i| 1_000_000 + i)).chain((0..t as u32).map(|i| 50 + i)).collect();
                let mut new: Vec<u32> = (0..h as u32).map(|i| 10 + i).chain((0..mn as u32).map(|i| 100_000_000 + i)).chain((0..t as u32).map(|i| 50 + i)).collect();
                // (h, t) = (1, 1): ALMOST disjoint -- the second item of both middles is one common item, so the shortest
                // script keeps it (giving the whole middle up is valid but not minimal)
                let shared_mid = if (h, t) == (1, 1) { 1 } else { 0 };
                if shared_mid == 1 {
                    old[h + 1] = 77;
                    new[h + 1] = 77;
                }
                let mut c = Case::full(alg, &old, &new);
                if (h + t) % 2 == 1 {
                    c.o_off = 4;
                    c.n_off = 9;
                    c.os += 4;
                    c.oe += 4;
                    c.ns += 9;
                    c.ne += 9;
                }
                let req = format!("diff {} none - - 1 0 | <{} shared, {} distinct, {} shared> | <{} shared, {} other distinct, {} shared> | {} {} {} {}", alg_name(alg), h, mo, t, h, mn, t, c.os, c.oe, c.ns, c.ne);
                let out = run_case(&c);
                ctx.count("raw.big_disjoint_middle_cases");
                if out.status != Status::Ok {
                    ctx.violation("C01", &req, format!("the call did not return Ok: {:?}", out.status));
                    continue;
                }
                if let Err(e) = oracle::finish_once_last(&out.trace) {
                    ctx.violation("C01", &req, e);
                }
                let calls = oracle::strip_finish(&out.trace);
                if let Err(e) = oracle::walk(&c.old, &c.new, c.o_off, c.n_off, ranges(&c), &calls, false) {
                    ctx.violation("C01", &req, e);
                    continue;
                }
                if let Err(e) = oracle::carried_run_relative(ranges(&c), &calls) {
                    ctx.violation("C01", &req, e);
                }
                let (d, i, e) = oracle::cost(&calls);
                if alg != Algorithm::Patience && (d + i != mo + mn - 2 * shared_mid || e != h + t + shared_mid) {
                    ctx.violation("C03", &req, format!("deleted+inserted = {} but N+M-2L = {}", d + i, mo + mn - 2 * shared_mid));
                }
            }
        }
    }
}

/* ------------------------------------------------------------------------------------------ */

pub fn capture_request(c: &Case) -> String {
    format!(
        "capture {} {} {} | {} | {} | {} {} {} {}",
        alg_name(c.alg),
        proto::opt(c.dl),
        if c.repair { 1 } else { 0 },
        proto::show_seq(c.o_off, &c.old),
        proto::show_seq(c.n_off, &c.new),
        c.os,
        c.oe,
        c.ns,
        c.ne
    )
}

pub struct Captured {
    pub ops: Option<Vec<Call>>,
    pub cmps: u64,
    pub probes: u64,
    pub at_expiry: Option<u64>,
}
impl Captured {
    pub fn show(&self) -> String {
        match &self.ops {
            Some(ops) => format!("ok O={} c={} p={}", proto::show_calls(ops), self.cmps, self.probes),
            None => "panic".to_string(),
        }
    }
}

/// the real `capture_diff_deadline`
pub fn run_capture(c: &Case) -> Captured {
    let old: Vec<OItem> = c.old.iter().map(|&x| OItem(x, c.salt)).collect();
    let new: Vec<NItem> = c.new.iter().map(|&x| NItem(x, c.salt)).collect();
    let (r, cmps, _same, probes) = obs::with_world(c.dl, c.repair, |dl| {
        if c.o_off == 0 && c.n_off == 0 {
            similar::capture_diff_deadline(c.alg, &old[..], c.os..c.oe, &new[..], c.ns..c.ne, dl)
        } else {
            let o = Off { off: c.o_off, v: old.clone() };
            let n = Off { off: c.n_off, v: new.clone() };
            similar::capture_diff_deadline(c.alg, &o, c.os..c.oe, &n, c.ns..c.ne, dl)
        }
    });
    Captured { ops: r.map(|ops| ops.iter().map(Call::from_op).collect()), cmps, probes, at_expiry: obs::cmps_at_expiry() }
}

/// C02, C09, C11 (+ C03, C15 after the pipeline) on captured ops
fn check_cap(ctx: &mut Ctx, c: &Case, cap: &Captured, req: &str) {
    let ops = match &cap.ops {
        Some(o) => o,
        None => {
            ctx.violation("C02", req, "capture_diff panicked".to_string());
            return;
        }
    };
    let r = ranges(c);
    if c.alg == Algorithm::Patience && c.dl.is_none() && c.old.len() + c.new.len() <= 4000 {
        if let Err(e) = anchors_matched_to_counterpart(c, ops) {
            ctx.violation("C15", req, format!("captured: {}", e));
        }
    }
    if let Err(e) = oracle::walk(&c.old, &c.new, c.o_off, c.n_off, r, ops, true) {
        ctx.violation("C02", req, e.clone());
        if c.dl.is_some() {
            ctx.violation("C07", req, e);
        }
        // an op that does not start where the previous one stopped is also a wrong position (C11), unless the
        // swap repair accounts for it
        if let Err(e11) = oracle::carried_exact(r, ops) {
            let mut c2 = c.clone();
            c2.repair = true;
            let fixed = run_capture(&c2).ops.as_ref().map_or(false, |o2| oracle::carried_exact(r, o2).is_ok());
            if !fixed {
                ctx.violation("C11", req, e11);
            }
        }
        return;
    }
    if let Err(e) = oracle::replay(&c.old, &c.new, c.o_off, c.n_off, r, ops) {
        ctx.violation("C02", req, e);
    }
    let (o, n) = (og(c), ng(c));
    let (d, i, e) = oracle::cost(ops);
    if o == n {
        let all_eq = ops.iter().all(|c| matches!(c, Call::Equal(..)));
        if !all_eq || (o.is_empty() && !ops.is_empty()) {
            ctx.violation("C02", req, "identical inputs but not only Equal ops (or ops for two empty inputs)".to_string());
        }
    }
    // ratio through the crate's own function
    let dops: Vec<similar::DiffOp> = ops.iter().filter_map(|c| c.to_op()).collect();
    let ratio = similar::get_diff_ratio(&dops, o.len(), n.len());
    if !(ratio >= 0.0 && ratio <= 1.0) || ((ratio == 1.0) != (o == n)) {
        ctx.violation("C02", req, format!("ratio {} out of range or 1.0 not iff equal", ratio));
    }
    if let Err(e) = oracle::normal_form(&c.old, &c.new, c.o_off, c.n_off, ops) {
        ctx.violation("C09", req, e);
    }
    {
        if let Err(e) = oracle::carried_exact(r, ops) {
            // attribution: does the failure disappear with the swap repair on?
            let mut c2 = c.clone();
            c2.repair = true;
            let cap2 = run_capture(&c2);
            let fixed = cap2.ops.as_ref().map_or(false, |o2| oracle::carried_exact(r, o2).is_ok());
            ctx.violation_k("C11", req, e, if fixed { Some("KF-compact-swap") } else { None });
        }
    }
    if c.dl.is_none() {
        if c.alg != Algorithm::Patience {
            let l = oracle::lcs_len(&o, &n);
            if d + i != o.len() + n.len() - 2 * l || e != l {
                ctx.violation("C03", req, format!("after capture: deleted+inserted = {} but N+M-2L = {}", d + i, o.len() + n.len() - 2 * l));
            }
            let want = if o.len() + n.len() == 0 { 1.0 } else { 2.0 * l as f32 / (o.len() + n.len()) as f32 };
            if ratio != want {
                ctx.violation("C03", req, format!("ratio {} != 2L/(N+M) = {}", ratio, want));
            }
        } else {
            let (rep, lis) = unique_anchor_stats(c, ops);
            if rep < lis {
                ctx.violation("C15", req, format!("captured: {} unique common items reported equal, longest in-order set has {}", rep, lis));
            }
        }
    }
    if d + i > 0 && e > 0 {
        ctx.nontrivial(req);
    }
    for op in ops {
        match op {
            Call::Replace(..) => ctx.count("cap.ops.replace"),
            Call::Insert(..) => ctx.count("cap.ops.insert"),
            Call::Delete(..) => ctx.count("cap.ops.delete"),
            _ => {}
        }
    }
}

fn cap_one(ctx: &mut Ctx, c: &Case) {
    let req = capture_request(c);
    let cap = run_capture(c);
    ctx.emit(&req, &cap.show());
    check_cap(ctx, c, &cap, &req);
    // get_diff_ratio: exact fraction and the f32 bits
    if let Some(ops) = &cap.ops {
        let dops: Vec<similar::DiffOp> = ops.iter().filter_map(|c| c.to_op()).collect();
        let (ol, nl) = (c.oe - c.os, c.ne - c.ns);
        let ratio = similar::get_diff_ratio(&dops, ol, nl);
        let (_, _, e) = oracle::cost(ops);
        ctx.emit(&format!("ratio {} {} | {}", ol, nl, proto::show_calls(ops)), &format!("ok R={}/{} F={}", 2 * e, ol + nl, ratio.to_bits()));
    }
    // the pipeline built by hand must give what the capture function gives (plumbing)
    let mut m = c.clone();
    m.stack = Stack::CompactReplace;
    let out = run_case(&m);
    ctx.emit(&m.request(), &out.show());
    let manual = oracle::strip_finish(&out.trace);
    if Some(&manual) != cap.ops.as_ref() {
        ctx.violation("C02", &req, "capture_diff_deadline differs from Compact(Replace(hook)) built by hand".to_string());
    }
    // the documented recipe for expensive items: number them with `IdentifyDistinct`, diff the numbers, read the ops
    // against the ORIGINAL sequences. With lawful hashes that are coarser than equality (parity, constant, string-like)
    // the ops must be exactly those of the direct capture (equal numbers mean equal items, nothing else)
    if c.dl.is_none() && c.o_off == 0 && c.n_off == 0 {
        for salt in [0, obs::WEAK_HASH, obs::CONST_HASH, obs::STR_HASH] {
            let old: Vec<OItem> = c.old.iter().map(|&x| OItem(x, salt)).collect();
            let new: Vec<NItem> = c.new.iter().map(|&x| NItem(x, salt)).collect();
            let got = std::panic::catch_unwind(std::panic::AssertUnwindSafe(|| {
                let h = similar::algorithms::IdentifyDistinct::<u32>::new(&old[..], c.os..c.oe, &new[..], c.ns..c.ne);
                similar::capture_diff(c.alg, h.old_lookup(), h.old_range(), h.new_lookup(), h.new_range())
                    .iter()
                    .map(Call::from_op)
                    .collect::<Vec<Call>>()
            }))
            .ok();
            ctx.count("cap.identify_recipe_runs");
            if got != cap.ops {
                let shown = got.as_ref().map(|g| proto::show_calls(g)).unwrap_or_else(|| "a panic".to_string());
                ctx.violation("C02", &req, format!("IdentifyDistinct + capture_diff (items hashing with salt {:#x}) gives {} -- not the ops of the direct capture, so not a script for the original items", salt, shown));
                ctx.violation("C14", &req, format!("diffing the numbers IdentifyDistinct assigns (hash salt {:#x}) gives other ops than diffing the items", salt));
                break;
            }
        }
    }
    // with the repair switch on (model `repair = true`)
    let mut r = c.clone();
    r.repair = true;
    let capr = run_capture(&r);
    ctx.emit(&capture_request(&r), &capr.show());
    if capr.ops != cap.ops {
        ctx.count("cap.repair_changes_ops");
    }
}

pub fn suite_cap(ctx: &mut Ctx) {
    let (kf, lf, ks, ls, nrand, maxsz) = match ctx.tier {
        Tier::Quick => (3, 4, 2, 3, 3000, 60),
        Tier::Thorough => (3, 6, 3, 4, 100000, 300),
    };
    for_small_cases(ctx, kf, lf, ks, ls, |ctx, c| {
        cap_one(ctx, &c);
    });
    random_cases(ctx, nrand, maxsz, 2, |ctx, c, _| {
        cap_one(ctx, &c);
    });
    for c in big_cases(ctx.seed) {
        if !ctx.take() {
            continue;
        }
        let req = capture_request(&c);
        let cap = run_capture(&c);
        ctx.emit(&req, &cap.show());
        check_cap(ctx, &c, &cap, &req);
        ctx.count("cap.big_cases");
    }
    for c in echo_cases(ctx.seed ^ 0x77, if ctx.tier == Tier::Quick { 60 } else { 1200 }) {
        if !ctx.take() {
            continue;
        }
        let req = capture_request(&c);
        let cap = run_capture(&c);
        ctx.emit(&req, &cap.show());
        check_cap(ctx, &c, &cap, &req);
        ctx.count("cap.echo_cases");
    }
    // implementation only: BIG FRAGMENTED diffs (thousands of ops, about half of them changes) with no deadline and under a
    // deadline that never expires -- the two must give the very same ops (C07), in normal form (C09), valid (C02)
    let nfrag = if ctx.tier == Tier::Quick { 2 } else { 8 };
    for k in 0..nfrag {
        for alg in [Algorithm::Myers, Algorithm::Patience] {
            if !ctx.take() {
                continue;
            }
            let mut rng = Rng::new(ctx.seed ^ 0xf4a6 ^ (k as u64) << 8);
            let n = 10_000 + rng.below(4000);
            let old: Vec<u32> = (0..n).map(|_| rng.below(4) as u32).collect();
            let mut new = old.clone();
            for _ in 0..n / 3 {
                let at = rng.below(new.len());
                match rng.below(3) {
                    0 => {
                        new.remove(at);
                    }
                    1 => new.insert(at, rng.below(4) as u32),
                    _ => new[at] = rng.below(4) as u32,
                }
            }
            let c = Case::full(alg, &old, &new);
            let req = format!("capture {} - 0 | <{} items over 4 symbols> | <the same after {} random edits> | 0 {} 0 {}", alg_name(alg), n, n / 3, old.len(), new.len());
            let plain = run_capture(&c);
            check_cap(ctx, &c, &plain, &req);
            let mut never = c.clone();
            never.dl = Some(u64::MAX / 2);
            let with_dl = run_capture(&never);
            ctx.count("cap.big_fragmented_cases");
            ctx.max("cap.big_fragmented_max_ops", plain.ops.as_ref().map_or(0, |o| o.len()) as u64);
            if with_dl.ops != plain.ops {
                let msg = format!("under a deadline that never expires capture_diff_deadline returns {} ops, without a deadline {} ops", with_dl.ops.as_ref().map_or(0, |o| o.len()), plain.ops.as_ref().map_or(0, |o| o.len()));
                ctx.violation("C07", &req, msg.clone());
                let mut reqd = req.clone();
                reqd = reqd.replacen(" - 0 |", &format!(" {} 0 |", u64::MAX / 2), 1);
                check_cap(ctx, &never, &with_dl, &reqd);
            }
        }
    }
    // implementation only: GIANT PERIODIC inputs -- an item (or two) inserted in front of more than 2^20 repetitions of a
    // period of 1, 2 or 3 items, ending in the middle of a period: the clean-up has to slide the insertion all the way down
    // (millions of loop rounds, cheap), and the result must be in normal form (C09) and a valid script (C02)
    let reps: &[usize] = if ctx.tier == Tier::Quick { &[(1 << 20) + 7] } else { &[(1 << 20) + 7, (1 << 21) + 3] };
    for &r in reps {
        for (pi, period) in [vec![5u32], vec![5, 6], vec![5, 6, 7]].into_iter().enumerate() {
            for alg in [Algorithm::Myers, Algorithm::Patience] {
                if !ctx.take() {
                    continue;
                }
                let n = r / period.len();
                let body: Vec<u32> = (0..n).flat_map(|_| period.iter().copied()).chain(period.iter().take([0usize, 1, 1][pi]).copied()).collect();
                let mut old: Vec<u32> = vec![99];
                old.extend_from_slice(&body);
                old.push(77);
                let mut new: Vec<u32> = period.clone();
                new.extend_from_slice(&body);
                new.push(77);
                let c = Case::full(alg, &old, &new);
                let req = format!("capture {} - 0 | <99, {} x period {:?} (+ part of a period), 77> | <one more period in front, no 99> | 0 {} 0 {}", alg_name(alg), n, period, old.len(), new.len());
                let cap = run_capture(&c);
                ctx.count("cap.giant_periodic_cases");
                match &cap.ops {
                    None => ctx.violation("C02", &req, "capture_diff panicked".to_string()),
                    Some(ops) => {
                        if let Err(e) = oracle::walk(&c.old, &c.new, 0, 0, ranges(&c), ops, true) {
                            ctx.violation("C02", &req, e);
                        } else if let Err(e) = oracle::normal_form(&c.old, &c.new, 0, 0, ops) {
                            ctx.violation("C09", &req, e);
                        }
                    }
                }
            }
        }
    }
    // items whose `==` is a TOLERANCE (|a - b| <= 1: reflexive, symmetric, not transitive) with a constant (lawful) hash, below
    // and above 100 items, through `capture_diff_slices`: every Equal op must pair items that are `==`, the ops must cover both
    // slices (numbering the items first would pair items that are only both equal to a third one)
    {
        #[derive(Clone, Copy, Debug, PartialOrd, Ord)]
        struct Near(i64);
        impl PartialEq for Near {
            fn eq(&self, o: &Near) -> bool {
                (self.0 - o.0).abs() <= 1
            }
        }
        impl Eq for Near {}
        impl std::hash::Hash for Near {
            fn hash<H: std::hash::Hasher>(&self, h: &mut H) {
                0u8.hash(h)
            }
        }
        let ntol = if ctx.tier == Tier::Quick { 120 } else { 2000 };
        for i in 0..ntol {
            if !ctx.take() {
                continue;
            }
            let mut rng = Rng::new(ctx.seed ^ 0x701e ^ (i as u64).wrapping_mul(0x9E3779B97F4A7C15));
            let n = if i % 2 == 0 { rng.range(3, 40) } else { rng.range(101, 150) };
            // first half: cluster centres 10k, the same on both sides; second half: old has 10j - 1 where new has 10j + 1 --
            // both are `==` to the centre 10j seen earlier, but not to each other (so they may never be paired), mixed with
            // readings that do match within the tolerance
            let h = n / 2;
            let mut old: Vec<Near> = (0..h).map(|k| Near(10 * k as i64)).collect();
            let mut new: Vec<Near> = old.clone();
            for _ in h..n {
                let j = rng.below(h.max(1)) as i64;
                match rng.below(3) {
                    0 => {
                        old.push(Near(10 * j - 1));
                        new.push(Near(10 * j + 1));
                    }
                    1 => {
                        old.push(Near(10 * j + 1));
                        new.push(Near(10 * j - 1));
                    }
                    _ => {
                        old.push(Near(10 * j));
                        new.push(Near(10 * j + 1));
                    }
                }
            }
            for _ in 0..rng.below(4) {
                let at = rng.below(new.len());
                new[at] = Near(new[at].0 + 1);
            }
            if rng.chance(1, 2) {
                let at = rng.below(new.len());
                new.remove(at);
            }
            let alg = ALGS[i % 3];
            let req = format!("capture {} - 0 | <{} readings: cluster centres 10k, then readings 10j-1 / 10j+1 / 10j, == means |a-b| <= 1> | <the centres, then 10j+1 / 10j-1 / 10j+1> | 0 {} 0 {}", alg_name(alg), n, old.len(), new.len());
            let r = std::panic::catch_unwind(|| similar::capture_diff_slices(alg, &old, &new));
            ctx.count("cap.tolerance_item_cases");
            match r {
                Err(_) => ctx.violation("C02", &req, "capture_diff_slices panicked".to_string()),
                Ok(ops) => {
                    let (mut o, mut nn) = (0usize, 0usize);
                    let mut bad = None;
                    for op in &ops {
                        let (or, nr) = (op.old_range(), op.new_range());
                        if or.start != o || nr.start != nn {
                            // the carried index of a Delete / Insert is not checked here (C11's known finding)
                            if !(matches!(op.tag(), similar::DiffTag::Delete) && or.start == o) && !(matches!(op.tag(), similar::DiffTag::Insert) && nr.start == nn) {
                                bad = Some(format!("{:?} does not start where the previous op stopped ({}, {})", op, o, nn));
                                break;
                            }
                        }
                        if op.tag() == similar::DiffTag::Equal {
                            for t in 0..or.len() {
                                if new[nr.start + t] != old[or.start + t] {
                                    bad = Some(format!("{:?} pairs {:?} with {:?}, which are not ==", op, old[or.start + t], new[nr.start + t]));
                                }
                            }
                        }
                        // only the side(s) an op consumes move on (the carried index of a Delete / Insert may be stale)
                        if op.tag() != similar::DiffTag::Insert {
                            o = or.end;
                        }
                        if op.tag() != similar::DiffTag::Delete {
                            nn = nr.end;
                        }
                    }
                    if bad.is_none() && (o != old.len() || nn != new.len()) {
                        bad = Some("the ops do not cover both slices".to_string());
                    }
                    if let Some(e) = bad {
                        ctx.violation("C02", &req, e);
                    }
                }
            }
        }
    }
    // one Myers call whose ranges are more than 8192 edits apart (implementation only: the validators
    // decide, the model is not run at this size)
    for (k, c) in far_apart_cases(ctx.seed).into_iter().enumerate() {
        if !ctx.take() {
            continue;
        }
        let req = format!(
            "capture {} - 0 | <far-apart case #{}: {} old / {} new items, see far_apart_cases in harness/src/suites/algs.rs>",
            alg_name(c.alg), k, c.old.len(), c.new.len()
        );
        let cap = run_capture(&c);
        check_cap(ctx, &c, &cap, &req);
        ctx.count("cap.far_apart_cases");
    }
}

/// Inputs that need more than 8192 edits inside one divide step of Myers.
pub fn far_apart_cases(seed: u64) -> Vec<Case> {
    let mut v = vec![];
    // a b p | a q b blocks: the minimal script is unique, lone deletes and lone inserts separated by equal items;
    // the new side starts with the item that also ends both sides
    let blocks_of = |blocks: u32, lead: &[u32], gone: &[u32]| -> (Vec<u32>, Vec<u32>) {
        let marker = 0u32;
        let mut old = lead.to_vec();
        let mut new = lead.to_vec();
        old.extend_from_slice(gone);
        new.push(marker);
        for i in 0..blocks {
            let (a, p, b, q) = (4 * i + 1, 4 * i + 2, 4 * i + 3, 4 * i + 4);
            old.extend_from_slice(&[a, p, b]);
            new.extend_from_slice(&[a, b, q]);
        }
        old.push(marker);
        new.push(marker);
        (old, new)
    };
    let (o, n) = blocks_of(4200, &[], &[]);
    v.push(Case::full(Algorithm::Myers, &o, &n));
    let (o, n) = blocks_of(4200, &[u32::MAX], &[u32::MAX - 1]);
    v.push(Case::full(Algorithm::Patience, &o, &n));
    // two unrelated sequences over a small alphabet sharing their first and last item
    let mut rng = Rng::new(seed ^ 0xfa4);
    let mut o: Vec<u32> = (0..9000).map(|_| rng.below(3) as u32).collect();
    let mut n: Vec<u32> = (0..9000).map(|_| 1 + rng.below(3) as u32).collect();
    o.insert(0, 7);
    n.insert(0, 7);
    o.push(1);
    n.push(1);
    v.push(Case::full(Algorithm::Myers, &o, &n));
    v
}

/* ------------------------------------------------------------------------------------------ */

/// C08: every stack, every failing call index
/// implementation only: the hook protocol on inputs whose stripped middles are large and have nothing in common (cheap
/// for every algorithm -- LCS' table stays empty -- yet beyond any table / work size at which an algorithm might hand
/// over to another one): finish once and last, a valid script, and an error at the first, a middle and the last call
/// stops the run there
fn big_protocol_cases(ctx: &mut Ctx) {
    let sizes: &[usize] = if ctx.tier == Tier::Quick { &[1100, 6000] } else { &[1100, 3300, 6000, 10_001] };
    for &m in sizes {
        let mut old: Vec<u32> = vec![1];
        old.extend((0..m as u32).map(|i| 1_000_000 + i));
        old.push(2);
        let mut new: Vec<u32> = vec![1];
        new.extend((0..m as u32 + 3).map(|i| 2_000_000 + i));
        new.push(2);
        for alg in ALGS {
            if m > 7000 && alg != Algorithm::Lcs {
                continue;
            }
            for stack in [Stack::None, Stack::Replace, Stack::CompactReplace, Stack::NoFinish, Stack::MutRef] {
                if !ctx.take() {
                    continue;
                }
                let mut c = Case::full(alg, &old, &new);
                c.stack = stack;
                let req = format!("diff {} {} - - 1 0 | <1, {} distinct items, 2> | <1, {} other distinct items, 2> | 0 {} 0 {}", alg_name(alg), stack.name(), m, m + 3, old.len(), new.len());
                ctx.count("stacks.big_protocol_cases");
                let full = run_case(&c);
                if full.status != Status::Ok {
                    ctx.violation("C08", &req, format!("run without failing hook: {:?}", full.status));
                    continue;
                }
                if stack == Stack::NoFinish {
                    if full.trace.iter().any(|x| *x == Call::Finish) {
                        ctx.violation("C08", &req, "NoFinishHook forwarded finish".to_string());
                    }
                } else if let Err(e) = oracle::finish_once_last(&full.trace) {
                    ctx.violation("C08", &req, e.clone());
                    ctx.violation("C01", &req, e);
                }
                if let Err(e) = oracle::walk(&c.old, &c.new, 0, 0, ranges(&c), &oracle::strip_finish(&full.trace), false) {
                    ctx.violation("C08", &req, format!("not a valid script: {}", e));
                }
                for kf in [0, full.trace.len() / 2, full.trace.len().saturating_sub(1)] {
                    let mut f = c.clone();
                    f.fail = Some(kf);
                    let fo = run_case(&f);
                    if fo.status != Status::HookErr {
                        ctx.violation("C08", &req, format!("hook failed at call {} but the diff returned {:?}", kf, fo.status));
                    } else if fo.trace.len() != kf + 1 {
                        ctx.violation("C08", &req, format!("hook failed at call {}: {} calls after the failing call", kf, fo.trace.len().saturating_sub(kf + 1)));
                    }
                }
            }
        }
    }
}

pub fn suite_stacks(ctx: &mut Ctx) {
    let (k, l, nrand) = match ctx.tier {
        Tier::Quick => (2, 3, 300),
        Tier::Thorough => (2, 5, 4000),
    };
    big_protocol_cases(ctx);
    let seqs = gen::all_seqs(k, l);
    let mut pairs: Vec<(Vec<u32>, Vec<u32>)> = vec![];
    for o in &seqs {
        for n in &seqs {
            pairs.push((o.clone(), n.clone()));
        }
    }
    let mut rng = Rng::new(ctx.seed ^ 0x51ac);
    for i in 0..nrand {
        let fam = FAMILIES[i % FAMILIES.len()];
        let size = 2 + rng.below(14);
        pairs.push(gen::gen_pair(&mut rng, fam, size));
    }
    for (old, new) in &pairs {
        for alg in ALGS {
            for stack in Stack::ALL {
                for (native, dl) in [(true, None), (false, None), (true, Some(0u64)), (false, Some(1u64))] {
                    if !ctx.take() {
                        continue;
                    }
                    let mut c = Case::full(alg, old, new);
                    c.stack = stack;
                    c.native_replace = native;
                    c.dl = dl;
                    let (req, full) = emit_case(ctx, &c);
                    if full.status != Status::Ok {
                        ctx.violation("C08", &req, format!("run without failing hook: {:?}", full.status));
                        continue;
                    }
                    // RE-USE of one `Replace` value for a second diff (same pair again): `finish` flushes what is pending and
                    // resets the adapter, so the hook behind it is told the same calls twice -- the stream of a fresh adapter,
                    // finished once, two times over (owned hook and hook lent as `&mut`)
                    if stack == Stack::None && native && dl.is_none() && old.len() + new.len() <= 24 {
                        let twice: Vec<Call> = full.trace.iter().chain(full.trace.iter()).cloned().collect();
                        for rs in [Stack::Replace, Stack::ReplaceMutRef] {
                            let once = run_script(rs, old, new, &full.trace, false);
                            let both = run_script(rs, old, new, &twice, false);
                            ctx.count("stacks.replace_reuse_cases");
                            let want: Vec<Call> = once.trace.iter().chain(once.trace.iter()).cloned().collect();
                            if both.status != Status::Ok || both.trace != want {
                                ctx.violation(
                                    "C08",
                                    &req,
                                    format!(
                                        "the same Replace adapter ({}) used for this diff twice in a row tells its hook {} ({:?}); a fresh adapter tells it {} each time",
                                        rs.name(),
                                        proto::show_calls(&both.trace),
                                        both.status,
                                        proto::show_calls(&once.trace)
                                    ),
                                );
                            }
                        }
                    }
                    let fins = full.trace.iter().filter(|x| **x == Call::Finish).count();
                    if stack == Stack::ReplaceNoFinish {
                        // Replace in front of the wrapper: the wrapper must forward `replace` itself,
                        // so the hook sees what Replace alone delivers, minus the finish
                        if fins != 0 {
                            ctx.violation("C08", &req, "NoFinishHook forwarded finish".to_string());
                        }
                        let mut p = c.clone();
                        p.stack = Stack::Replace;
                        let plain = run_case(&p);
                        if oracle::strip_finish(&plain.trace) != full.trace {
                            ctx.violation("C08", &req, "NoFinishHook under Replace did not forward every call (replace included) unchanged".to_string());
                        }
                    } else if stack == Stack::NoFinish {
                        if fins != 0 {
                            ctx.violation("C08", &req, "NoFinishHook forwarded finish".to_string());
                        }
                        // everything else forwarded: same as the plain run without its finish
                        let mut p = c.clone();
                        p.stack = Stack::None;
                        let plain = run_case(&p);
                        if oracle::strip_finish(&plain.trace) != full.trace {
                            ctx.violation("C08", &req, "NoFinishHook did not forward every other call unchanged".to_string());
                        }
                    } else if let Err(e) = oracle::finish_once_last(&full.trace) {
                        ctx.violation("C08", &req, e);
                    }
                    if !native && full.trace.iter().any(|x| matches!(x, Call::Replace(..))) {
                        ctx.violation("C08", &req, "hook without replace override saw a replace".to_string());
                    }
                    // a hook lent as `&mut` must behave exactly like the owned hook, under the algorithm and under the adapters
                    if let Some(owned) = match stack {
                        Stack::MutRef => Some(Stack::None),
                        Stack::ReplaceMutRef => Some(Stack::Replace),
                        Stack::CompactReplaceMutRef => Some(Stack::CompactReplace),
                        _ => None,
                    } {
                        let mut p = c.clone();
                        p.stack = owned;
                        let plain = run_case(&p);
                        if plain.trace != full.trace {
                            ctx.violation("C08", &req, format!("the hook lent as `&mut` received {} but the owned hook {}", proto::show_calls(&full.trace), proto::show_calls(&plain.trace)));
                        }
                    }
                    if !native && matches!(stack, Stack::Replace | Stack::CompactReplace | Stack::ReplaceNoFinish | Stack::ReplaceMutRef | Stack::CompactReplaceMutRef) {
                        // default replace = delete then insert: compare with the native run
                        let mut nn = c.clone();
                        nn.native_replace = true;
                        let nat = run_case(&nn);
                        let mut expanded = vec![];
                        for x in &nat.trace {
                            if let Call::Replace(o, ol, n, nl) = *x {
                                expanded.push(Call::Delete(o, ol, n));
                                expanded.push(Call::Insert(o, n, nl));
                            } else {
                                expanded.push(*x);
                            }
                        }
                        if expanded != full.trace {
                            ctx.violation("C08", &req, "default replace is not delete followed by insert".to_string());
                        }
                    }
                    if full.trace.len() > 2 {
                        ctx.nontrivial(&req);
                    }
                    for kf in 0..full.trace.len() {
                        let mut f = c.clone();
                        f.fail = Some(kf);
                        let (freq, fo) = emit_case(ctx, &f);
                        ctx.count("stacks.failing_runs");
                        if fo.status != Status::HookErr {
                            ctx.violation("C08", &freq, format!("hook failed at call {} but the diff returned {:?}", kf, fo.status));
                        } else if fo.trace.len() != kf + 1 {
                            ctx.violation("C08", &freq, format!("{} calls after the failing call", fo.trace.len() - kf - 1));
                        } else if fo.trace[..] != full.trace[..kf + 1] {
                            ctx.violation("C08", &freq, "calls before the failure differ from the run without failure".to_string());
                        }
                    }
                }
            }
        }
    }
}

/* ------------------------------------------------------------------------------------------ */

/// bound on cross comparisons after the first probe that answered "exceeded": exactly the proved bounds
/// (C07: `lcs_no_work_after_expiry`, `myers_post_expiry_bound`, `patience_post_expiry_bound`)
pub fn post_expiry_bound(alg: Algorithm, n: usize, m: usize) -> u64 {
    let mn = n.min(m) as u64;
    match alg {
        Algorithm::Myers => 3 * mn,
        Algorithm::Patience => 7 * mn,
        Algorithm::Lcs => 0,
    }
}

/// bound on cross comparisons of a run ENTERED on an expired deadline (`myers_expired_at_start`,
/// `patience_expired_at_start`; LCS: its two scans)
pub fn expired_entry_bound(alg: Algorithm, n: usize, m: usize) -> u64 {
    let mn = n.min(m) as u64;
    match alg {
        Algorithm::Myers | Algorithm::Lcs => mn + 2,
        Algorithm::Patience => 5 * mn + 4,
    }
}

/// C07: every expiry point
pub fn suite_deadline(ctx: &mut Ctx) {
    let (k, l, nrand, maxsz) = match ctx.tier {
        Tier::Quick => (2, 4, 400, 40),
        Tier::Thorough => (3, 4, 5000, 120),
    };
    let seqs = gen::all_seqs(k, l);
    let mut pairs: Vec<(Vec<u32>, Vec<u32>)> = vec![];
    for o in &seqs {
        for n in &seqs {
            pairs.push((o.clone(), n.clone()));
        }
    }
    let mut rng = Rng::new(ctx.seed ^ 0xdead11e);
    for i in 0..nrand {
        let fam = FAMILIES[i % FAMILIES.len()];
        let size = 2 + rng.below(maxsz);
        pairs.push(gen::gen_pair(&mut rng, fam, size));
    }
    for (pi, (old, new)) in pairs.iter().enumerate() {
        for alg in ALGS {
            if !ctx.take() {
                continue;
            }
            deadline_pair(ctx, alg, old, new, pi);
        }
    }
}

/// one input pair under every expiry point of the virtual clock (all C07 validators, C01/C02/C09 under deadlines)
pub fn deadline_pair(ctx: &mut Ctx, alg: Algorithm, old: &[u32], new: &[u32], pi: usize) {
    if alg == Algorithm::Lcs && old.len() + new.len() > 100 {
        return;
    }
    let mut base = Case::full(alg, old, new);
    // every third pair: a sub-range whose old and new starts differ
    if pi % 3 == 1 && old.len() >= 2 && new.len() >= 3 {
        base.os = 1;
        base.ns = 2;
    }
    let none = run_case(&base);
    // a deadline that never expires
    let mut never = base.clone();
    never.dl = Some(u64::MAX / 2);
    let (nreq, nout) = emit_case(ctx, &never);
    if nout.trace != none.trace || nout.status != none.status {
        ctx.violation("C07", &nreq, "a deadline that never expires changes the result".to_string());
    }
    let total = nout.probes;
    ctx.max("deadline.max_probes", total);
    // promptness in REAL time: the deadline can pass at any moment, and it is noticed at the next probe -- so the
    // work between two consecutive probes must stay linear: Myers one d-iteration (two passes), LCS one table row,
    // Patience in addition its scans
    let nm = ((base.oe - base.os) + (base.ne - base.ns)) as u64;
    ctx.max(&format!("deadline.max_probe_gap_x1000_per_item.{}", alg_name(alg)), nout.max_probe_gap * 1000 / nm.max(1));
    if total > 0 && nout.max_probe_gap > 4 * nm + 8 {
        ctx.violation("C07", &nreq, format!("{} comparisons between two consecutive deadline checks for N+M = {}: an expiry in between is noticed too late", nout.max_probe_gap, nm));
    }
    // every expiry point (sampled beyond 40 for long runs)
    let ks: Vec<u64> = if total <= 40 { (0..=total + 1).collect() } else {
        let mut v: Vec<u64> = (0..=12).collect();
        let mut r2 = Rng::new(ctx.seed ^ pi as u64);
        for _ in 0..20 { v.push(r2.below(total as usize + 1) as u64); }
        v.push(total); v.push(total + 1);
        v
    };
    for kx in ks {
        let mut c = base.clone();
        c.dl = Some(kx);
        let (req, out) = emit_case(ctx, &c);
        ctx.count("deadline.expiry_runs");
        check_raw(ctx, &c, &out, &req);
        if out.status == Status::Ok {
            if let Err(e) = oracle::finish_once_last(&out.trace) {
                ctx.violation("C07", &req, e);
            }
            // a deadline that had expired before the call: every comparison is "after expiry"
            let at_expiry = if kx == 0 { Some(0) } else { out.at_expiry };
            if let Some(at) = at_expiry {
                let after = out.cmps - at;
                ctx.max(&format!("deadline.max_cmps_after_expiry_x1000_per_item.{}", alg_name(alg)), after * 1000 / ((old.len() + new.len()) as u64).max(1));
                // expired at entry: the prefix/suffix scans still run
                let bound = if kx == 0 {
                    expired_entry_bound(alg, base.oe - base.os, base.ne - base.ns)
                } else {
                    post_expiry_bound(alg, base.oe - base.os, base.ne - base.ns)
                };
                if after > bound {
                    ctx.violation("C07", &req, format!("{} comparisons after expiry for N+M = {}", after, old.len() + new.len()));
                }
                ctx.nontrivial(&req);
            } else if kx <= total.saturating_sub(1) && total > 0 {
                ctx.violation("C07", &req, "clock fuel below the probe count but the deadline never expired".to_string());
            }
            if kx >= total && out.trace != none.trace {
                ctx.violation("C07", &req, "fuel >= probes of the full run but the result differs from no deadline".to_string());
            }
        } else {
            ctx.violation("C07", &req, format!("{:?} under an expiring deadline", out.status));
        }
        // the same expiry point through `Replace` alone (the fallback's delete + insert must
        // reach the adapter as such and come out as one valid script)
        let mut cr = c.clone();
        cr.stack = Stack::Replace;
        let (rreq, rout) = emit_case(ctx, &cr);
        if rout.status != Status::Ok {
            ctx.violation("C07", &rreq, format!("{:?} under an expiring deadline through Replace", rout.status));
        } else {
            if let Err(e) = oracle::finish_once_last(&rout.trace) {
                ctx.violation("C07", &rreq, e);
            }
            let calls = oracle::strip_finish(&rout.trace);
            if let Err(e) = oracle::walk(&cr.old, &cr.new, cr.o_off, cr.n_off, ranges(&cr), &calls, false) {
                ctx.violation("C07", &rreq, format!("through Replace: {}", e));
            }
        }
        // capture pipeline under the same clock (C02/C09 with deadline, plumbing of capture_diff_deadline)
        let creq = capture_request(&c);
        let cap = run_capture(&c);
        ctx.emit(&creq, &cap.show());
        check_cap(ctx, &c, &cap, &creq);
        if kx == 0 && total > 0 {
            // plumbing: an already expired deadline must reach the algorithm
            if cap.probes == 0 {
                ctx.violation("C07", &creq, "capture_diff_deadline: the deadline did not reach the algorithm (no probe)".to_string());
            }
        }
    }
}

/* ------------------------------------------------------------------------------------------ */

fn script_request(stack: Stack, old: &[u32], new: &[u32], calls: &[Call], repair: bool) -> String {
    format!(
        "script {} - 1 {} | {} | {} | {}",
        stack.name(),
        if repair { 1 } else { 0 },
        proto::show_seq(0, old),
        proto::show_seq(0, new),
        proto::show_calls(calls)
    )
}

/// feed an arbitrary list of calls through a stack over the recording hook
pub fn run_script(stack: Stack, old: &[u32], new: &[u32], calls: &[Call], repair: bool) -> Outcome {
    use similar::algorithms::{Compact, DiffHook, Replace};
    let o: Vec<OItem> = old.iter().map(|&x| OItem(x, 0)).collect();
    let n: Vec<NItem> = new.iter().map(|&x| NItem(x, 0)).collect();
    fn feed<D: DiffHook>(d: &mut D, calls: &[Call]) -> Result<(), D::Error> {
        for c in calls {
            match *c {
                Call::Equal(a, b, l) => d.equal(a, b, l)?,
                Call::Delete(a, l, b) => d.delete(a, l, b)?,
                Call::Insert(a, b, l) => d.insert(a, b, l)?,
                Call::Replace(a, al, b, bl) => d.replace(a, al, b, bl)?,
                Call::Finish => d.finish()?,
            }
        }
        Ok(())
    }
    let (r, cmps, same, probes) = obs::with_world(None, repair, |_| {
        let h = obs::RecHook::new(None);
        match stack {
            Stack::Replace => {
                let mut d = Replace::new(h);
                let r = feed(&mut d, calls);
                (r, d.into_inner().trace)
            }
            Stack::Compact => {
                let mut d = Compact::new(h, &o[..], &n[..]);
                let r = feed(&mut d, calls);
                (r, d.into_inner().trace)
            }
            Stack::CompactReplace => {
                let mut d = Compact::new(Replace::new(h), &o[..], &n[..]);
                let r = feed(&mut d, calls);
                (r, d.into_inner().into_inner().trace)
            }
            Stack::ReplaceMutRef => {
                let mut h = h;
                let r = {
                    let mut d = Replace::new(&mut h);
                    feed(&mut d, calls)
                };
                (r, h.trace)
            }
            Stack::CompactReplaceMutRef => {
                let mut h = h;
                let r = {
                    let mut d = Compact::new(Replace::new(&mut h), &o[..], &n[..]);
                    feed(&mut d, calls)
                };
                (r, h.trace)
            }
            _ => {
                let mut d = h;
                let r = feed(&mut d, calls);
                (r, d.trace)
            }
        }
    });
    match r {
        None => Outcome { status: Status::Panic, trace: vec![], cmps, same_cmps: same, probes, at_expiry: None, max_probe_gap: 0 },
        Some((Ok(()), trace)) => Outcome { status: Status::Ok, trace, cmps, same_cmps: same, probes, at_expiry: None, max_probe_gap: 0 },
        Some((Err(_), trace)) => Outcome { status: Status::HookErr, trace, cmps, same_cmps: same, probes, at_expiry: None, max_probe_gap: 0 },
    }
}

/// all valid raw scripts (exact carried indices) from (o,n) to the ends
fn all_scripts(old: &[u32], new: &[u32], o: usize, n: usize, last: u8, cur: &mut Vec<Call>, out: &mut Vec<Vec<Call>>, cap: usize) {
    if out.len() >= cap {
        return;
    }
    if o == old.len() && n == new.len() {
        out.push(cur.clone());
        return;
    }
    // equal runs (split runs allowed: the next call may be another equal)
    let mut l = 0;
    while o + l < old.len() && n + l < new.len() && old[o + l] == new[n + l] {
        l += 1;
        cur.push(Call::Equal(o, n, l));
        all_scripts(old, new, o + l, n + l, 0, cur, out, cap);
        cur.pop();
    }
    for l in 1..=(old.len() - o) {
        cur.push(Call::Delete(o, l, n));
        all_scripts(old, new, o + l, n, 1, cur, out, cap);
        cur.pop();
    }
    for l in 1..=(new.len() - n) {
        cur.push(Call::Insert(o, n, l));
        all_scripts(old, new, o, n + l, 2, cur, out, cap);
        cur.pop();
    }
    let _ = last;
}

fn check_script(ctx: &mut Ctx, stack: Stack, old: &[u32], new: &[u32], calls: &[Call]) {
    let mut with_fin = calls.to_vec();
    with_fin.push(Call::Finish);
    let req = script_request(stack, old, new, &with_fin, false);
    let out = run_script(stack, old, new, &with_fin, false);
    ctx.emit(&req, &out.show());
    if out.status != Status::Ok {
        ctx.violation("C10", &req, format!("{:?}", out.status));
        return;
    }
    if let Err(e) = oracle::finish_once_last(&out.trace) {
        ctx.violation("C10", &req, e);
    }
    let res = oracle::strip_finish(&out.trace);
    let r = (0, old.len(), 0, new.len());
    if let Err(e) = oracle::walk(old, new, 0, 0, r, &res, false) {
        ctx.violation("C10", &req, e);
        return;
    }
    if let Some(owned) = match stack {
        Stack::ReplaceMutRef => Some(Stack::Replace),
        Stack::CompactReplaceMutRef => Some(Stack::CompactReplace),
        _ => None,
    } {
        let plain = run_script(owned, old, new, &with_fin, false);
        if plain.trace != out.trace {
            ctx.violation("C10", &req, format!("the adapters over a hook lent as `&mut` deliver {} but over the owned hook {}", proto::show_calls(&out.trace), proto::show_calls(&plain.trace)));
        }
    }
    let (d0, i0, _) = oracle::cost(calls);
    let (d1, i1, _) = oracle::cost(&res);
    if d0 != d1 || i0 != i1 {
        ctx.violation("C10", &req, format!("deleted/inserted items changed from {}/{} to {}/{}", d0, i0, d1, i1));
    }
    match stack {
        Stack::CompactReplace | Stack::CompactReplaceMutRef => {
            if let Err(e) = oracle::normal_form(old, new, 0, 0, &res) {
                ctx.violation("C10", &req, e.clone());
                ctx.violation("C09", &req, e);
            }
        }
        Stack::Replace | Stack::ReplaceMutRef => {
            if let Err(e) = oracle::carried_exact(r, &res) {
                ctx.violation("C10", &req, format!("Replace alone lost exact carried indices: {}", e));
            }
        }
        _ => {}
    }
    if stack != Stack::Replace && stack != Stack::ReplaceMutRef {
        // model with the repair switch on
        let reqr = script_request(stack, old, new, &with_fin, true);
        let outr = run_script(stack, old, new, &with_fin, true);
        ctx.emit(&reqr, &outr.show());
        if outr.trace != out.trace {
            ctx.count("script.repair_changes_result");
        }
    }
    if d0 + i0 > 0 && calls.len() > 1 {
        ctx.nontrivial(&req);
    }
}

/// C10: arbitrary valid scripts through the adapters
pub fn suite_script(ctx: &mut Ctx) {
    let (l, nrand, cap) = match ctx.tier {
        Tier::Quick => (3, 15000, 400),
        Tier::Thorough => (4, 150000, 100000),
    };
    let seqs = gen::all_seqs(2, l);
    for old in &seqs {
        for new in &seqs {
            if !ctx.take() {
                continue;
            }
            let mut out = vec![];
            all_scripts(old, new, 0, 0, 0, &mut vec![], &mut out, cap);
            ctx.add("script.exhaustive_scripts", out.len() as u64);
            for s in &out {
                for stack in [Stack::Replace, Stack::Compact, Stack::CompactReplace, Stack::ReplaceMutRef, Stack::CompactReplaceMutRef] {
                    check_script(ctx, stack, old, new, s);
                }
            }
        }
    }
    // random longer scripts with heavy repetition: walk randomly
    for i in 0..nrand {
        if !ctx.take() {
            continue;
        }
        let mut rng = Rng::new(ctx.seed ^ 0x5c1 ^ (i as u64).wrapping_mul(0x9E3779B97F4A7C15));
        let fam = [gen::Family::HeavyRepeats, gen::Family::Periodic, gen::Family::SmallAlphabet, gen::Family::NearIdentical][i % 4];
        let size = 2 + rng.below(if i % 5 == 0 { 60 } else { 24 });
        let (mut old, mut new) = gen::gen_pair(&mut rng, fam, size);
        if i % 7 == 3 {
            // one LONG run of changes: two stretches with nothing in common, rewritten a few items at a time (dozens of
            // delete / insert calls between two equal items), between a shared first and last item
            let k = rng.range(12, 45);
            old = std::iter::once(1).chain((0..k as u32).map(|x| 100 + x)).chain(std::iter::once(2)).collect();
            new = std::iter::once(1).chain((0..rng.range(12, 45) as u32).map(|x| 300 + x)).chain(std::iter::once(2)).collect();
            ctx.count("script.long_change_run_cases");
        }
        let (mut o, mut n) = (0, 0);
        let mut s = vec![];
        while o < old.len() || n < new.len() {
            let can_eq = o < old.len() && n < new.len() && old[o] == new[n];
            let choice = rng.below(if can_eq { 5 } else { 2 });
            if choice >= 2 {
                let mut l = 1;
                while o + l < old.len() && n + l < new.len() && old[o + l] == new[n + l] && rng.chance(1, 2) {
                    l += 1;
                }
                s.push(Call::Equal(o, n, l));
                o += l;
                n += l;
            } else if (choice == 0 && o < old.len()) || n >= new.len() {
                let l = 1 + rng.below((old.len() - o).min(3));
                s.push(Call::Delete(o, l, n));
                o += l;
            } else {
                let l = 1 + rng.below((new.len() - n).min(3));
                s.push(Call::Insert(o, n, l));
                n += l;
            }
        }
        ctx.max("script.random_max_calls", s.len() as u64);
        for stack in [Stack::Replace, Stack::Compact, Stack::CompactReplace, Stack::ReplaceMutRef, Stack::CompactReplaceMutRef] {
            check_script(ctx, stack, &old, &new, &s);
        }
        // the same script with adjacent delete+insert pairs already merged into `replace` calls by the producer:
        // the adapters' own `replace` entry points (Replace::replace; Compact falls back to the default)
        if i % 3 == 0 {
            let mut m: Vec<Call> = vec![];
            let mut k = 0;
            while k < s.len() {
                match (s[k], s.get(k + 1)) {
                    // only where the adapter has nothing pending: `Replace::replace` forwards at once without flushing a
                    // pending delete/insert (a `[delete, replace]` input comes out reordered -- outside C10's quantifier,
                    // which speaks of equal/delete/insert calls; recorded in DESIGN.md section 6 as an observation)
                    (Call::Delete(o, l, n), Some(&Call::Insert(_, n2, l2)))
                        if n2 == n && !matches!(m.last(), Some(Call::Delete(..)) | Some(Call::Insert(..))) && rng.chance(2, 3) =>
                    {
                        m.push(Call::Replace(o, l, n, l2));
                        k += 2;
                    }
                    _ => {
                        m.push(s[k]);
                        k += 1;
                    }
                }
            }
            if m.iter().any(|c| matches!(c, Call::Replace(..))) {
                ctx.count("script.with_replace_calls");
                for stack in [Stack::Replace, Stack::Compact, Stack::CompactReplace, Stack::ReplaceMutRef] {
                    check_script(ctx, stack, &old, &new, &m);
                }
            }
        }
    }
}

/* ------------------------------------------------------------------------------------------ */

/// oracle constant for C19: comparisons <= COST_C * (N+M+1) * (D+1)
pub const COST_C: u64 = 3;

/// Long near-identical inputs whose labels are regular bit patterns (multiples of 2^16, of 2^20, arithmetic
/// progressions with a large stride): implementation only, the counters are checked against the bounds.
fn structured_key_cases(ctx: &mut Ctx) {
    let n = if ctx.tier == Tier::Quick { 20_000u32 } else { 60_000 };
    let shapes: [(&str, Box<dyn Fn(u32) -> u32>); 4] = [
        ("i<<16", Box::new(|i| i << 16)),
        ("i<<20", Box::new(|i| (i % 4096) << 20 | (i / 4096))),
        ("i*0x10001", Box::new(|i| i.wrapping_mul(0x10001))),
        ("i*2^12+7", Box::new(|i| (i << 12) + 7)),
    ];
    for (name, f) in shapes.iter() {
        let old: Vec<u32> = (0..n).map(|i| f(i)).collect();
        let mut new = old.clone();
        new.remove((n / 3) as usize);
        new[(n / 2) as usize] = u32::MAX;
        for alg in [Algorithm::Myers, Algorithm::Patience] {
            let c = Case::full(alg, &old, &new);
            let req = format!("diff {} none - - 1 0 | <{} labels {}> | <the same with one item removed and one replaced> | 0 {} 0 {}", alg_name(alg), n, name, old.len(), new.len());
            let out = run_case(&c);
            ctx.count("cost.structured_key_cases");
            if out.status != Status::Ok {
                ctx.violation("C19", &req, format!("{:?}", out.status));
                continue;
            }
            let calls = oracle::strip_finish(&out.trace);
            let (d, ins, _) = oracle::cost(&calls);
            let dd = (d + ins) as u64;
            let nm = (old.len() + new.len()) as u64;
            if out.cmps > COST_C * (nm + 1) * (dd + 1) {
                ctx.violation("C19", &req, format!("{} comparisons > {} * (N+M+1) * (D+1) with N+M = {}, D = {}", out.cmps, COST_C, nm, dd));
            }
            if out.same_cmps > 3 * nm + 64 {
                ctx.violation("C19", &req, format!("{} same-side element comparisons for N+M = {} (hash-based uniqueness must stay linear)", out.same_cmps, nm));
            }
        }
    }
}

/// C19: comparison counts on the property's families
pub fn suite_cost(ctx: &mut Ctx) {
    let (count, maxsz) = match ctx.tier {
        Tier::Quick => (700, 600),
        Tier::Thorough => (6000, 3000),
    };
    if ctx.take() {
        structured_key_cases(ctx);
    }
    // adversarial repetition shapes with a tiny D (near-identical inputs must be diffed in near-linear work):
    // braided (every value twice, two positions apart, first item differs), a long run of one value with
    // mismatching ends, two interleaved runs, a run next to a unique tail
    let mut adversarial: Vec<(Vec<u32>, Vec<u32>)> = vec![];
    for k in [10u32, 100, 600] {
        let braid = |first: u32| -> Vec<u32> {
            let mut v = vec![first, 1];
            for i in 2..=k {
                v.push(i);
                v.push(i - 1);
            }
            v
        };
        adversarial.push((braid(1_000_000), braid(2_000_000)));
        adversarial.push((braid(1_000_000), braid(1_000_000)));
        let n = (k * 2) as usize;
        let mut o = vec![1u32; n];
        o.push(2);
        let mut nn = vec![3u32];
        nn.extend(std::iter::repeat(1u32).take(n + 1));
        adversarial.push((o.clone(), nn.clone()));
        adversarial.push((nn, o));
        let inter: Vec<u32> = (0..n as u32).map(|i| i % 2).collect();
        let mut inter2 = inter.clone();
        inter2.insert(n / 2, 7);
        adversarial.push((inter, inter2));
        let mut runtail: Vec<u32> = vec![5; n];
        runtail.extend((0..n as u32).map(|i| 100 + i));
        let mut runtail2 = runtail.clone();
        runtail2.remove(n / 3);
        runtail2.push(9);
        adversarial.push((runtail, runtail2));
        // a unique header (an anchor for Patience), then a periodic body rotated by one (D = 2) with no further anchor:
        // whatever diffs the stretch after the last anchor must still be near-linear
        for body in [k as usize / 2 + 5, 60, 120, 250] {
            for p in [2u32, 3, 7] {
                let b: Vec<u32> = (0..body as u32).map(|i| i % p).collect();
                let mut rot = b[1..].to_vec();
                rot.push(b[0]);
                let mut o = vec![777_777u32];
                o.extend_from_slice(&b);
                let mut nn = vec![777_777u32];
                nn.extend_from_slice(&rot);
                adversarial.push((o.clone(), nn.clone()));
                // the same after a unique header AND before a unique footer
                o.push(888_888);
                nn.push(888_888);
                adversarial.push((o, nn));
            }
        }
    }
    let nadv = adversarial.len();
    for i in 0..count + nadv {
        if !ctx.take() {
            continue;
        }
        let mut rng = Rng::new(ctx.seed ^ 0xc057 ^ (i as u64).wrapping_mul(0x9E3779B97F4A7C15));
        let (old, new) = if i >= count {
            ctx.count("cost.adversarial_repetition_cases");
            adversarial[i - count].clone()
        } else {
            let fam = FAMILIES[i % FAMILIES.len()];
            let size = 1 + rng.below(maxsz);
            // unrelated / small-alphabet inputs have D ~ N+M: keep them smaller (quadratic work is expected)
            let size = match fam {
                gen::Family::Unrelated | gen::Family::SmallAlphabet | gen::Family::HeavyRepeats => size.min(300),
                _ => size,
            };
            gen::gen_pair(&mut rng, fam, size)
        };
        // variants: full ranges; the same inputs embedded behind unrelated prefixes of different
        // lengths (sub-ranges with large non-zero starts); items that hash like short strings
        let variant = i % 3;
        for alg in [Algorithm::Myers, Algorithm::Patience] {
            let mut c = Case::full(alg, &old, &new);
            if variant == 1 {
                let po = 50 + rng.below(400);
                let pn = 20 + rng.below(300);
                let mut o2: Vec<u32> = (0..po as u32).map(|x| 1_000_000 + x).collect();
                let mut n2: Vec<u32> = (0..pn as u32).map(|x| 2_000_000 + (x * 7) % 1000).collect();
                o2.extend_from_slice(&old);
                n2.extend_from_slice(&new);
                c = Case::full(alg, &o2, &n2);
                c.os = po;
                c.ns = pn;
                ctx.count("cost.subrange_cases");
            } else if variant == 2 {
                c.salt = obs::STR_HASH;
                ctx.count("cost.string_hash_cases");
            }
            cost_case(ctx, &c);
        }
    }
}

/// C19 on one case: comparisons against (N+M+1)(D+1), same-side comparisons linear
pub fn cost_case(ctx: &mut Ctx, c: &Case) {
    let alg = c.alg;
    {
        {
            let (req, out) = emit_case(ctx, c);
            if out.status != Status::Ok {
                ctx.violation("C19", &req, format!("{:?}", out.status));
                return;
            }
            let calls = oracle::strip_finish(&out.trace);
            let (d, ins, _) = oracle::cost(&calls);
            // D: for Myers the shortest script (its own, minimal by C03); for Patience its own script
            let dd = (d + ins) as u64;
            let nm = ((c.oe - c.os) + (c.ne - c.ns)) as u64;
            let bound = COST_C * (nm + 1) * (dd + 1);
            let ratio_milli = out.cmps * 1000 / ((nm + 1) * (dd + 1));
            ctx.max(&format!("cost.max_ratio_milli.{}", alg_name(alg)), ratio_milli);
            ctx.max("cost.max_nm", nm);
            if out.cmps > bound {
                ctx.violation("C19", &req, format!("{} comparisons > {} * (N+M+1) * (D+1) with N+M = {}, D = {}", out.cmps, COST_C, nm, dd));
            }
            // same-side comparisons happen only inside the hash maps of `unique`: a few per item
            // (equal keys and rare tag collisions), never proportional to N^2
            let same_bound = 3 * nm + 64;
            ctx.max(&format!("cost.max_same_side_per_item_milli.{}", alg_name(alg)), out.same_cmps * 1000 / (nm + 1));
            if out.same_cmps > same_bound {
                ctx.violation("C19", &req, format!("{} same-side element comparisons for N+M = {} (hash-based uniqueness must stay linear)", out.same_cmps, nm));
            }
            if dd > 0 && dd * 8 < nm {
                ctx.nontrivial(&req);
                ctx.count("cost.near_identical_cases");
            }
        }
    }
}

/* ------------------------------------------------------------------------------------------ */
/* search around a request on which model and implementation disagree                          */

/// `harness search <request>`: when the correspondence breaks on a request but every validator passed on the suite's
/// own inputs, the failing input may need MORE of what the disagreeing request has: more items, a longer common head,
/// the other algorithm, a deadline, a sub-range. This runs every sequence-level validator (C01 C02 C03 C07 C08 C09 C11
/// C15 C19 …) on amplified variants of the request's two sequences on the IMPLEMENTATION (the model is not involved)
/// and collects the failures in `ctx.violations`; each carries a replayable request.
pub fn search(line: &str, ctx: &mut Ctx) {
    let parts: Vec<&str> = line.split('|').map(|s| s.trim()).collect();
    if parts.len() < 3 {
        return;
    }
    let (old, new) = match (parse_seq(parts[1]), parse_seq(parts[2])) {
        (Some((_, o)), Some((_, n))) => (o, n),
        _ => return,
    };
    let fresh = |k: usize, base: u32| -> Vec<u32> { (0..k as u32).map(|i| base + i).collect() };
    let rep = |v: &[u32], k: usize| -> Vec<u32> { (0..k).flat_map(|_| v.iter().copied()).collect() };
    let stretch = |v: &[u32], k: usize| -> Vec<u32> { v.iter().flat_map(|&x| std::iter::repeat(x).take(k)).collect() };
    let mut variants: Vec<(Vec<u32>, Vec<u32>)> = vec![(old.clone(), new.clone()), (new.clone(), old.clone())];
    for k in [2usize, 4, 8, 16, 40, 130] {
        if (old.len() + new.len()) * k <= 6000 {
            variants.push((rep(&old, k), rep(&new, k)));
            variants.push((rep(&old, k), rep(&new, k + 1)));
            // repetitions made distinct: block i uses labels shifted by i * 10_000 (keeps the equality pattern inside a block)
            let sh = |v: &[u32]| -> Vec<u32> { (0..k).flat_map(|i| v.iter().map(move |&x| x + 10_000 * i as u32)).collect() };
            variants.push((sh(&old), sh(&new)));
        }
        if (old.len() + new.len()) * k <= 3000 && k <= 16 {
            variants.push((stretch(&old, k), stretch(&new, k)));
        }
    }
    for h in [1usize, 3, 70, 130, 300, 4200] {
        let head = fresh(h, 3_000_000);
        let tail = fresh(h, 4_000_000);
        let cat = |a: &[u32], b: &[u32], c: &[u32]| -> Vec<u32> { [a, b, c].concat() };
        variants.push((cat(&head, &old, &[]), cat(&head, &new, &[])));
        variants.push((cat(&[], &old, &tail), cat(&[], &new, &tail)));
        variants.push((cat(&head, &old, &tail), cat(&head, &new, &tail)));
    }
    // unrelated padding in front of one side only (sub-ranges with different starts are derived below)
    let mut seen = std::collections::HashSet::new();
    for (vi, (o, n)) in variants.into_iter().enumerate() {
        if !seen.insert((o.clone(), n.clone())) {
            continue;
        }
        for alg in ALGS {
            if alg == Algorithm::Lcs && o.len().saturating_mul(n.len()) > 400_000 {
                continue;
            }
            let c = vary_hash(Case::full(alg, &o, &n));
            let (req, out) = emit_case(ctx, &c);
            check_raw(ctx, &c, &out, &req);
            cap_one(ctx, &c);
            if alg != Algorithm::Lcs {
                // with the items' ordinary hash (a colliding or constant test hash makes the hash maps quadratic by design)
                cost_case(ctx, &Case::full(alg, &o, &n));
            }
            if o.len() + n.len() <= 400 {
                deadline_pair(ctx, alg, &o, &n, vi);
            }
            // differing non-zero starts through offset lookups
            if o.len() >= 2 && n.len() >= 2 {
                let mut cs = Case::full(alg, &o, &n);
                cs.o_off = 5;
                cs.n_off = 2;
                cs.os = 5 + 1;
                cs.oe = 5 + o.len();
                cs.ns = 2;
                cs.ne = 2 + n.len() - 1;
                let (req, out) = emit_case(ctx, &cs);
                check_raw(ctx, &cs, &out, &req);
                cap_one(ctx, &cs);
            }
        }
        if ctx.violations.iter().filter(|v| v.known.is_none()).count() >= 40 {
            break;
        }
    }
}

/* ------------------------------------------------------------------------------------------ */

fn parse_seq(s: &str) -> Option<(usize, Vec<u32>)> {
    let mut it = s.split_whitespace();
    let off = it.next()?.parse().ok()?;
    let v: Option<Vec<u32>> = it.map(|x| x.parse().ok()).collect();
    Some((off, v?))
}
fn parse_alg(s: &str) -> Option<Algorithm> {
    match s {
        "myers" => Some(Algorithm::Myers),
        "patience" => Some(Algorithm::Patience),
        "lcs" => Some(Algorithm::Lcs),
        _ => None,
    }
}
fn parse_opt(s: &str) -> Option<u64> {
    s.parse().ok()
}

pub fn replay(line: &str) {
    let parts: Vec<&str> = line.split('|').map(|s| s.trim()).collect();
    let hd: Vec<&str> = parts[0].split_whitespace().collect();
    if parts.len() != 4 {
        println!("malformed request");
        return;
    }
    let (o_off, old) = parse_seq(parts[1]).expect("old");
    let (n_off, new) = parse_seq(parts[2]).expect("new");
    match hd[0] {
        "diff" | "capture" => {
            let r: Vec<usize> = parts[3].split_whitespace().map(|x| x.parse().unwrap()).collect();
            let mut c = Case::full(parse_alg(hd[1]).expect("alg"), &old, &new);
            c.o_off = o_off;
            c.n_off = n_off;
            c.os = r[0];
            c.oe = r[1];
            c.ns = r[2];
            c.ne = r[3];
            let mut ctx = scratch_ctx();
            if hd[0] == "diff" {
                c.stack = match hd[2] {
                    "none" => Stack::None,
                    "nofinish" => Stack::NoFinish,
                    "replace" => Stack::Replace,
                    "compact" => Stack::Compact,
                    "replacenofinish" => Stack::ReplaceNoFinish,
                    _ => Stack::CompactReplace,
                };
                c.dl = parse_opt(hd[3]);
                c.fail = parse_opt(hd[4]).map(|x| x as usize);
                c.native_replace = hd[5] == "1";
                c.repair = hd[6] == "1";
                let out = run_case(&c);
                println!("implementation: {}", out.show());
                if c.stack == Stack::None && c.fail.is_none() {
                    check_raw(&mut ctx, &c, &out, line);
                }
            } else {
                c.dl = parse_opt(hd[2]);
                c.repair = hd[3] == "1";
                let cap = run_capture(&c);
                println!("implementation: {}", cap.show());
                check_cap(&mut ctx, &c, &cap, line);
            }
            report(&ctx);
        }
        "script" => {
            let stack = match hd[1] {
                "replace" => Stack::Replace,
                "compact" => Stack::Compact,
                _ => Stack::CompactReplace,
            };
            let calls = proto::parse_calls(parts[3]).expect("calls");
            let out = run_script(stack, &old, &new, &calls, hd[4] == "1");
            println!("implementation: {}", out.show());
            let mut ctx = scratch_ctx();
            let body: Vec<Call> = oracle::strip_finish(&calls);
            check_script(&mut ctx, stack, &old, &new, &body);
            report(&ctx);
        }
        _ => println!("unknown"),
    }
}

pub fn scratch_ctx() -> Ctx {
    crate::new_ctx("/dev/null")
}
pub fn report(ctx: &Ctx) {
    if ctx.violations.is_empty() {
        println!("validators: all passed");
    }
    for v in &ctx.violations {
        println!(
            "validator failure: property={} {}{}",
            v.property,
            v.detail,
            match &v.known {
                Some(k) => format!(" [known finding {}]", k),
                None => String::new(),
            }
        );
    }
}

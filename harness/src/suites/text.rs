//! Suites over the text layer: tokenizers (C06), text diffs (C04, C14, C02, C20, C07 plumbing),
//! unified diffs (C05), inline changes (C16), the remapper and the one-call helpers (C17),
//! close matches (C18), IdentifyDistinct (C14) and determinism (C20).
//!
//! Request formats: PROTOCOL.md, "text requests" T1-T7.
#![allow(clippy::too_many_arguments, clippy::type_complexity)]
use std::collections::{BTreeSet, HashMap};
use std::ops::Add;
use std::panic::{catch_unwind, AssertUnwindSafe};
use std::time::{Duration, Instant};

use similar::algorithms::IdentifyDistinct;
use similar::utils::TextDiffRemapper;
use similar::{Algorithm, ChangeTag, DiffOp, DiffTag, DiffableStr, TextDiff};

use super::algs::{capture_request, report, run_capture, scratch_ctx};
use super::gen;
use crate::obs::{self, alg_name, Case, NItem, OItem, Off, ALGS};
use crate::oracle::{self, V};
use crate::proto::{self, Call};
use crate::rng::Rng;
use crate::{Ctx, Tier};

/* ------------------------------------------------------------------------------------------ */
/* canonical forms                                                                            */

const HEX: &[u8; 16] = b"0123456789abcdef";

pub fn hex(b: &[u8]) -> String {
    if b.is_empty() {
        return "-".to_string();
    }
    let mut s = String::with_capacity(b.len() * 2);
    for x in b {
        s.push(HEX[(x >> 4) as usize] as char);
        s.push(HEX[(x & 15) as usize] as char);
    }
    s
}

pub fn unhex(s: &str) -> Option<Vec<u8>> {
    let s = s.trim();
    if s == "-" || s.is_empty() {
        return Some(vec![]);
    }
    let b = s.as_bytes();
    if b.len() % 2 != 0 {
        return None;
    }
    let v = |c: u8| -> Option<u8> {
        match c {
            b'0'..=b'9' => Some(c - b'0'),
            b'a'..=b'f' => Some(c - b'a' + 10),
            _ => None,
        }
    };
    let mut out = Vec::with_capacity(b.len() / 2);
    for p in b.chunks(2) {
        out.push(v(p[0])? * 16 + v(p[1])?);
    }
    Some(out)
}

/// comma-separated hex tokens, `-` for the empty list
fn toks_hex<B: AsRef<[u8]>>(toks: &[B]) -> String {
    if toks.is_empty() {
        return "-".to_string();
    }
    toks.iter().map(|t| hex(t.as_ref())).collect::<Vec<_>>().join(",")
}

fn parse_toks(s: &str) -> Option<Vec<Vec<u8>>> {
    let s = s.trim();
    if s == "-" || s.is_empty() {
        return Some(vec![]);
    }
    s.split(',').map(unhex).collect()
}

/// blank-separated numbers, `-` for none
pub fn lens_str(v: &[usize]) -> String {
    if v.is_empty() {
        return "-".to_string();
    }
    v.iter().map(|x| x.to_string()).collect::<Vec<_>>().join(" ")
}

fn parse_lens(s: &str) -> Option<Vec<usize>> {
    let s = s.trim();
    if s == "-" {
        return Some(vec![]);
    }
    s.split_whitespace().map(|x| x.parse().ok()).collect()
}

fn show_ranges(r: &[(usize, usize)]) -> String {
    r.iter().map(|(a, b)| format!("{}-{}", a, b)).collect::<Vec<_>>().join(",")
}

/// position of `sub` inside `base` by pointer arithmetic; None if it is not a sub-slice
fn sub_range(base: &[u8], sub: &[u8]) -> Option<(usize, usize)> {
    let b = base.as_ptr() as usize;
    let s = sub.as_ptr() as usize;
    if s >= b && s + sub.len() <= b + base.len() {
        Some((s - b, s - b + sub.len()))
    } else {
        None
    }
}

fn tag_char(t: ChangeTag) -> char {
    match t {
        ChangeTag::Equal => '=',
        ChangeTag::Delete => '-',
        ChangeTag::Insert => '+',
    }
}

fn idx_str(i: Option<usize>) -> String {
    match i {
        Some(i) => i.to_string(),
        None => "_".to_string(),
    }
}

fn parse_alg(s: &str) -> Option<Algorithm> {
    match s {
        "myers" => Some(Algorithm::Myers),
        "patience" => Some(Algorithm::Patience),
        "lcs" => Some(Algorithm::Lcs),
        _ => None,
    }
}

fn is_utf8(b: &[u8]) -> bool {
    std::str::from_utf8(b).is_ok()
}

fn as_str(b: &[u8]) -> &str {
    std::str::from_utf8(b).expect("mode str needs valid UTF-8")
}

fn err<T>(s: String) -> Result<T, String> {
    Err(s)
}

#[derive(Clone, Copy, PartialEq, Eq, Debug, Hash)]
pub enum Mode {
    Str,
    Bytes,
}
impl Mode {
    fn name(self) -> &'static str {
        match self {
            Mode::Str => "str",
            Mode::Bytes => "bytes",
        }
    }
    fn parse(s: &str) -> Option<Mode> {
        match s {
            "str" => Some(Mode::Str),
            "bytes" => Some(Mode::Bytes),
            _ => None,
        }
    }
}

#[derive(Clone, Copy, PartialEq, Eq, Debug, Hash)]
pub enum Kind {
    Lines,
    Lnl,
    Words,
    Chars,
    UWords,
    Graphemes,
}
impl Kind {
    const TOK: [Kind; 6] = [Kind::Lines, Kind::Lnl, Kind::Words, Kind::Chars, Kind::UWords, Kind::Graphemes];
    const DIFF: [Kind; 5] = [Kind::Lines, Kind::Words, Kind::Chars, Kind::UWords, Kind::Graphemes];
    fn name(self) -> &'static str {
        match self {
            Kind::Lines => "lines",
            Kind::Lnl => "lnl",
            Kind::Words => "words",
            Kind::Chars => "chars",
            Kind::UWords => "uwords",
            Kind::Graphemes => "graphemes",
        }
    }
    fn parse(s: &str) -> Option<Kind> {
        Kind::TOK.iter().copied().find(|k| k.name() == s)
    }
    fn external(self) -> bool {
        matches!(self, Kind::UWords | Kind::Graphemes)
    }
}

fn tokenize<T: DiffableStr + ?Sized>(k: Kind, s: &T) -> Vec<&T> {
    match k {
        Kind::Lines => s.tokenize_lines(),
        Kind::Lnl => s.tokenize_lines_and_newlines(),
        Kind::Words => s.tokenize_words(),
        Kind::Chars => s.tokenize_chars(),
        Kind::UWords => s.tokenize_unicode_words(),
        Kind::Graphemes => s.tokenize_graphemes(),
    }
}

/// segment lengths reported by the EXTERNAL segmenter (called directly, not through `similar`)
fn ext_seg(kind: Kind, mode: Mode, input: &[u8]) -> Vec<usize> {
    use unicode_segmentation::UnicodeSegmentation;
    match (kind, mode) {
        (Kind::UWords, Mode::Str) => UnicodeSegmentation::split_word_bounds(as_str(input)).map(|w| w.len()).collect(),
        (Kind::Graphemes, Mode::Str) => UnicodeSegmentation::graphemes(as_str(input), true).map(|w| w.len()).collect(),
        (Kind::UWords, Mode::Bytes) => bstr::ByteSlice::words_with_break_indices(input).map(|(s, e, _)| e - s).collect(),
        (Kind::Graphemes, Mode::Bytes) => bstr::ByteSlice::grapheme_indices(input).map(|(s, e, _)| e - s).collect(),
        _ => vec![],
    }
}

/// the seg section of a request: `-` for kinds without external segmentation
fn seg_section(kind: Kind, mode: Mode, input: &[u8]) -> String {
    if kind.external() {
        lens_str(&ext_seg(kind, mode, input))
    } else {
        "-".to_string()
    }
}

/// independent lossy decoding (std's `Utf8Chunks`): `(start, end, char)`, U+FFFD per maximal invalid subpart
fn lossy_chars(b: &[u8]) -> Vec<(usize, usize, char)> {
    let mut v = Vec::with_capacity(b.len());
    let mut pos = 0;
    for ch in b.utf8_chunks() {
        for c in ch.valid().chars() {
            v.push((pos, pos + c.len_utf8(), c));
            pos += c.len_utf8();
        }
        let inv = ch.invalid();
        if !inv.is_empty() {
            v.push((pos, pos + inv.len(), '\u{FFFD}'));
            pos += inv.len();
        }
    }
    v
}

/// own line splitter: a line ends after "\n", "\r\n" or a lone "\r"
fn split_lines(s: &[u8]) -> Vec<&[u8]> {
    let mut v = vec![];
    let mut st = 0;
    let mut i = 0;
    while i < s.len() {
        if s[i] == b'\r' {
            if i + 1 < s.len() && s[i + 1] == b'\n' {
                i += 1;
            }
            v.push(&s[st..=i]);
            st = i + 1;
        } else if s[i] == b'\n' {
            v.push(&s[st..=i]);
            st = i + 1;
        }
        i += 1;
    }
    if st < s.len() {
        v.push(&s[st..]);
    }
    v
}

fn ends_with_newline(t: &[u8]) -> bool {
    matches!(t.last(), Some(b'\n') | Some(b'\r'))
}

fn concat<B: AsRef<[u8]>>(toks: &[B]) -> Vec<u8> {
    let mut v = vec![];
    for t in toks {
        v.extend_from_slice(t.as_ref());
    }
    v
}

/// all words over `0..k` of length `0..=max_len`, shortest first
fn for_each_word(k: usize, max_len: usize, mut f: impl FnMut(&[usize])) {
    for len in 0..=max_len {
        let total = k.pow(len as u32);
        let mut digits = vec![0usize; len];
        for code in 0..total {
            let mut c = code;
            for d in digits.iter_mut() {
                *d = c % k;
                c /= k;
            }
            f(&digits);
        }
    }
}

/// all distinct concatenations of up to `max` pieces, sorted
fn small_texts(pieces: &[&str], max: usize) -> Vec<Vec<u8>> {
    let mut set = BTreeSet::new();
    for_each_word(pieces.len(), max, |d| {
        let mut s = Vec::new();
        for &i in d {
            s.extend_from_slice(pieces[i].as_bytes());
        }
        set.insert(s);
    });
    set.into_iter().collect()
}

fn case_rng(ctx: &Ctx, tag: u64, i: u64) -> Rng {
    Rng::new(ctx.seed ^ tag.wrapping_mul(0x1000193) ^ i.wrapping_mul(0x9E3779B97F4A7C15))
}

/* ------------------------------------------------------------------------------------------ */
/* T1 tokenizers (C06)                                                                        */

#[derive(Clone, Debug, PartialEq, Eq)]
enum TokOut {
    Panic,
    NotSlice(usize),
    Ranges(Vec<(usize, usize)>),
}

fn run_tok(kind: Kind, mode: Mode, input: &[u8]) -> TokOut {
    let r = catch_unwind(AssertUnwindSafe(|| -> Vec<Option<(usize, usize)>> {
        match mode {
            Mode::Str => tokenize(kind, as_str(input)).iter().map(|t| sub_range(input, str::as_bytes(t))).collect(),
            Mode::Bytes => tokenize(kind, input).iter().map(|t| sub_range(input, t)).collect(),
        }
    }));
    match r {
        Err(_) => TokOut::Panic,
        Ok(v) => {
            if let Some(i) = v.iter().position(|x| x.is_none()) {
                TokOut::NotSlice(i)
            } else {
                TokOut::Ranges(v.into_iter().map(|x| x.unwrap()).collect())
            }
        }
    }
}

fn tok_request(kind: Kind, mode: Mode, input: &[u8]) -> String {
    if kind.external() {
        format!("tok {} {} | {} | {}", kind.name(), mode.name(), hex(input), lens_str(&ext_seg(kind, mode, input)))
    } else {
        format!("tok {} {} | {}", kind.name(), mode.name(), hex(input))
    }
}

/// non-empty, contiguous from 0, ending at the input's end: slices of the input that concatenate to it
fn check_partition(input: &[u8], r: &[(usize, usize)]) -> V {
    let mut pos = 0;
    for (i, &(s, e)) in r.iter().enumerate() {
        if e <= s {
            return err(format!("token {} ({}-{}) is empty", i, s, e));
        }
        if s != pos {
            return err(format!("token {} starts at {} but the previous one ended at {}", i, s, pos));
        }
        if e > input.len() {
            return err(format!("token {} ends at {} beyond the input", i, e));
        }
        pos = e;
    }
    if pos != input.len() {
        return err(format!("tokens end at {} but the input has {} bytes", pos, input.len()));
    }
    Ok(())
}

/// runs of characters of one class, maximal; token boundaries on character boundaries
fn check_class_runs(input: &[u8], r: &[(usize, usize)], class: impl Fn(char) -> bool, what: &str) -> V {
    let chars = lossy_chars(input);
    let mut ci = 0;
    let mut prev: Option<bool> = None;
    for (i, &(s, e)) in r.iter().enumerate() {
        if ci >= chars.len() || chars[ci].0 != s {
            return err(format!("token {} does not start on a character boundary", i));
        }
        let cl = class(chars[ci].2);
        while ci < chars.len() && chars[ci].1 <= e {
            if class(chars[ci].2) != cl {
                return err(format!("token {} mixes {} and non-{} characters", i, what, what));
            }
            ci += 1;
        }
        if chars[ci - 1].1 != e {
            return err(format!("token {} does not end on a character boundary", i));
        }
        if prev == Some(cl) {
            return err(format!("tokens {} and {} are both {}{}: runs are not maximal", i - 1, i, if cl { "" } else { "non-" }, what));
        }
        prev = Some(cl);
    }
    Ok(())
}

fn check_tok_shape(kind: Kind, input: &[u8], r: &[(usize, usize)]) -> V {
    match kind {
        Kind::Lines => {
            for (i, &(s, e)) in r.iter().enumerate() {
                let t = &input[s..e];
                let body = if t.ends_with(b"\r\n") {
                    t.len() - 2
                } else if t.ends_with(b"\n") || t.ends_with(b"\r") {
                    t.len() - 1
                } else {
                    t.len()
                };
                if t[..body].iter().any(|&b| b == b'\n' || b == b'\r') {
                    return err(format!("line token {} contains a line break before its end", i));
                }
                if body == t.len() && i + 1 != r.len() {
                    return err(format!("line token {} lacks a terminator but is not the last", i));
                }
                if t.ends_with(b"\r") && i + 1 < r.len() && input[r[i + 1].0] == b'\n' {
                    return err(format!("CR LF split between tokens {} and {}", i, i + 1));
                }
            }
            Ok(())
        }
        Kind::Words => check_class_runs(input, r, |c| c.is_whitespace(), "whitespace"),
        Kind::Lnl => check_class_runs(input, r, |c| c == '\n' || c == '\r', "newline"),
        Kind::Chars => {
            let want: Vec<(usize, usize)> = lossy_chars(input).iter().map(|&(s, e, _)| (s, e)).collect();
            if want != r {
                return err(format!("char tokens are not the scalar values: expected {}", show_ranges(&want)));
            }
            Ok(())
        }
        Kind::UWords | Kind::Graphemes => Ok(()),
    }
}

/// one T1 request: emit, validate; returns the answer and the ranges
fn tok_one(ctx: &mut Ctx, kind: Kind, mode: Mode, input: &[u8]) -> (String, Option<Vec<(usize, usize)>>) {
    let req = tok_request(kind, mode, input);
    let out = run_tok(kind, mode, input);
    let ans = match &out {
        TokOut::Panic => "panic".to_string(),
        TokOut::NotSlice(_) => "notslice".to_string(),
        TokOut::Ranges(r) => format!("ok K={}", show_ranges(r)),
    };
    ctx.emit(&req, &ans);
    ctx.count(&format!("tok.kind.{}.{}", kind.name(), mode.name()));
    match out {
        TokOut::Panic => {
            ctx.violation("C06", &req, "the tokenizer panicked".to_string());
            (ans, None)
        }
        TokOut::NotSlice(i) => {
            ctx.count("tok.notslice");
            ctx.violation("C06", &req, format!("token {} is not a sub-slice of the input", i));
            (ans, None)
        }
        TokOut::Ranges(r) => {
            if let Err(e) = check_partition(input, &r).and_then(|_| check_tok_shape(kind, input, &r)) {
                ctx.violation("C06", &req, e);
            }
            if r.len() >= 2 {
                ctx.nontrivial(&req);
            }
            if r.len() > 100 {
                ctx.count("tok.cases_gt100_tokens");
            }
            ctx.max("tok.max_tokens", r.len() as u64);
            (ans, Some(r))
        }
    }
}

fn decode_answer(input: &[u8]) -> String {
    let r = catch_unwind(AssertUnwindSafe(|| {
        bstr::ByteSlice::char_indices(input).map(|(s, e, c)| format!("{}-{}:{}", s, e, c as u32)).collect::<Vec<_>>().join(",")
    }));
    match r {
        Ok(s) => format!("ok K={}", s),
        Err(_) => "panic".to_string(),
    }
}

/// every T1 request of one input
fn tok_input(ctx: &mut Ctx, input: &[u8]) {
    let valid = is_utf8(input);
    if !valid {
        ctx.count("tok.invalid_utf8_inputs");
    }
    ctx.max("tok.max_input_bytes", input.len() as u64);
    for kind in Kind::TOK {
        let (_, rb) = tok_one(ctx, kind, Mode::Bytes, input);
        if valid {
            let (_, rs) = tok_one(ctx, kind, Mode::Str, input);
            if !kind.external() && rb.is_some() && rs.is_some() && rb != rs {
                let req = tok_request(kind, Mode::Str, input);
                ctx.violation("C06", &req, format!("str and [u8] tokenizers differ on valid UTF-8: bytes give {}", show_ranges(&rb.unwrap())));
            }
        }
    }
    let req = format!("tok decode bytes | {}", hex(input));
    let ans = decode_answer(input);
    ctx.emit(&req, &ans);
    let mine = format!("ok K={}", lossy_chars(input).iter().map(|(s, e, c)| format!("{}-{}:{}", s, e, *c as u32)).collect::<Vec<_>>().join(","));
    if mine != ans {
        ctx.count("tok.decode_bstr_differs_from_std");
    }
}

const TOK_SYMBOLS: [char; 16] = [
    'a', 'b', ' ', '\n', '\r', '\u{a0}', '\u{2028}', '\u{3000}', '\u{85}', 'é', '\u{301}', '\u{200d}', '\u{1F1E9}', '\0', '\u{b}', '\t',
];
const TOK_BYTES: [u8; 14] = [b'a', b' ', b'\n', b'\r', 0xc3, 0xa9, 0xe2, 0x80, 0xa8, 0xf0, 0x9f, 0xff, 0xed, 0xa0];

const WORDS: [&str; 18] = [
    "a", "b", "foo", "bar", "baz", "é", "héllo", "日本", "x1", "e\u{301}", "👍🏽", "🇩🇪", "don't", "3.14", "\u{200d}", "\0", "wörld", "ab",
];
const SEPS: [&str; 16] =
    [" ", " ", " ", "  ", "\t", "\u{a0}", "\u{3000}", "\u{2028}", "\u{85}", ",", ". ", "\x0b", "\x0c", "\x1c", "\u{1680}", "\u{202f}"];
const NLS: [&str; 5] = ["\n", "\n", "\r\n", "\r", "\n\n"];
const BAD: [&[u8]; 9] =
    [&[0xff], &[0xc3], &[0xe2, 0x80], &[0xf0, 0x9f], &[0xed, 0xa0, 0x80], &[0xc0, 0xaf], &[0x80], &[0xf0, 0x9f, 0x98], &[0xe2, 0x82]];

/// code points that software likes to treat specially at the START of a text (byte-order mark, other zero-width /
/// format characters, a shebang); every ninth random text begins with one of them
const LEADERS: [&str; 6] = ["\u{feff}", "\u{fffe}", "\u{200b}", "\u{2060}", "#!", "\u{feff}\u{feff}"];

/// a random text as a list of units (words, separators, terminators, for `invalid` also broken UTF-8)
pub fn random_units(rng: &mut Rng, max_lines: usize, invalid: bool) -> Vec<Vec<u8>> {
    let mut u: Vec<Vec<u8>> = vec![];
    if rng.chance(1, 9) {
        u.push(LEADERS[rng.below(LEADERS.len())].as_bytes().to_vec());
    }
    let lines = rng.below(max_lines + 1);
    for l in 0..lines {
        let words = rng.below(6);
        for w in 0..words {
            if invalid && rng.chance(1, 6) {
                u.push(BAD[rng.below(BAD.len())].to_vec());
            } else if invalid && rng.chance(1, 6) {
                // broken UTF-8 in the middle or at the end of a word
                let mut w0 = WORDS[rng.below(WORDS.len())].as_bytes().to_vec();
                w0.extend_from_slice(BAD[rng.below(BAD.len())]);
                if rng.chance(1, 2) {
                    w0.extend_from_slice(WORDS[rng.below(WORDS.len())].as_bytes());
                }
                u.push(w0);
            } else {
                u.push(WORDS[rng.below(WORDS.len())].as_bytes().to_vec());
            }
            if w + 1 < words {
                u.push(SEPS[rng.below(SEPS.len())].as_bytes().to_vec());
            }
        }
        if l + 1 < lines || rng.chance(2, 3) {
            u.push(NLS[rng.below(NLS.len())].as_bytes().to_vec());
        }
    }
    u
}


/// the same text made pure ASCII (every third random text): non-ASCII words become short ASCII words, non-ASCII
/// separators become one of the ASCII separators on which `u8::is_ascii_whitespace` and `char::is_whitespace`
/// DISAGREE (VT) or agree (FF, TAB, space) -- an all-ASCII input is what an ASCII fast path of a tokenizer sees
fn asciify(units: &mut [Vec<u8>]) {
    for u in units.iter_mut() {
        if !u.is_ascii() {
            let k = u.iter().fold(0usize, |a, &b| a.wrapping_mul(31).wrapping_add(b as usize));
            let ws = std::str::from_utf8(u).map(|s| s.chars().all(char::is_whitespace)).unwrap_or(false);
            *u = if ws { [&b" "[..], b"\x0b", b"\x0c", b"\t", b"\x0b "][k % 5].to_vec() } else { [&b"q"[..], b"zz", b"a1", b"Q-r"][k % 4].to_vec() };
        }
    }
}

/// a few unit-level edits
fn edit_units(rng: &mut Rng, base: &[Vec<u8>], edits: usize, invalid: bool) -> Vec<Vec<u8>> {
    let mut v = base.to_vec();
    let fresh = |rng: &mut Rng| -> Vec<u8> {
        match rng.below(8) {
            0 => NLS[rng.below(NLS.len())].as_bytes().to_vec(),
            1 | 2 => SEPS[rng.below(SEPS.len())].as_bytes().to_vec(),
            3 if invalid => BAD[rng.below(BAD.len())].to_vec(),
            _ => WORDS[rng.below(WORDS.len())].as_bytes().to_vec(),
        }
    };
    if rng.chance(1, 12) {
        // a special leading code point on THIS side only (or removed from this side only)
        if v.first().map_or(false, |f| LEADERS.iter().any(|l| l.as_bytes() == &f[..])) {
            v.remove(0);
        } else {
            v.insert(0, LEADERS[rng.below(LEADERS.len())].as_bytes().to_vec());
        }
    }
    for _ in 0..edits {
        match rng.below(3) {
            0 if !v.is_empty() => {
                let i = rng.below(v.len());
                v.remove(i);
            }
            1 => {
                let i = rng.below(v.len() + 1);
                let x = fresh(rng);
                v.insert(i, x);
            }
            _ if !v.is_empty() => {
                let i = rng.below(v.len());
                v[i] = fresh(rng);
            }
            _ => {}
        }
    }
    v
}

const WHITE_SPACE: [(u32, u32); 10] = [
    (0x09, 0x0d),
    (0x20, 0x20),
    (0x85, 0x85),
    (0xa0, 0xa0),
    (0x1680, 0x1680),
    (0x2000, 0x200a),
    (0x2028, 0x2029),
    (0x202f, 0x202f),
    (0x205f, 0x205f),
    (0x3000, 0x3000),
];

fn ws_one(ctx: &mut Ctx, lo: u32, hi: u32) -> String {
    let req = format!("ws {} {} | -", lo, hi);
    let mut s = String::with_capacity((hi - lo) as usize + 5);
    s.push_str("ok W=");
    let mut bad = None;
    for v in lo..hi {
        let w = char::from_u32(v).map_or(false, |c| c.is_whitespace());
        s.push(if w { '1' } else { '0' });
        let listed = WHITE_SPACE.iter().any(|&(a, b)| a <= v && v <= b);
        if w != listed && bad.is_none() {
            bad = Some(v);
        }
    }
    ctx.emit(&req, &s);
    if let Some(v) = bad {
        ctx.violation("C06", &req, format!("char::is_whitespace(U+{:04X}) differs from the Unicode White_Space list", v));
    }
    s
}

/// pairs of texts that share a long head and then differ in a line TERMINATOR (CR / CRLF / LF / none), the shape on
/// which a tokenizer that looks at both texts at once (or works in blocks) cuts one side differently
fn terminator_change_pairs(heads: &[usize]) -> Vec<(Vec<u8>, Vec<u8>)> {
    let terms = ["\n", "\r\n", "\r", ""];
    let mut v = vec![];
    // a byte-order mark (or another special leading code point) on one side only, alone and in front of text
    for l in LEADERS {
        for body in ["", "a\n", "a\nb", "\n"] {
            v.push((format!("{}{}", l, body).into_bytes(), body.as_bytes().to_vec()));
            v.push((format!("{}{}", l, body).into_bytes(), format!("{}{}x", l, body).into_bytes()));
        }
    }
    for &h in heads {
        let head: String = (0..h).map(|i| format!("line {}\n", i)).collect();
        for (a, t1) in terms.iter().enumerate() {
            for (b, t2) in terms.iter().enumerate() {
                if a == b {
                    continue;
                }
                for rest in ["", "y\n", "\n"] {
                    let old = format!("{}x{}{}", head, t1, rest);
                    let new = format!("{}x{}{}", head, t2, rest);
                    v.push((old.into_bytes(), new.into_bytes()));
                }
            }
        }
    }
    v
}

/// C06 through the text-diff entry points: the token slices a `TextDiff` holds are the tokenizer's output for each text alone
fn textdiff_tokens_case(ctx: &mut Ctx, old: &[u8], new: &[u8]) {
    fn one<T: DiffableStr + ?Sized>(ctx: &mut Ctx, mode: Mode, old: &T, new: &T) {
        for kind in Kind::DIFF {
            let c = TextCfg { kind, alg: Algorithm::Myers, nlt: None, dl: None };
            let req = text_request(&c, mode, old.as_bytes(), new.as_bytes());
            let r = catch_unwind(AssertUnwindSafe(|| {
                let diff = build_diff(&c, DlHow::Deadline, None, old, new);
                tokenize(kind, old).iter().map(|t| t.as_bytes()).eq(diff.old_slices().iter().map(|t| t.as_bytes()))
                    && tokenize(kind, new).iter().map(|t| t.as_bytes()).eq(diff.new_slices().iter().map(|t| t.as_bytes()))
            }));
            ctx.count("tok.textdiff_token_cases");
            match r {
                Err(_) => ctx.violation("C06", &req, "building the text diff panicked".to_string()),
                Ok(false) => ctx.violation("C06", &req, "the tokens a TextDiff holds differ from what the tokenizer returns for that text alone".to_string()),
                Ok(true) => {}
            }
        }
    }
    one::<[u8]>(ctx, Mode::Bytes, old, new);
    if is_utf8(old) && is_utf8(new) {
        one::<str>(ctx, Mode::Str, as_str(old), as_str(new));
    }
}

pub fn suite_tok(ctx: &mut Ctx) {
    let (l, nrand, max_lines) = match ctx.tier {
        Tier::Quick => (3, 1500, 8),
        Tier::Thorough => (4, 20000, 14),
    };
    // strings over the symbol alphabet, as str and as bytes
    for_each_word(TOK_SYMBOLS.len(), l, |d| {
        if !ctx.take() {
            return;
        }
        let s: String = d.iter().map(|&i| TOK_SYMBOLS[i]).collect();
        ctx.count("tok.inputs.symbols");
        tok_input(ctx, s.as_bytes());
    });
    // byte strings incl. invalid UTF-8
    for_each_word(TOK_BYTES.len(), l, |d| {
        if !ctx.take() {
            return;
        }
        let b: Vec<u8> = d.iter().map(|&i| TOK_BYTES[i]).collect();
        ctx.count("tok.inputs.bytes");
        tok_input(ctx, &b);
    });
    // token LENGTH sweep: a line body / word / whitespace run of every length 0..=300 (every residue of any block size a
    // scanner may work in) and around 1024 and 4096, in front of each terminator resp. separator
    let mut lens: Vec<usize> = (0..=300).collect();
    lens.extend_from_slice(&[511, 512, 513, 1023, 1024, 1025, 4095, 4096, 4097]);
    for (li, &len) in lens.iter().enumerate() {
        if !ctx.take() {
            continue;
        }
        let body = |c: char, n: usize| -> String { std::iter::repeat(c).take(n).collect() };
        for (ti, term) in ["\n", "\r\n", "\r", "\r\r\n", ""].iter().enumerate() {
            // lines: body, terminator, a second short line; the multi-byte variant shifts every byte offset by one
            let pre = if (li + ti) % 3 == 0 { "é" } else { "" };
            let t = format!("{}{}{}y{}", pre, body('x', len), term, if ti % 2 == 0 { "\n" } else { "" });
            ctx.count("tok.inputs.length_sweep");
            tok_input(ctx, t.as_bytes());
        }
        for sep in [" ", "\t ", "\u{a0}", "\x0b"] {
            let t = format!("{}{}{}{}b", body('w', len), sep, body(' ', len % 7), body('v', len / 2));
            ctx.count("tok.inputs.length_sweep");
            tok_input(ctx, t.as_bytes());
        }
    }
    // PAIRS of control / whitespace bytes at every alignment inside a text longer than a machine word or a small buffer (a
    // scanner that works on 8 / 16 / 32 bytes at a time sees a pair differently depending on where it sits)
    {
        let ctl: [u8; 15] = [b'\t', b'\n', 0x0b, 0x0c, b'\r', 0x1c, 0x1d, 0x1e, 0x1f, b' ', 0x7f, 0x00, 0x85, 0xa0, b'x'];
        for (pi, &a) in ctl.iter().enumerate() {
            if !ctx.take() {
                continue;
            }
            for &b in &ctl {
                for shift in 0..9usize {
                    let mut t: Vec<u8> = std::iter::repeat(b'f').take(29 + shift).collect();
                    t.push(a);
                    t.push(b);
                    t.extend_from_slice(b"xy");
                    if (pi + shift) % 2 == 0 {
                        t.extend(std::iter::repeat(b'g').take(19));
                    }
                    ctx.count("tok.inputs.control_pairs");
                    tok_input(ctx, &t);
                }
            }
        }
    }
    // code points that ALIAS a whitespace character when truncated to 16 or 8 bits, right behind (and in front of) that
    // character: a cache or table keyed by a narrowed code point confuses exactly these
    {
        let ws: [u32; 12] = [0x85, 0xa0, 0x1680, 0x2000, 0x2003, 0x200a, 0x2028, 0x2029, 0x202f, 0x205f, 0x3000, 0x20];
        for &w in &ws {
            if !ctx.take() {
                continue;
            }
            let wc = char::from_u32(w).unwrap();
            let mut aliases: Vec<char> = (1..=16u32).filter_map(|pl| char::from_u32((pl << 16) | w)).collect();
            aliases.extend([0x100u32, 0x300, 0x2000, 0x3000, 0xff00].iter().filter_map(|hi| char::from_u32(hi | (w & 0xff))));
            for c in aliases {
                for t in [format!("{}{}", wc, c), format!("{}{}", c, wc), format!("a{}{}b{}", wc, c, wc), format!("{} {}", c, wc)] {
                    ctx.count("tok.inputs.aliasing_code_points");
                    tok_input(ctx, t.as_bytes());
                }
            }
        }
    }
    // the tokenizers as the text-diff entry points use them
    for (o, n) in terminator_change_pairs(if ctx.tier == Tier::Quick { &[0, 3, 700, 5000] } else { &[0, 1, 3, 120, 700, 5000, 20000] }) {
        if !ctx.take() {
            continue;
        }
        textdiff_tokens_case(ctx, &o, &n);
        textdiff_tokens_case(ctx, &n, &o);
    }
    // random longer texts
    for i in 0..nrand {
        if !ctx.take() {
            continue;
        }
        let mut rng = case_rng(ctx, 0x70c, i as u64);
        let invalid = i % 3 == 2;
        let lines = if i % 10 == 0 { max_lines * 4 } else { max_lines };
        let mut units = random_units(&mut rng, lines, invalid);
        if i % 3 == 1 {
            asciify(&mut units);
        }
        let text = concat(&units);
        ctx.count("tok.inputs.random");
        tok_input(ctx, &text);
    }
    // EVERY scalar value between two letters through the word, line and char tokenizers, `str` and `[u8]` (implementation
    // only, exhaustive: 1 112 064 code points): the word tokenizers split exactly at `char::is_whitespace`, the line
    // tokenizers only at LF / CR, the char tokenizers give one token per scalar value, and both modes agree
    for block in 0..0x110u32 {
        if !ctx.take() {
            continue;
        }
        for cp in block * 0x1000..(block + 1) * 0x1000 {
            let c = match char::from_u32(cp) {
                Some(c) => c,
                None => continue,
            };
            let t = format!("a{}b", c);
            let want_words: Vec<&str> = if c.is_whitespace() { vec!["a", &t[1..1 + c.len_utf8()], "b"] } else { vec![&t[..]] };
            let want_lines: Vec<&str> = if c == '\n' || c == '\r' { vec![&t[..1 + c.len_utf8()], "b"] } else { vec![&t[..]] };
            let want_chars: Vec<&str> = vec!["a", &t[1..1 + c.len_utf8()], "b"];
            let sw = t.as_str().tokenize_words();
            let bw: Vec<&[u8]> = t.as_bytes().tokenize_words();
            let sl = t.as_str().tokenize_lines();
            let bl: Vec<&[u8]> = t.as_bytes().tokenize_lines();
            let sc = t.as_str().tokenize_chars();
            let bc: Vec<&[u8]> = t.as_bytes().tokenize_chars();
            let same = |b: &[&[u8]], w: &[&str]| b.len() == w.len() && b.iter().zip(w).all(|(x, y)| *x == y.as_bytes());
            if sw != want_words || !same(&bw, &want_words) || sl != want_lines || !same(&bl, &want_lines) || sc != want_chars || !same(&bc, &want_chars) {
                let what = if sw != want_words { "str words" } else if !same(&bw, &want_words) { "[u8] words" } else if sl != want_lines { "str lines" } else if !same(&bl, &want_lines) { "[u8] lines" } else if sc != want_chars { "str chars" } else { "[u8] chars" };
                let req = format!("tok {} {} | {}", what.split(' ').nth(1).unwrap(), if what.starts_with("str") { "str" } else { "bytes" }, hex(t.as_bytes()));
                ctx.violation("C06", &req, format!("U+{:04X} between two letters: the {} tokenizer does not split as documented (is_whitespace = {})", cp, what, c.is_whitespace()));
                if what.ends_with("words") || what.ends_with("lines") || what.ends_with("chars") {
                    ctx.violation("C20", &req, format!("U+{:04X}: str and [u8] tokenizers can disagree here", cp));
                }
            }
        }
        ctx.add("tok.scalar_values_through_tokenizers", 0x1000);
    }
    // char::is_whitespace
    let chunks: Vec<(u32, u32)> = match ctx.tier {
        Tier::Thorough => (0..0x110u32).map(|k| (k * 4096, (k + 1) * 4096)).collect(),
        Tier::Quick => {
            let mut v = vec![(0, 0x1000), (0x1000, 0x2000), (0x2000, 0x3000), (0x3000, 0x3100), (0xE000, 0xF000)];
            v.extend((0x1F..0x20u32).map(|k| (k * 4096, (k + 1) * 4096)));
            v
        }
    };
    for (lo, hi) in chunks {
        if !ctx.take() {
            continue;
        }
        ws_one(ctx, lo, hi);
    }
}

/* ------------------------------------------------------------------------------------------ */
/* T2 text diffs (C04, C14, C02, C20, C07 plumbing)                                           */

#[derive(Clone, Copy, Debug, PartialEq, Eq)]
struct TextCfg {
    kind: Kind,
    alg: Algorithm,
    nlt: Option<bool>,
    dl: Option<u64>,
}

/// how the clock reaches the builder when `dl` is set
#[derive(Clone, Copy, Debug, PartialEq, Eq)]
enum DlHow {
    Deadline,
    Timeout,
}

fn build_diff<'a, T: DiffableStr + ?Sized + 'a>(
    c: &TextCfg,
    how: DlHow,
    inst: Option<Instant>,
    old: &'a T,
    new: &'a T,
) -> TextDiff<'a, 'a, 'a, T> {
    let mut cfg = TextDiff::configure();
    cfg.algorithm(c.alg);
    if let Some(b) = c.nlt {
        cfg.newline_terminated(b);
    }
    if let Some(i) = inst {
        match how {
            DlHow::Deadline => {
                cfg.deadline(i);
            }
            DlHow::Timeout => {
                cfg.timeout(Duration::from_secs(3600));
            }
        }
    }
    match c.kind {
        Kind::Lines | Kind::Lnl => cfg.diff_lines(old, new),
        Kind::Words => cfg.diff_words(old, new),
        Kind::Chars => cfg.diff_chars(old, new),
        Kind::UWords => cfg.diff_unicode_words(old, new),
        Kind::Graphemes => cfg.diff_graphemes(old, new),
    }
}

#[derive(Clone, Debug, PartialEq, Eq)]
struct Chg {
    tag: ChangeTag,
    oi: Option<usize>,
    ni: Option<usize>,
    val: Vec<u8>,
    missing_newline: bool,
}

fn conv_change<T: DiffableStr + ?Sized>(ch: similar::Change<&T>) -> Chg {
    Chg { tag: ch.tag(), oi: ch.old_index(), ni: ch.new_index(), val: ch.value().as_bytes().to_vec(), missing_newline: ch.missing_newline() }
}

struct TextEval {
    ops: Vec<DiffOp>,
    nlt: bool,
    alg: Algorithm,
    /// `TextDiff::ratio()` as f32 bits
    ratio_bits: u32,
    /// `TextDiff::grouped_ops(n) == group_diff_ops(ops, n)` for n = 0..=3
    grouped_consistent: bool,
    /// `iter_all_changes` driven through nth/skip/step_by/... gives the items plain iteration gives (diffs of at most 120 changes)
    all_driven: Result<(), String>,
    probes: u64,
    old_toks: Vec<Vec<u8>>,
    new_toks: Vec<Vec<u8>>,
    all_changes: Vec<Chg>,
    op_changes: Vec<Chg>,
    /// `capture_diff_slices_deadline` on the diff's own token slices under the same clock
    direct: Vec<DiffOp>,
    direct_probes: u64,
    /// `old_slices()` / `new_slices()` are what the tokenizer returns for each text ON ITS OWN (a text diff is the diff of
    /// its tokens: the tokens of one side must not depend on the other side)
    toks_independent: bool,
    /// only when `ops` do not carry exact positions: the ops of the SAME text diff (same entry point, tokenizer, algorithm
    /// and clock) built with the swap repair switched on -- the attribution of C11's known finding
    ops_repaired: Option<Vec<DiffOp>>,
}

thread_local! {
    /// driving `iter_all_changes` through every adapter from every state is by far the most expensive part of evaluating a
    /// small text diff; a pair is evaluated five or six times (modes, repeated runs, clocks) over the SAME iterator code, so
    /// only the first evaluation of a pair drives it
    static DRIVE_ITERATORS: std::cell::Cell<bool> = const { std::cell::Cell::new(true) };
}

fn text_eval<T: DiffableStr + ?Sized>(c: &TextCfg, how: DlHow, old: &T, new: &T) -> Option<TextEval> {
    let (diff, _, _, probes) = obs::with_world(c.dl, false, |inst| build_diff(c, how, inst, old, new));
    let diff = diff?;
    let rest = catch_unwind(AssertUnwindSafe(|| {
        let all: Vec<Chg> = diff.iter_all_changes().map(conv_change).collect();
        let per: Vec<Chg> = diff.ops().iter().flat_map(|op| diff.iter_changes(op)).map(conv_change).collect();
        let ot: Vec<Vec<u8>> = diff.old_slices().iter().map(|t| t.as_bytes().to_vec()).collect();
        let nt: Vec<Vec<u8>> = diff.new_slices().iter().map(|t| t.as_bytes().to_vec()).collect();
        let indep = tokenize(c.kind, old).iter().map(|t| t.as_bytes()).eq(ot.iter().map(|t| &t[..]))
            && tokenize(c.kind, new).iter().map(|t| t.as_bytes()).eq(nt.iter().map(|t| &t[..]));
        let driven = if all.len() <= 120 && DRIVE_ITERATORS.with(|d| d.get()) {
            // a cheap fingerprint of a change: tag, both indices and the IDENTITY (address, length) of its value slice
            let fp = |c: similar::Change<&T>| format!("{}{:?}{:?}@{:x}+{}", tag_char(c.tag()), c.old_index(), c.new_index(), c.value().as_bytes().as_ptr() as usize, c.value().len());
            let want: Vec<String> = diff.iter_all_changes().map(fp).collect();
            super::misc::drive_check(|| diff.iter_all_changes(), fp, &want)
        } else {
            Ok(())
        };
        (all, per, ot, nt, diff.ops().to_vec(), diff.newline_terminated(), diff.algorithm(), diff.ratio().to_bits(),
         (0..=3).all(|n| diff.grouped_ops(n) == similar::group_diff_ops(diff.ops().to_vec(), n)),
         driven, indep)
    }))
    .ok()?;
    let (direct, _, _, direct_probes) =
        obs::with_world(c.dl, false, |inst| similar::capture_diff_slices_deadline(c.alg, diff.old_slices(), diff.new_slices(), inst));
    let (all_changes, op_changes, old_toks, new_toks, ops, nlt, alg, ratio_bits, grouped_consistent, all_driven, toks_independent) = rest;
    let r = (0, old_toks.len(), 0, new_toks.len());
    let ops_repaired = if oracle::carried_exact(r, &ops_calls(&ops)).is_err() {
        let (d2, _, _, _) = obs::with_world(c.dl, true, |inst| build_diff(c, how, inst, old, new).ops().to_vec());
        d2
    } else {
        None
    };
    Some(TextEval { ops, nlt, alg, ratio_bits, grouped_consistent, all_driven, probes, old_toks, new_toks, all_changes, op_changes, direct: direct?, direct_probes, ops_repaired, toks_independent })
}

fn text_eval_mode(c: &TextCfg, how: DlHow, mode: Mode, old: &[u8], new: &[u8]) -> Option<TextEval> {
    match mode {
        Mode::Str => text_eval::<str>(c, how, as_str(old), as_str(new)),
        Mode::Bytes => text_eval::<[u8]>(c, how, old, new),
    }
}

fn text_request(c: &TextCfg, mode: Mode, old: &[u8], new: &[u8]) -> String {
    format!(
        "text {} {} {} {} {} | {} | {} | {} | {}",
        c.kind.name(),
        mode.name(),
        alg_name(c.alg),
        proto::opt(c.dl),
        match c.nlt {
            None => "-",
            Some(false) => "0",
            Some(true) => "1",
        },
        hex(old),
        hex(new),
        seg_section(c.kind, mode, old),
        seg_section(c.kind, mode, new)
    )
}

fn text_answer(ev: &Option<TextEval>) -> String {
    match ev {
        Some(e) => format!(
            "ok N={},{} O={} T={} A={} F={}",
            e.old_toks.len(),
            e.new_toks.len(),
            proto::show_ops(&e.ops),
            if e.nlt { 1 } else { 0 },
            alg_name(e.alg),
            e.ratio_bits
        ),
        None => "panic".to_string(),
    }
}

/// C04 on one expansion into changes
fn check_changes(chs: &[Chg], old: &[u8], new: &[u8]) -> V {
    let (mut o, mut n) = (Vec::with_capacity(old.len()), Vec::with_capacity(new.len()));
    let (mut oi, mut ni) = (0usize, 0usize);
    for (k, c) in chs.iter().enumerate() {
        let want = match c.tag {
            ChangeTag::Equal => (Some(oi), Some(ni)),
            ChangeTag::Delete => (Some(oi), None),
            ChangeTag::Insert => (None, Some(ni)),
        };
        if (c.oi, c.ni) != want {
            return err(format!(
                "change {} ({}) carries indices ({},{}) expected ({},{})",
                k,
                tag_char(c.tag),
                idx_str(c.oi),
                idx_str(c.ni),
                idx_str(want.0),
                idx_str(want.1)
            ));
        }
        if c.tag != ChangeTag::Insert {
            o.extend_from_slice(&c.val);
            oi += 1;
        }
        if c.tag != ChangeTag::Delete {
            n.extend_from_slice(&c.val);
            ni += 1;
        }
    }
    if o != old {
        return err("the non-Insert changes do not concatenate to the old text".to_string());
    }
    if n != new {
        return err("the non-Delete changes do not concatenate to the new text".to_string());
    }
    Ok(())
}

/// tokens as labels for the sequence oracle
fn intern(old: &[Vec<u8>], new: &[Vec<u8>]) -> (Vec<u32>, Vec<u32>) {
    let mut m: HashMap<&[u8], u32> = HashMap::new();
    let mut o = Vec::with_capacity(old.len());
    for t in old {
        let k = m.len() as u32;
        o.push(*m.entry(&t[..]).or_insert(k));
    }
    let mut n = Vec::with_capacity(new.len());
    for t in new {
        let k = m.len() as u32;
        n.push(*m.entry(&t[..]).or_insert(k));
    }
    (o, n)
}

fn ops_calls(ops: &[DiffOp]) -> Vec<Call> {
    ops.iter().map(Call::from_op).collect()
}

/// validators on one evaluated text diff
fn check_text(ctx: &mut Ctx, req: &str, c: &TextCfg, old: &[u8], new: &[u8], ev: &TextEval) {
    let note = if c.kind.external() && !(is_utf8(old) && is_utf8(new)) {
        " (invalid UTF-8 under a Unicode tokenizer: follows from the C06 defect of [u8]::tokenize_unicode_words/tokenize_graphemes)"
    } else {
        ""
    };
    if let Err(e) = check_changes(&ev.all_changes, old, new) {
        ctx.violation("C04", req, format!("iter_all_changes: {}{}", e, note));
    }
    if ev.op_changes != ev.all_changes {
        if let Err(e) = check_changes(&ev.op_changes, old, new) {
            ctx.violation("C04", req, format!("ops + iter_changes: {}", e));
        } else {
            ctx.violation("C04", req, "iter_all_changes differs from ops().flat_map(iter_changes)".to_string());
        }
    }
    // C02: a valid edit script over the tokens
    let (o, n) = intern(&ev.old_toks, &ev.new_toks);
    let calls = ops_calls(&ev.ops);
    let r = (0, o.len(), 0, n.len());
    match oracle::walk(&o, &n, 0, 0, r, &calls, true) {
        Err(e) => ctx.violation("C02", req, e),
        Ok(()) => {
            if let Err(e) = oracle::replay(&o, &n, 0, 0, r, &calls) {
                ctx.violation("C02", req, e);
            }
        }
    }
    // C09 / C11 / C03 / C15: `TextDiff::ops` is a captured op list like any other
    if let Err(e) = oracle::normal_form(&o, &n, 0, 0, &calls) {
        ctx.violation("C09", req, format!("TextDiff::ops: {}", e));
    }
    if let Err(e) = oracle::carried_exact(r, &calls) {
        // attribution: does the failure disappear when THE SAME text diff (same entry point, tokens, algorithm, clock) is
        // built with the swap repair on? (Re-running `capture_diff` on the tokens instead would excuse a stale index
        // that the text layer itself introduces.)
        let fixed = ev.ops_repaired.as_ref().map_or(false, |o2| oracle::carried_exact(r, &ops_calls(o2)).is_ok());
        ctx.violation_k("C11", req, format!("TextDiff::ops: {}", e), if fixed { Some("KF-compact-swap") } else { None });
    }
    if c.dl.is_none() && c.alg != Algorithm::Patience && o.len().saturating_mul(n.len()) <= 2_000_000 {
        let l = oracle::lcs_len(&o, &n);
        let (d, i, e) = oracle::cost(&calls);
        if d + i != o.len() + n.len() - 2 * l || e != l {
            ctx.violation("C03", req, format!("TextDiff::ops: deleted+inserted = {} but N+M-2L = {}", d + i, o.len() + n.len() - 2 * l));
        }
        let want = if o.len() + n.len() == 0 { 1.0 } else { 2.0 * l as f32 / (o.len() + n.len()) as f32 };
        if f32::from_bits(ev.ratio_bits) != want {
            ctx.violation("C03", req, format!("TextDiff::ratio() = {} != 2L/(N+M) = {}", f32::from_bits(ev.ratio_bits), want));
        }
    }
    if let Err(e) = &ev.all_driven {
        ctx.violation("C13", req, format!("iter_all_changes: {}", e));
        ctx.violation("C04", req, format!("which changes iter_all_changes yields (and so what their values concatenate to) depends on how the iterator is consumed: {}", e));
    }
    if !ev.grouped_consistent {
        ctx.violation("C12", req, "TextDiff::grouped_ops(n) differs from group_diff_ops(ops, n)".to_string());
    }
    // C14 / C06: the token slices of the diff are the tokenizer's output for each text on its own
    if !ev.toks_independent {
        let msg = "the token slices of the text diff differ from what the tokenizer returns for that text alone".to_string();
        ctx.violation("C14", req, msg.clone());
        ctx.violation("C06", req, msg.clone());
        ctx.violation("C04", req, msg);
    }
    // C14
    if ev.alg != c.alg {
        ctx.violation("C14", req, format!("algorithm() = {} but {} was configured", alg_name(ev.alg), alg_name(c.alg)));
    }
    let want_nlt = c.nlt.unwrap_or(c.kind == Kind::Lines);
    if ev.nlt != want_nlt {
        ctx.violation("C14", req, format!("newline_terminated() = {} expected {}", ev.nlt, want_nlt));
    }
    if ev.ops != ev.direct {
        let what = format!("ops differ from capture_diff_slices on the token slices: {}", proto::show_ops(&ev.direct));
        if c.dl.is_none() {
            ctx.violation("C14", req, what);
        } else {
            ctx.violation("C07", req, format!("under the same clock, {}", what));
        }
    }
    if c.dl.is_some() && ev.direct_probes > 0 && ev.probes == 0 {
        ctx.violation("C07", req, "the deadline of the builder did not reach the algorithm (no probe)".to_string());
    }
    let (d, i, e) = oracle::cost(&calls);
    if d + i > 0 && e > 0 {
        ctx.nontrivial(req);
    }
}

/// one T2 request (emit + validate); returns the answer and the evaluation
fn text_case(ctx: &mut Ctx, c: &TextCfg, mode: Mode, old: &[u8], new: &[u8]) -> (String, Option<TextEval>) {
    let req = text_request(c, mode, old, new);
    let t0 = Instant::now();
    let ev = text_eval_mode(c, DlHow::Deadline, mode, old, new);
    ctx.add("time_us.case.eval", t0.elapsed().as_micros() as u64);
    let ans = text_answer(&ev);
    ctx.emit(&req, &ans);
    ctx.count(&format!("text.kind.{}.{}", c.kind.name(), mode.name()));
    ctx.count(&format!(
        "text.cell.{}.{}.{}.nlt{}.dl{}",
        c.kind.name(),
        mode.name(),
        alg_name(c.alg),
        match c.nlt {
            None => "-",
            Some(false) => "0",
            Some(true) => "1",
        },
        if c.dl.is_some() { 1 } else { 0 }
    ));
    match &ev {
        None => ctx.violation("C04", &req, "the text diff panicked".to_string()),
        Some(e) => {
            let t1 = Instant::now();
            check_text(ctx, &req, c, old, new, e);
            ctx.add("time_us.case.check_text", t1.elapsed().as_micros() as u64);
            ctx.max("text.max_tokens_per_side", e.old_toks.len().max(e.new_toks.len()) as u64);
        }
    }
    (ans, ev)
}

/// a text diff over the case-insensitive user-defined type: the ops are those of diffing its own token slices directly
/// (under the type's `==`), every change reads its value from the proper side (an Equal change from OLD), and both texts are
/// reconstructed byte for byte
fn case_insensitive_case(ctx: &mut Ctx, c: &TextCfg, old: &[u8], new: &[u8]) {
    use super::custom_str::CiStr;
    let (o, n) = (CiStr::new(old), CiStr::new(new));
    let req = format!("{} [as a case-insensitive user-defined DiffableStr type]", text_request(c, Mode::Bytes, old, new));
    let r = catch_unwind(AssertUnwindSafe(|| {
        let diff = build_diff(c, DlHow::Deadline, None, o, n);
        let direct = similar::capture_diff_slices(c.alg, diff.old_slices(), diff.new_slices());
        let mut bad_side = None;
        let mut so: Vec<u8> = vec![];
        let mut sn: Vec<u8> = vec![];
        // each consumption style must hand out the same value slices (by identity)
        let ids = |it: &mut dyn Iterator<Item = similar::Change<&CiStr>>| -> Vec<(usize, usize)> { it.map(|ch| (ch.value().bytes().as_ptr() as usize, ch.value().len())).collect() };
        let plain = ids(&mut diff.iter_all_changes());
        let last = diff.iter_all_changes().last().map(|ch| (ch.value().bytes().as_ptr() as usize, ch.value().len()));
        let per_op = ids(&mut diff.ops().iter().flat_map(|op| diff.iter_changes(op)));
        for ch in diff.iter_all_changes() {
            let v = ch.value().bytes();
            let want: &[u8] = match (ch.tag(), ch.old_index(), ch.new_index()) {
                (ChangeTag::Insert, _, Some(j)) => diff.new_slices()[j].bytes(),
                (_, Some(i), _) => diff.old_slices()[i].bytes(),
                _ => &[],
            };
            if v.as_ptr() != want.as_ptr() || v.len() != want.len() {
                bad_side = Some(format!("{:?} change at old {:?} / new {:?} carries {:?}, not the token of its side", ch.tag(), ch.old_index(), ch.new_index(), String::from_utf8_lossy(v)));
            }
            if ch.tag() != ChangeTag::Insert {
                so.extend_from_slice(v);
            }
            if ch.tag() != ChangeTag::Delete {
                // an Equal change carries the OLD token; the new text is reconstructed through its index
                sn.extend_from_slice(match ch.new_index() {
                    Some(j) => diff.new_slices()[j].bytes(),
                    None => v,
                });
            }
        }
        (diff.ops().to_vec(), direct, bad_side, so, sn, plain.last().copied() == last, plain == per_op)
    }));
    ctx.count("text.case_insensitive_type_runs");
    match r {
        Err(_) => ctx.violation("C04", &req, "the text diff panicked".to_string()),
        Ok((ops, direct, bad_side, so, sn, last_ok, per_op_ok)) => {
            if ops != direct {
                ctx.violation("C14", &req, format!("ops {} differ from diffing the diff's own token slices directly: {}", proto::show_ops(&ops), proto::show_ops(&direct)));
            }
            // C20, relabelling: folding every token to lower case is an injective relabelling of the type's equality classes, so
            // the `[u8]` diff of the folded texts has the same equality pattern and must have the same ops
            let (lo, ln) = (old.to_ascii_lowercase(), new.to_ascii_lowercase());
            if let Some(folded) = text_eval_mode(c, DlHow::Deadline, Mode::Bytes, &lo, &ln) {
                if folded.ops != ops {
                    ctx.violation("C20", &req, format!("the same equality pattern with other token bytes (everything folded to lower case, as [u8]) gives other ops: {} vs {}", proto::show_ops(&folded.ops), proto::show_ops(&ops)));
                }
            }
            if let Some(e) = bad_side {
                ctx.violation("C13", &req, e.clone());
                ctx.violation("C04", &req, e);
            }
            if so != old || sn != new {
                ctx.violation("C04", &req, "the changes do not reconstruct the texts".to_string());
            }
            if !last_ok || !per_op_ok {
                ctx.violation("C13", &req, "iter_all_changes().last() / the per-op expansion hand out other value slices than plain iteration".to_string());
            }
        }
    }
}

/// a text diff over the TAGGED user-defined type (its `==` is stricter than equality of `as_bytes()`): the stored ops are a valid
/// script under the type's own `==` (Equal ops pair equal tokens), and are those of diffing its token slices directly
fn tagged_case(ctx: &mut Ctx, c: &TextCfg, old: &[u8], new: &[u8]) {
    use super::custom_str::TStr;
    let (o, n) = (TStr::new(old), TStr::new(new));
    let req = format!("{} [as a tagged user-defined DiffableStr type: the first byte of a token counts for ==, as_bytes() leaves it out]", text_request(c, Mode::Bytes, old, new));
    let r = catch_unwind(AssertUnwindSafe(|| {
        let diff = build_diff(c, DlHow::Deadline, None, o, n);
        let direct = similar::capture_diff_slices(c.alg, diff.old_slices(), diff.new_slices());
        let (os, ns) = (diff.old_slices(), diff.new_slices());
        let (mut i, mut j) = (0usize, 0usize);
        let mut bad = None;
        for op in diff.ops() {
            let (tag, orng, nrng) = op.as_tag_tuple();
            let (want_o, want_n) = match tag {
                similar::DiffTag::Equal | similar::DiffTag::Replace => (true, true),
                similar::DiffTag::Delete => (true, false),
                similar::DiffTag::Insert => (false, true),
            };
            if (want_o && orng.start != i) || (want_n && nrng.start != j) || orng.end > os.len() || nrng.end > ns.len() || orng.start > orng.end || nrng.start > nrng.end {
                bad = Some(format!("op {:?} does not start at the next unconsumed items (old {}, new {})", op, i, j));
                break;
            }
            if tag == similar::DiffTag::Equal {
                if orng.len() != nrng.len() {
                    bad = Some(format!("Equal op {:?} with sides of different length", op));
                    break;
                }
                if let Some(k) = (0..orng.len()).find(|&k| os[orng.start + k] != ns[nrng.start + k]) {
                    bad = Some(format!(
                        "Equal op {:?} pairs old token {} ({:?}) with new token {} ({:?}), which are not equal",
                        op,
                        orng.start + k,
                        String::from_utf8_lossy(os[orng.start + k].bytes()),
                        nrng.start + k,
                        String::from_utf8_lossy(ns[nrng.start + k].bytes())
                    ));
                    break;
                }
            }
            if want_o {
                i = orng.end;
            }
            if want_n {
                j = nrng.end;
            }
        }
        if bad.is_none() && (i != os.len() || j != ns.len()) {
            bad = Some(format!("the walk ends at old {} / new {} of {} / {}", i, j, os.len(), ns.len()));
        }
        (diff.ops().to_vec(), direct, bad)
    }));
    ctx.count("text.tagged_type_runs");
    match r {
        Err(_) => ctx.violation("C04", &req, "the text diff panicked".to_string()),
        Ok((ops, direct, bad)) => {
            if let Some(e) = bad {
                ctx.violation("C02", &req, e.clone());
                ctx.violation("C04", &req, e);
            }
            if ops != direct {
                ctx.violation("C14", &req, format!("ops {} differ from diffing the diff's own token slices directly: {}", proto::show_ops(&ops), proto::show_ops(&direct)));
            }
        }
    }
}

/// a pair in every applicable mode, plus the C20 / C07 checks
fn text_pair(ctx: &mut Ctx, c: &TextCfg, old: &[u8], new: &[u8], idx: u64) {
    DRIVE_ITERATORS.with(|d| d.set(true));
    let t0 = Instant::now();
    text_pair_inner(ctx, c, old, new, idx);
    ctx.add("time_us.pair.total", t0.elapsed().as_micros() as u64);
    DRIVE_ITERATORS.with(|d| d.set(true));
}

fn text_pair_inner(ctx: &mut Ctx, c: &TextCfg, old: &[u8], new: &[u8], idx: u64) {
    let valid = is_utf8(old) && is_utf8(new);
    // the gates below must not correlate with how the caller derived kind / algorithm / newline override from the
    // same index: use a scrambled copy
    let gate = (idx ^ 0x5bd1).wrapping_mul(0x9E37_79B9_7F4A_7C15) >> 17;
    let t0 = Instant::now();
    let (_, eb) = text_case(ctx, c, Mode::Bytes, old, new);
    ctx.add("time_us.pair.first_case", t0.elapsed().as_micros() as u64);
    DRIVE_ITERATORS.with(|d| d.set(false));
    let t0 = Instant::now();
    let es = if valid { text_case(ctx, c, Mode::Str, old, new).1 } else { None };
    ctx.add("time_us.pair.second_case", t0.elapsed().as_micros() as u64);
    if !valid {
        ctx.count("text.invalid_utf8_pairs");
        if c.kind.external() {
            ctx.count("text.invalid_utf8_pairs_unicode_tokenizers");
        }
    }
    // C20: str vs bytes
    if let (Some(b), Some(s)) = (&eb, &es) {
        if !c.kind.external() && b.ops != s.ops {
            let req = text_request(c, Mode::Str, old, new);
            ctx.violation("C20", &req, format!("[u8] input gives different ops: {}", proto::show_ops(&b.ops)));
        }
    }
    // a USER-DEFINED text type with a lawful but coarse `Hash` (suites/custom_str.rs): the text diff must be the one of the
    // same bytes as `[u8]` -- tokens are identified by `==`, never by their hash
    if let Some(b) = &eb {
        let (o, n) = (super::custom_str::CStr::new(old), super::custom_str::CStr::new(new));
        let got = catch_unwind(AssertUnwindSafe(|| {
            let diff = build_diff(c, DlHow::Deadline, None, o, n);
            let all: Vec<Chg> = diff.iter_all_changes().map(|ch| conv_change(ch)).collect();
            (diff.ops().to_vec(), all)
        }));
        ctx.count("text.custom_type_runs");
        if c.dl.is_none() {
            let req = text_request(c, Mode::Bytes, old, new);
            match got {
                Err(_) => ctx.violation("C04", &req, "the text diff over a user-defined DiffableStr type panicked".to_string()),
                Ok((ops, all)) => {
                    if let Err(e) = check_changes(&all, old, new) {
                        ctx.violation("C04", &req, format!("text diff over a user-defined DiffableStr type (coarse Hash): {}", e));
                    }
                    if ops != b.ops {
                        let msg = format!("the text diff over a user-defined DiffableStr type whose Hash is coarser than its Eq gives other ops ({}) than the same bytes as [u8]: tokens are told apart by something else than ==", proto::show_ops(&ops));
                        ctx.violation("C20", &req, msg.clone());
                        ctx.violation("C14", &req, msg.clone());
                        ctx.violation("C02", &req, msg);
                    }
                }
            }
        }
    }
    // C20: repeated run, fresh thread
    let mode = if valid && (gate / 3) % 2 == 0 { Mode::Str } else { Mode::Bytes };
    let base = if mode == Mode::Str { &es } else { &eb };
    if let Some(base) = base {
        let req = text_request(c, mode, old, new);
        let again = text_eval_mode(c, DlHow::Deadline, mode, old, new);
        if again.as_ref().map(|e| &e.ops) != Some(&base.ops) {
            ctx.violation("C20", &req, "a second run gives different ops".to_string());
        }
        if (gate / 7) % 32 == 0 && c.dl.is_none() {
            let c2 = *c;
            let th = std::thread::scope(|s| s.spawn(move || text_eval_mode(&c2, DlHow::Deadline, mode, old, new).map(|e| e.ops)).join());
            ctx.count("text.thread_runs");
            if th.ok().flatten().as_ref() != Some(&base.ops) {
                ctx.violation("C20", &req, "a run in a fresh thread gives different ops".to_string());
            }
        }
        // C07 plumbing on a subset: expired deadline, timeout
        if gate % 5 == 0 && c.dl.is_none() {
            let mut c0 = *c;
            c0.dl = Some(0);
            let (_, e0) = text_case(ctx, &c0, mode, old, new);
            ctx.count("text.deadline0_cases");
            if let Some(e0) = e0 {
                if e0.direct_probes > 0 {
                    ctx.count("text.deadline0_cases_probing");
                }
                let req0 = text_request(&c0, mode, old, new);
                match text_eval_mode(&c0, DlHow::Timeout, mode, old, new) {
                    None => ctx.violation("C07", &req0, "with .timeout(..) the diff panicked".to_string()),
                    Some(t) => {
                        if e0.direct_probes > 0 && t.probes == 0 {
                            ctx.violation("C07", &req0, "the timeout of the builder did not reach the algorithm (no probe)".to_string());
                        }
                        if t.ops != e0.ops {
                            ctx.violation("C07", &req0, format!(".timeout(..) under the expired virtual clock gives {}", proto::show_ops(&t.ops)));
                        }
                    }
                }
            }
            if gate % 10 == 0 {
                let mut ck = *c;
                ck.dl = Some(1 + (gate / 11) % 4);
                text_case(ctx, &ck, mode, old, new);
            }
        }
    }
}

const NLTS: [Option<bool>; 3] = [None, Some(false), Some(true)];

/// units that are (about) one token each under `kind`
fn kind_units(rng: &mut Rng, kind: Kind, n: usize) -> Vec<Vec<u8>> {
    let mut v = vec![];
    for i in 0..n {
        let u: String = match kind {
            Kind::Lines | Kind::Lnl => {
                let w = ["foo", "bar", "x", "é y", "", "z z"][rng.below(6)];
                let t = ["\n", "\n", "\r\n", "\r"][rng.below(4)];
                if rng.chance(1, 3) { format!("{}{}{}", w, i, t) } else { format!("{}{}", w, t) }
            }
            Kind::Words => {
                if i % 2 == 0 {
                    ["a", "bb", "é", "x1", "foo", "a\x1cb", "\x1f", "\u{200b}"][rng.below(8)].to_string()
                } else {
                    [" ", "  ", "\n", "\t", "\u{a0}", "\x0b", "\x0c", "\u{85}", "\u{2028}", "\u{3000}", "\r"][rng.below(11)].to_string()
                }
            }
            Kind::Chars => ["a", "b", "c", "é", "\n", " ", "😀"][rng.below(7)].to_string(),
            Kind::UWords => {
                if i % 2 == 0 {
                    ["a", "bb", "é", "x1", "foo", "3.5"][rng.below(6)].to_string()
                } else {
                    [" ", ",", "\n", "-"][rng.below(4)].to_string()
                }
            }
            Kind::Graphemes => ["a", "b", "e\u{301}", "é", " ", "👍🏽", "\r\n"][rng.below(7)].to_string(),
        };
        v.push(u.into_bytes());
    }
    v
}

/// C14, implementation only (the model's first-seen numbering is quadratic, too slow for this size):
/// more than 2^16 distinct tokens — the integer mapping must still be wide enough
fn many_distinct_tokens(ctx: &mut Ctx) {
    // (a) more than 65536 distinct tokens on each side
    let n = 66_000usize;
    let old: String = (0..n).map(|i| format!("{}\n", i)).collect();
    let mut new_lines: Vec<String> = (0..n).map(|i| format!("{}\n", i)).collect();
    new_lines[10] = "x\n".to_string();
    new_lines.insert(40_000, "y\n".to_string());
    new_lines.remove(65_990);
    let new: String = new_lines.concat();
    let req = format!("text lines str myers - - | <{} distinct lines> | <2 edits + 1 deletion> | - | -", n);
    if ctx.take() {
        distinct_tokens_case(ctx, Algorithm::Myers, &req, &old, &new);
    }
    // (b) fewer than 65535 tokens on each side, more than 65536 distinct tokens on the two sides together
    let n = 65_000usize;
    let old: String = (0..n).map(|i| format!("{}\n", i)).collect();
    let new: String = (0..n).map(|i| if i % 100 == 7 { format!("n{}\n", i) } else { format!("{}\n", i) }).collect();
    let req = format!("text lines str patience - - | <{} distinct lines> | <every 100th line replaced by a fresh one: 65650 distinct lines in all> | - | -", n);
    if ctx.take() {
        distinct_tokens_case(ctx, Algorithm::Patience, &req, &old, &new);
    }
    // (b2) ids that WRAP onto the first tokens: old = N distinct lines, new = the same with its first three lines replaced by
    // fresh ones, for N just below / at / above 2^8 and 2^16 -- the fresh tokens are numbered N, N+1, N+2, and in a narrower
    // integer the last of them IS the number of old's first line, which sits right opposite it
    for n in [254usize, 255, 256, 257, 65_533, 65_534, 65_535, 65_536] {
        if !ctx.take() {
            continue;
        }
        let old: String = (0..n).map(|i| format!("l{}\n", i)).collect();
        let new: String = ["A\n", "B\n", "C\n"].iter().map(|s| s.to_string()).chain((3..n).map(|i| format!("l{}\n", i))).collect();
        for alg in [Algorithm::Myers, Algorithm::Patience] {
            let req = format!("text lines str {} - - | <{} distinct lines> | <the same with the first three lines replaced by fresh ones> | - | -", alg_name(alg), n);
            distinct_tokens_case(ctx, alg, &req, &old, &new);
        }
    }
    // (c) a BIRTHDAY case: 400 000 distinct tokens per side, each of them an anchor that decides how its block is aligned
    // (blocks `S_i U_i r r r` against `S_i r r r U_i`, as in the determinism suite). If tokens are identified by
    // anything narrower than the tokens themselves -- a 32-bit hash, a truncated fingerprint -- some two of them almost
    // surely coincide (expected number of coinciding pairs at 32 bits: 400 000^2 / 2^33 = 18.6), both stop being unique,
    // their blocks are aligned differently, and the ops are no longer the ops of the token diff
    if !ctx.take() {
        return;
    }
    // the tokens LOOK random (eleven pseudo-random letters and a hexadecimal counter): on regular tokens such as `S123`
    // a simple multiplicative hash is nearly injective and nothing would coincide
    let nb = 200_000usize;
    let mut old = String::with_capacity(nb * 44);
    let mut new = String::with_capacity(nb * 44);
    let mut rng = Rng::new(0xb1d7);
    let mut word = |rng: &mut Rng, i: usize| -> String {
        let v = rng.next();
        let mut w: String = (0..11).map(|k| (b'a' + ((v >> (5 * k)) & 31) as u8 % 26) as char).collect();
        w.push_str(&format!("{:x}", i));
        w
    };
    for i in 0..nb {
        use std::fmt::Write;
        let (sw, uw) = (word(&mut rng, 2 * i), word(&mut rng, 2 * i + 1));
        let _ = write!(old, "{}\n{}\nr\nr\nr\n", sw, uw);
        let _ = write!(new, "{}\nr\nr\nr\n{}\n", sw, uw);
    }
    let req = format!("text lines str patience - - | <{} blocks S_i U_i r r r> | <{} blocks S_i r r r U_i> | - | -", nb, nb);
    distinct_tokens_case(ctx, Algorithm::Patience, &req, &old, &new);
}

fn distinct_tokens_case(ctx: &mut Ctx, alg: Algorithm, req: &str, old: &str, new: &str) {
    let r = catch_unwind(AssertUnwindSafe(|| {
        let diff = TextDiff::configure().algorithm(alg).diff_lines(old, new);
        let direct = similar::capture_diff_slices(alg, diff.old_slices(), diff.new_slices());
        let bad_equal = diff.ops().iter().any(|op| match *op {
            DiffOp::Equal { old_index, new_index, len } => (0..len).any(|t| diff.old_slices()[old_index + t] != diff.new_slices()[new_index + t]),
            _ => false,
        });
        (diff.ops().to_vec(), direct, bad_equal)
    }));
    ctx.count("text.many_distinct_tokens_cases");
    match r {
        Err(_) => {
            ctx.violation("C14", req, "text diff over more than 65536 distinct tokens panicked".to_string());
            ctx.violation("C04", req, "text diff over more than 65536 distinct tokens panicked: no changes to reconstruct the texts from".to_string());
            ctx.violation("C02", req, "text diff over more than 65536 distinct tokens panicked: no op list".to_string());
            if alg != Algorithm::Patience {
                ctx.violation("C03", req, "text diff over more than 65536 distinct tokens panicked: no script, minimal or not".to_string());
            }
        }
        Ok((ops, direct, bad_equal)) => {
            if bad_equal {
                ctx.violation("C14", req, "an Equal op covers tokens that are not equal (two items got one number)".to_string());
                ctx.violation("C04", req, "an Equal op covers tokens that are not equal: the changes do not reconstruct the new text".to_string());
                ctx.violation("C02", req, "an Equal op covers tokens that are not equal".to_string());
            }
            if ops != direct {
                ctx.violation("C14", req, format!("ops differ from capture_diff_slices on the token slices ({} vs {} ops)", ops.len(), direct.len()));
            }
        }
    }
}

/// Implementation only (too big for the model's quadratic tables): a changed middle of more than 1024 x 1024 line pairs
/// between a shared head and tail, all algorithms, through every text-level validator (C04 reconstruction and
/// indices, C02 walk, C09 normal form, C11 positions, C03 minimality, C14 = diff of the token slices)
fn big_middle_text_cases(ctx: &mut Ctx) {
    let head: String = (0..5).map(|i| format!("head {}\n", i)).collect();
    let tail: String = (0..5).map(|i| format!("tail {}\n", i)).collect();
    let mid_old: String = (0..1100).map(|i| format!("old {}\n", i)).collect();
    let mid_new: String = (0..1100).map(|i| if i % 50 == 3 { format!("old {}\n", i) } else { format!("new {}\n", i) }).collect();
    let old = format!("{}{}{}", head, mid_old, tail);
    let new = format!("{}{}{}", head, mid_new, tail);
    for alg in ALGS {
        if !ctx.take() {
            continue;
        }
        let c = TextCfg { kind: Kind::Lines, alg, nlt: None, dl: None };
        let req = format!("text lines str {} - - | <5 shared lines, 1100 old lines, 5 shared lines> | <5 shared, 1100 lines of which every 50th is kept, 5 shared> | - | -", alg_name(alg));
        ctx.count("text.big_middle_cases");
        match text_eval_mode(&c, DlHow::Deadline, Mode::Str, old.as_bytes(), new.as_bytes()) {
            None => ctx.violation("C04", &req, "the text diff panicked".to_string()),
            Some(e) => check_text(ctx, &req, &c, old.as_bytes(), new.as_bytes(), &e),
        }
    }
    // DISJOINT middles (nothing in common, so even the quadratic table of LCS stays empty and cheap) of 3 300 x 3 300 lines
    // (> 10^7 cells; thorough: 10 001 x 10 001 > 10^8 for LCS) between a shared head and tail: whatever an algorithm does
    // above some table / work size must still report the shared ends
    let sizes: &[usize] = if ctx.tier == Tier::Quick { &[3300, 6000] } else { &[3300, 6000, 10_001] };
    for &m in sizes {
        let mid_old: String = (0..m).map(|i| format!("o{}\n", i)).collect();
        let mid_new: String = (0..m + 7).map(|i| format!("n{}\n", i)).collect();
        // a second shape: ALMOST disjoint -- one item at the very start of the old middle occurs twice near the start of
        // the new middle (the table stays tiny), so that WHICH occurrence is matched tells the algorithms apart
        let mid_old2 = format!("a\n{}", mid_old);
        let mid_new2 = format!("b\na\na\n{}", mid_new);
        for (h, t, shape) in [(5usize, 5usize, 0usize), (0, 3, 0), (4, 0, 0), (0, 0, 1), (3, 2, 1)] {
            let (mid_old, mid_new) = if shape == 0 { (&mid_old, &mid_new) } else { (&mid_old2, &mid_new2) };
            let head: String = (0..h).map(|i| format!("head {}\n", i)).collect();
            let tail: String = (0..t).map(|i| format!("tail {}\n", i)).collect();
            let old = format!("{}{}{}", head, mid_old, tail);
            let new = format!("{}{}{}", head, mid_new, tail);
            for alg in ALGS {
                if m > 4000 && alg != Algorithm::Lcs {
                    continue;
                }
                if !ctx.take() {
                    continue;
                }
                let c = TextCfg { kind: Kind::Lines, alg, nlt: None, dl: None };
                let req = format!("text lines str {} - - | <{} shared lines, {} old lines, {} shared lines> | <{} shared, {} other lines, {} shared> | - | -", alg_name(alg), h, m, t, h, m + 7, t);
                ctx.count("text.big_disjoint_middle_cases");
                match text_eval_mode(&c, DlHow::Deadline, Mode::Str, old.as_bytes(), new.as_bytes()) {
                    None => ctx.violation("C04", &req, "the text diff panicked".to_string()),
                    Some(e) => check_text(ctx, &req, &c, old.as_bytes(), new.as_bytes(), &e),
                }
            }
        }
    }
}

/// C07 on the REAL clock (no virtual clock installed): a deadline in the past behaves like the virtual clock that is
/// expired from the first probe; a deadline / timeout far in the future like no deadline; a `timeout` counts from
/// the moment the diff is made, not from the moment the builder was configured (the builder is kept for longer than
/// its timeout before it is used).
fn hour_ahead() -> Duration {
    Duration::from_secs(3600)
}

fn wall_clock_cases(ctx: &mut Ctx) {
    use similar::verif_hooks;
    // every other line of the changed middle is common: the shortest script keeps those lines, the expired-deadline
    // fallback replaces the whole middle, so "expired or not" is visible in the ops
    let old: String = (0..40).map(|i| if i % 2 == 0 { format!("common {}\n", i) } else { format!("old line {}\n", i * 7 % 41) }).collect();
    let new: String = (0..44).map(|i| if i % 2 == 0 { format!("common {}\n", i) } else { format!("new line {}\n", i * 5 % 47) }).collect();
    let shared: String = (0..30).map(|i| format!("{}\n", i % 9)).collect();
    let (old, new) = (format!("{}{}{}", shared, old, shared), format!("{}{}x\n{}", shared, new, shared));
    verif_hooks::clear_clock();
    let mut kept: Vec<(Algorithm, similar::TextDiffConfig)> = vec![];
    for alg in ALGS {
        let mut cfg = TextDiff::configure();
        cfg.algorithm(alg).timeout(Duration::from_millis(900));
        kept.push((alg, cfg));
    }
    let configured = Instant::now();
    for alg in ALGS {
        let req = format!("text lines str {} wall-clock | {} | {}", alg_name(alg), hex(old.as_bytes()), hex(new.as_bytes()));
        let none = catch_unwind(AssertUnwindSafe(|| TextDiff::configure().algorithm(alg).diff_lines(&old, &new).ops().to_vec())).ok();
        let c0 = TextCfg { kind: Kind::Lines, alg, nlt: None, dl: Some(0) };
        let virt0 = text_eval_mode(&c0, DlHow::Deadline, Mode::Str, old.as_bytes(), new.as_bytes()).map(|e| e.ops);
        verif_hooks::clear_clock();
        let past = Instant::now();
        std::thread::sleep(Duration::from_millis(3));
        let real_past = catch_unwind(AssertUnwindSafe(|| TextDiff::configure().algorithm(alg).deadline(past).diff_lines(&old, &new).ops().to_vec())).ok();
        let real_future = catch_unwind(AssertUnwindSafe(|| {
            TextDiff::configure().algorithm(alg).deadline(Instant::now() + Duration::from_secs(3600)).diff_lines(&old, &new).ops().to_vec()
        }))
        .ok();
        let real_timeout = catch_unwind(AssertUnwindSafe(|| TextDiff::configure().algorithm(alg).timeout(Duration::from_secs(3600)).diff_lines(&old, &new).ops().to_vec())).ok();
        let o: Vec<&str> = old.split_inclusive('\n').collect();
        let n: Vec<&str> = new.split_inclusive('\n').collect();
        let cap_past = catch_unwind(AssertUnwindSafe(|| similar::capture_diff_slices_deadline(alg, &o, &n, Some(past)))).ok();
        ctx.count("text.wall_clock_cases");
        if none != virt0 {
            ctx.count("text.wall_clock_cases_where_expiry_is_visible");
        }
        if real_past != virt0 || cap_past != virt0 {
            ctx.violation("C07", &req, "a deadline in the past (real clock) does not give the result of the virtual clock expired from the first probe".to_string());
        }
        if real_future != none || real_timeout != none {
            ctx.violation("C07", &req, "a deadline / timeout one hour ahead (real clock) does not give the result of no deadline".to_string());
        }
        // state must not leak from one call into the next: a diff under a deadline an hour ahead (of several sizes, so that
        // any per-call counter is left at different values), THEN a diff under a deadline in the past -- repeated
        for k in 0..5usize {
            let warm_old: String = (0..(7 + 13 * k)).map(|i| format!("w{}\n", i)).collect();
            let warm_new: String = (0..(7 + 13 * k)).map(|i| if i % 3 == 0 { format!("v{}\n", i) } else { format!("w{}\n", i) }).collect();
            let _ = catch_unwind(AssertUnwindSafe(|| TextDiff::configure().algorithm(alg).deadline(Instant::now() + hour_ahead()).diff_lines(&warm_old, &warm_new).ops().len()));
            // ... also for a pair with a SHORT edit script (two single-line changes far apart): a few probes answered "in
            // time" by mistake are enough to let this diff run to completion instead of giving up
            let small_old: String = (0..30).map(|i| format!("s{}\n", i)).collect();
            let small_new: String = (0..30).map(|i| if i == 4 || i == 25 { format!("S{}\n", i) } else { format!("s{}\n", i) }).collect();
            let cs = TextCfg { kind: Kind::Lines, alg, nlt: None, dl: Some(0) };
            let small_virt0 = text_eval_mode(&cs, DlHow::Deadline, Mode::Str, small_old.as_bytes(), small_new.as_bytes()).map(|e| e.ops);
            verif_hooks::clear_clock();
            let _ = catch_unwind(AssertUnwindSafe(|| TextDiff::configure().algorithm(alg).deadline(Instant::now() + hour_ahead()).diff_lines(&warm_old, &warm_new).ops().len()));
            let got_small = catch_unwind(AssertUnwindSafe(|| TextDiff::configure().algorithm(alg).deadline(past).diff_lines(&small_old, &small_new).ops().to_vec())).ok();
            if got_small != small_virt0 {
                ctx.violation("C07", &req, format!("after a diff under a live deadline (warm-up {}), a short diff under a deadline in the past does not give the expired result: state leaks between calls", k));
                ctx.violation("C20", &req, "the same inputs under the same (passed) deadline give different ops depending on what ran before".to_string());
            }
            let _ = catch_unwind(AssertUnwindSafe(|| TextDiff::configure().algorithm(alg).deadline(Instant::now() + hour_ahead()).diff_lines(&warm_old, &warm_new).ops().len()));
            for rep in 0..2 {
                let got = catch_unwind(AssertUnwindSafe(|| TextDiff::configure().algorithm(alg).deadline(past).diff_lines(&old, &new).ops().to_vec())).ok();
                if got != virt0 {
                    ctx.violation("C07", &req, format!("after a diff under a live deadline (warm-up {}), call {} under a deadline in the past does not give the expired result: state leaks between calls", k, rep + 1));
                    ctx.violation("C20", &req, "the same inputs under the same (passed) deadline give different ops depending on what ran before".to_string());
                }
            }
        }
        // the setters OVERRIDE each other: whichever of `deadline` / `timeout` was called last on one builder decides
        let hour = Duration::from_secs(3600);
        let seqs: [(&str, &dyn Fn(&mut similar::TextDiffConfig), bool); 8] = [
            // a timeout too long to be added to the clock means "no deadline", it must not overflow
            ("timeout(Duration::MAX)", &|c| { c.timeout(Duration::MAX); }, false),
            ("deadline(past) then timeout(u64::MAX seconds)", &|c| { c.deadline(past); c.timeout(Duration::from_secs(u64::MAX)); }, false),
            ("deadline(past) then timeout(1h)", &|c| { c.deadline(past); c.timeout(hour); }, false),
            ("timeout(1h) then deadline(past)", &|c| { c.timeout(hour); c.deadline(past); }, true),
            ("deadline(in 1h) then timeout(0)", &|c| { c.deadline(Instant::now() + hour); c.timeout(Duration::from_secs(0)); }, true),
            ("timeout(0) then deadline(in 1h)", &|c| { c.timeout(Duration::from_secs(0)); c.deadline(Instant::now() + hour); }, false),
            ("deadline(past) then deadline(in 1h)", &|c| { c.deadline(past); c.deadline(Instant::now() + hour); }, false),
            ("timeout(0) then timeout(1h)", &|c| { c.timeout(Duration::from_secs(0)); c.timeout(hour); }, false),
        ];
        for (what, set, expired) in seqs {
            let got = catch_unwind(AssertUnwindSafe(|| {
                let mut cfg = TextDiff::configure();
                cfg.algorithm(alg);
                set(&mut cfg);
                cfg.diff_lines(&old, &new).ops().to_vec()
            }))
            .ok();
            let want = if expired { &virt0 } else { &none };
            if &got != want {
                ctx.violation("C07", &req, format!("one builder, {}: the result is not that of {}", what, if expired { "an expired deadline" } else { "no deadline" }));
            }
        }
    }
    // the kept builders: wait until more than their timeout has passed since they were configured
    let wait = Duration::from_millis(1000).saturating_sub(configured.elapsed());
    std::thread::sleep(wait);
    for (alg, cfg) in &kept {
        let req = format!("text lines str {} kept-builder-timeout | {} | {}", alg_name(*alg), hex(old.as_bytes()), hex(new.as_bytes()));
        let none = TextDiff::configure().algorithm(*alg).diff_lines(&old, &new).ops().to_vec();
        let t0 = Instant::now();
        let got = cfg.diff_lines(&old, &new).ops().to_vec();
        // (if the diff itself took anywhere near the timeout the comparison would be meaningless: it takes microseconds)
        if t0.elapsed() < Duration::from_millis(300) && got != none {
            ctx.violation("C07", &req, "a builder configured with .timeout(900ms) and used 1 s later behaves as if the deadline had passed: the timeout must count from the diff".to_string());
        }
    }
}

/// wall time of the blocks of a suite, summed over the shards into the evidence (`time_ms.<block>`)
fn lap(ctx: &mut Ctx, t: &mut Instant, what: &str) {
    ctx.add(&format!("time_ms.{}", what), t.elapsed().as_millis() as u64);
    *t = Instant::now();
}

pub fn suite_text(ctx: &mut Ctx) {
    let mut t_lap = Instant::now();
    // the big implementation-only cases take their shard turn one by one (inside), so that the shards share them
    many_distinct_tokens(ctx);
    if ctx.take() {
        wall_clock_cases(ctx);
    }
    big_middle_text_cases(ctx);
    const PIECES: [&str; 8] = ["a\n", "b\n", "a\r\n", "c\r", "a", " ", "é", "x y"];
    let (nrand, nbig) = match ctx.tier {
        Tier::Quick => (3000, 20),
        Tier::Thorough => (40000, 300),
    };
    lap(ctx, &mut t_lap, "big_cases");
    // exhaustive: texts of up to 2 pieces, every kind and algorithm
    let t2 = small_texts(&PIECES, 2);
    let nlt_all = ctx.tier == Tier::Thorough;
    let mut k = 0u64;
    for old in &t2 {
        for new in &t2 {
            for kind in Kind::DIFF {
                for alg in ALGS {
                    k += 1;
                    for (ni, nlt) in NLTS.iter().enumerate() {
                        if !nlt_all && ni as u64 != k % 3 {
                            continue;
                        }
                        if !ctx.take() {
                            continue;
                        }
                        let c = TextCfg { kind, alg, nlt: *nlt, dl: None };
                        text_pair(ctx, &c, old, new, k * 3 + ni as u64);
                    }
                }
            }
        }
    }
    // texts of up to 3 pieces, one configuration per pair (thorough only, every third pair)
    if ctx.tier == Tier::Thorough {
        let t3 = small_texts(&PIECES, 3);
        let mut k = 0u64;
        for old in &t3 {
            for new in &t3 {
                k += 1;
                if k % 3 != 1 {
                    continue;
                }
                if !ctx.take() {
                    continue;
                }
                let h = k / 3;
                let c = TextCfg { kind: Kind::DIFF[(h % 5) as usize], alg: ALGS[((h / 5) % 3) as usize], nlt: NLTS[((h / 15) % 3) as usize], dl: None };
                text_pair(ctx, &c, old, new, h);
            }
        }
    }
    lap(ctx, &mut t_lap, "exhaustive_small");
    // random texts with a few edits, a quarter of them with broken UTF-8
    for i in 0..nrand as u64 {
        if !ctx.take() {
            continue;
        }
        let mut rng = case_rng(ctx, 0x7e87, i);
        let invalid = i % 4 == 3;
        let mut base = random_units(&mut rng, 6, invalid);
        let edits = rng.below(5);
        let mut new = edit_units(&mut rng, &base, edits, invalid);
        if i % 3 == 1 && !invalid {
            asciify(&mut base);
            asciify(&mut new);
            ctx.count("text.random_pairs.ascii_only");
        }
        let (old, new) = (concat(&base), concat(&new));
        let c = TextCfg { kind: Kind::DIFF[(i % 5) as usize], alg: ALGS[((i / 5) % 3) as usize], nlt: NLTS[((i / 15) % 3) as usize], dl: None };
        ctx.count("text.random_pairs");
        text_pair(ctx, &c, &old, &new, i);
    }
    lap(ctx, &mut t_lap, "random_pairs");
    // long RUNS of identical tokens with an edit inside a run, on both sides of the 100-token switch, with no deadline, with a
    // deadline that has expired before the call and with one that expires at the second check (a head / tail computed over
    // the whole texts overlaps exactly here)
    let nruns = if ctx.tier == Tier::Quick { 150u64 } else { 1500 };
    for i in 0..nruns {
        if !ctx.take() {
            continue;
        }
        let mut rng = case_rng(ctx, 0x10c6f, i);
        let kind = Kind::DIFF[(i % 5) as usize];
        let (old, new) = long_run_pair(&mut rng, kind);
        let mode = if is_utf8(&old) && is_utf8(&new) && i % 2 == 0 { Mode::Str } else { Mode::Bytes };
        for dl in [None, Some(0), Some(1)] {
            let c = TextCfg { kind, alg: ALGS[((i / 5) % 3) as usize], nlt: None, dl };
            ctx.count("text.long_run_cases");
            text_case(ctx, &c, mode, &old, &new);
            text_case(ctx, &c, mode, &new, &old);
        }
    }
    // NEAR-ALIASES: one token of old replaced in new by a token that differs from it only by padding / tag bytes (NULs, a
    // high byte, a length byte, a BOM), inside more than 100 short tokens -- whatever packs, pads or truncates tokens into
    // fixed-width keys confuses exactly such a pair; `[u8]` and (where valid) `str`
    {
        let pads: Vec<Box<dyn Fn(&[u8]) -> Vec<u8>>> = vec![
            Box::new(|t| [t, &vec![0u8; 7usize.saturating_sub(t.len())][..], &[0xf8 | t.len() as u8][..]].concat()),
            Box::new(|t| [t, &vec![0u8; 7usize.saturating_sub(t.len())][..], &[t.len() as u8][..]].concat()),
            Box::new(|t| [t, &[0u8][..]].concat()),
            Box::new(|t| [&[0u8][..], t].concat()),
            Box::new(|t| [t, &[0xffu8][..]].concat()),
            Box::new(|t| [t, &[0x80 | t.len() as u8][..]].concat()),
            Box::new(|t| [t, "\u{feff}".as_bytes()].concat()),
            Box::new(|t| [t, &vec![b' '; 0][..], &[0x7fu8][..]].concat()),
        ];
        for (pi, pad) in pads.iter().enumerate() {
            for tl in 0..8usize {
                if !ctx.take() {
                    continue;
                }
                let t: Vec<u8> = b"abcdefgh"[..tl].to_vec();
                let alias = pad(&t);
                for (kind, sep) in [(Kind::Words, &b" x"[..]), (Kind::Lines, &b"\n"[..])] {
                    let filler: Vec<u8> = (0..52).flat_map(|_| sep.iter().copied()).collect();
                    let old: Vec<u8> = [&t[..], &filler[..]].concat();
                    let new: Vec<u8> = [&alias[..], &filler[..]].concat();
                    let c = TextCfg { kind, alg: ALGS[(pi + tl) % 3], nlt: None, dl: None };
                    ctx.count("text.near_alias_cases");
                    text_pair(ctx, &c, &old, &new, (pi * 8 + tl) as u64);
                    // the pair in the MIDDLE of the tokens
                    let old2: Vec<u8> = [&filler[..], sep, &t[..], &filler[..]].concat();
                    let new2: Vec<u8> = [&filler[..], sep, &alias[..], &filler[..]].concat();
                    text_pair(ctx, &c, &old2, &new2, (pi * 8 + tl) as u64 + 1);
                }
            }
        }
    }
    // the case-insensitive user-defined type: some tokens of new differ from old only in case (equal under the type's `==`, not
    // byte-identical), a few really differ; below and above the 100-token switch; lines and words
    let nci = if ctx.tier == Tier::Quick { 400u64 } else { 5000 };
    for i in 0..nci {
        if !ctx.take() {
            continue;
        }
        let mut rng = case_rng(ctx, 0xc15e, i);
        let n = if i % 3 == 0 { rng.range(3, 30) } else { rng.range(101, 130) };
        let sep = if i % 2 == 0 { "\n" } else { " " };
        let old: Vec<String> = (0..n).map(|k| format!("tok{}{}", ["a", "b", "c"][k % 3], k / (1 + i as usize % 4))).collect();
        let mut new = old.clone();
        for _ in 0..rng.range(1, 6) {
            let at = rng.below(new.len());
            new[at] = new[at].to_uppercase();
        }
        for _ in 0..rng.below(3) {
            let at = rng.below(new.len());
            match rng.below(3) {
                0 => {
                    new.remove(at);
                }
                1 => new.insert(at, format!("NEW{}", at)),
                _ => new[at] = format!("changed{}", at),
            }
        }
        let (o, nn) = (old.join(sep) + sep, new.join(sep) + sep);
        let c = TextCfg { kind: if i % 2 == 0 { Kind::Lines } else { Kind::Words }, alg: ALGS[((i / 2) % 3) as usize], nlt: None, dl: None };
        case_insensitive_case(ctx, &c, o.as_bytes(), nn.as_bytes());
        case_insensitive_case(ctx, &c, nn.as_bytes(), o.as_bytes());
    }
    // the tagged user-defined type: some tokens of new differ from old ONLY in their tag byte (unequal under the type's `==`,
    // identical in what `as_bytes` renders), a few really differ; below and above the 100-token switch; lines and words
    let ntag = if ctx.tier == Tier::Quick { 400u64 } else { 5000 };
    for i in 0..ntag {
        if !ctx.take() {
            continue;
        }
        let mut rng = case_rng(ctx, 0x7a66ed, i);
        let n = if i % 3 == 0 { rng.range(3, 30) } else { rng.range(101, 130) };
        let sep = if i % 2 == 0 { "\n" } else { " " };
        let old: Vec<String> = (0..n).map(|k| format!("{}tok{}", ["A", "B", "C"][k % 3], k / (1 + i as usize % 4))).collect();
        let mut new = old.clone();
        for _ in 0..rng.range(1, 6) {
            let at = rng.below(new.len());
            let retag = ["X", "Y"][rng.below(2)];
            new[at] = format!("{}{}", retag, &new[at][1..]);
        }
        for _ in 0..rng.below(3) {
            let at = rng.below(new.len());
            match rng.below(3) {
                0 => {
                    new.remove(at);
                }
                1 => new.insert(at, format!("Nnew{}", at)),
                _ => new[at] = format!("Cchanged{}", at),
            }
        }
        let (o, nn) = (old.join(sep) + sep, new.join(sep) + sep);
        let c = TextCfg { kind: if i % 2 == 0 { Kind::Lines } else { Kind::Words }, alg: ALGS[((i / 2) % 3) as usize], nlt: None, dl: None };
        tagged_case(ctx, &c, o.as_bytes(), nn.as_bytes());
        tagged_case(ctx, &c, nn.as_bytes(), o.as_bytes());
    }
    // PASTED lines: an old text of distinct lines, a new text in which a few of them are dropped and a few EXISTING lines are
    // pasted in a second time elsewhere (nothing repeats in old, shared lines repeat in new), on both sides of the 100-token
    // switch -- the shape in which an insertion can slide although "nothing repeats"
    let npaste = if ctx.tier == Tier::Quick { 4000u64 } else { 40000 };
    for i in 0..npaste {
        if !ctx.take() {
            continue;
        }
        let mut rng = case_rng(ctx, 0x9a57e, i);
        let n = if i % 3 == 0 { rng.range(6, 40) } else { rng.range(101, 140) };
        let old: Vec<String> = (0..n).map(|k| format!("k{}\n", k)).collect();
        let mut new = old.clone();
        // all of it inside one window of ten lines (drops and interleaved pastes close together), sometimes anywhere
        let w = rng.below(n.saturating_sub(10).max(1));
        let span = if rng.chance(4, 5) { 10.min(n) } else { n };
        let w = if span == n { 0 } else { w };
        for _ in 0..rng.below(3) {
            let at = (w + rng.below(span)).min(new.len() - 1);
            new.remove(at);
        }
        for _ in 0..rng.range(2, 4) {
            let src = w + rng.below(span);
            let at = (w + rng.below(span + 1)).min(new.len());
            new.insert(at, old[src].clone());
        }
        let c = TextCfg { kind: Kind::Lines, alg: [Algorithm::Patience, Algorithm::Patience, Algorithm::Patience, Algorithm::Patience, Algorithm::Myers, Algorithm::Lcs][(i % 6) as usize], nlt: None, dl: None };
        ctx.count("text.pasted_line_cases");
        let (o, nn) = (old.concat(), new.concat());
        if i % 5 == 0 {
            text_pair(ctx, &c, nn.as_bytes(), o.as_bytes(), i);
        } else {
            text_pair(ctx, &c, o.as_bytes(), nn.as_bytes(), i);
        }
    }
    // a terminator change (CR / CRLF / LF / none) right behind a shared head, on both sides of the 100-token switch
    for (j, (o, n)) in terminator_change_pairs(&[0, 2, 99, 130]).into_iter().enumerate() {
        if !ctx.take() {
            continue;
        }
        let c = TextCfg { kind: [Kind::Lines, Kind::Words, Kind::Chars][j % 3], alg: ALGS[(j / 3) % 3], nlt: None, dl: None };
        ctx.count("text.terminator_change_cases");
        text_pair(ctx, &c, &o, &n, j as u64);
    }
    lap(ctx, &mut t_lap, "terminator_change");
    // a shared head of more than 100 tokens followed by short tails that repeat tokens of the head: what is unique
    // in a tail alone is not unique in the whole text (C14: the text diff is the diff of ALL the tokens)
    for alg in ALGS {
        for j in 0..(nbig * 2) as u64 {
            if !ctx.take() {
                continue;
            }
            let mut rng = case_rng(ctx, 0x4ead + alg as u64, j);
            let chars = j % 2 == 1;
            let tok = |t: u32| -> Vec<u8> {
                // t < 4: the letters that recur; otherwise a distinct token
                if chars {
                    char::from_u32(if t < 4 { 'a' as u32 + t } else { 0x100 + t }).unwrap().to_string().into_bytes()
                } else if t < 4 {
                    format!("{}\n", ["x", "a", "b", "c"][t as usize]).into_bytes()
                } else {
                    format!("h{}\n", t).into_bytes()
                }
            };
            // mostly just above the 100-token switch; every fourth case far above it (any further size threshold of a
            // "trim the shared ends of LARGE texts first" step lies well below 10 000 tokens or is irrelevant in practice)
            let n = if j % 4 == 3 { [4100, 4300, 8200, 9000][((j / 4) % 4) as usize] + rng.below(50) } else { rng.range(101, 125) };
            let mut head: Vec<u32> = (0..n as u32).map(|i| 10 + i).collect();
            for t in 0..rng.range(1, 3) as u32 {
                let at = rng.below(head.len());
                head[at] = t; // letter t occurs once in the head
            }
            let mut tail = |rng: &mut Rng| -> Vec<u32> {
                let mut v: Vec<u32> = (0..rng.range(2, 4)).map(|_| 1 + rng.below(2) as u32).collect();
                let at = rng.below(v.len() + 1);
                v.insert(at, 0);
                if rng.chance(1, 3) {
                    let at = rng.below(v.len() + 1);
                    v.insert(at, 3);
                }
                v
            };
            let (to, tn) = (tail(&mut rng), tail(&mut rng));
            // the shared part in front (a head), or -- every eighth case -- behind the short differing parts (a tail)
            let (old, new): (Vec<Vec<u8>>, Vec<Vec<u8>>) = if j % 8 == 6 {
                (to.iter().chain(head.iter()).map(|&t| tok(t)).collect(), tn.iter().chain(head.iter()).map(|&t| tok(t)).collect())
            } else {
                (head.iter().chain(to.iter()).map(|&t| tok(t)).collect(), head.iter().chain(tn.iter()).map(|&t| tok(t)).collect())
            };
            let c = TextCfg { kind: if chars { Kind::Chars } else { Kind::Lines }, alg, nlt: NLTS[(j % 3) as usize], dl: None };
            ctx.count("text.long_shared_head_cases");
            if n > 4000 {
                // implementation only (the model's `unique` and id table are quadratic): the validators decide -- C14
                // (= diff of the token slices), C04, C02, C09, C11, C03 -- in both modes
                ctx.count("text.long_shared_head_cases.over_4000_tokens");
                let (o, nn) = (concat(&old), concat(&new));
                for mode in [Mode::Bytes, Mode::Str] {
                    let req = text_request(&c, mode, &o, &nn);
                    match text_eval_mode(&c, DlHow::Deadline, mode, &o, &nn) {
                        None => ctx.violation("C04", &req, "the text diff panicked".to_string()),
                        Some(e) => check_text(ctx, &req, &c, &o, &nn, &e),
                    }
                }
                continue;
            }
            text_pair(ctx, &c, &concat(&old), &concat(&new), j);
        }
    }
    lap(ctx, &mut t_lap, "long_shared_head");
    // both sides of the 100-token switch (C14)
    for kind in Kind::DIFF {
        for alg in ALGS {
            for j in 0..nbig as u64 {
                if !ctx.take() {
                    continue;
                }
                let mut rng = case_rng(ctx, 0xb16 + kind as u64 * 7 + alg as u64, j);
                let n = rng.range(95, 110);
                let base = kind_units(&mut rng, kind, n);
                let mut new = base.clone();
                if rng.chance(1, 3) && new.len() > 20 {
                    // drop a block: moves one side across the switch
                    let l = rng.range(5, 15);
                    let at = rng.below(new.len() - l);
                    new.drain(at..at + l);
                }
                for _ in 0..rng.below(6) {
                    let fresh = kind_units(&mut rng, kind, 2);
                    match rng.below(3) {
                        0 if !new.is_empty() => {
                            let at = rng.below(new.len());
                            new.remove(at);
                        }
                        1 => {
                            let at = rng.below(new.len() + 1);
                            new.insert(at, fresh[at % 2].clone());
                        }
                        _ if !new.is_empty() => {
                            let at = rng.below(new.len());
                            new[at] = fresh[at % 2].clone();
                        }
                        _ => {}
                    }
                }
                let (mut old, mut new) = (concat(&base), concat(&new));
                if rng.chance(1, 2) {
                    std::mem::swap(&mut old, &mut new);
                }
                let c = TextCfg { kind, alg, nlt: NLTS[(j % 3) as usize], dl: None };
                text_pair(ctx, &c, &old, &new, j);
                // which side of the switch did this case exercise?
                let (a, b) = (tokenize(kind, &old[..]).len(), tokenize(kind, &new[..]).len());
                let side = match (a > 100, b > 100) {
                    (true, true) => "both_gt100",
                    (false, false) => "both_le100",
                    _ => "one_gt100",
                };
                ctx.count(&format!("text.big.{}.{}", alg_name(alg), side));
                if a > 100 || b > 100 {
                    ctx.count("text.cases_gt100_tokens");
                }
            }
        }
    }
}

/* ------------------------------------------------------------------------------------------ */
/* T3 unified diffs (C05)                                                                     */

#[derive(Clone, Copy, Debug, PartialEq, Eq)]
struct UCfg {
    alg: Algorithm,
    radius: usize,
    hdr: bool,
    hint: bool,
    writer: bool,
    /// override of `newline_terminated` (None: the line diff's own `true`)
    nlt: Option<bool>,
}

struct URender {
    ops: Vec<DiffOp>,
    old_toks: Vec<Vec<u8>>,
    new_toks: Vec<Vec<u8>>,
    nlt: bool,
    display: Option<Vec<u8>>,
    writer: Option<Vec<u8>>,
}

/// an `io::Write` with `write`/`flush` only, accepting at most `max` bytes per call
struct PlainSink {
    buf: Vec<u8>,
    max: usize,
}
impl std::io::Write for PlainSink {
    fn write(&mut self, b: &[u8]) -> std::io::Result<usize> {
        let k = b.len().min(self.max);
        self.buf.extend_from_slice(&b[..k]);
        Ok(k)
    }
    fn flush(&mut self) -> std::io::Result<()> {
        Ok(())
    }
}

/// an `io::Write` with its OWN `write_vectored`: accepts at most `max` bytes per call, counted across the buffers of one
/// vectored call (so a call may end in the middle of any buffer); every `every`-th call fails with `Interrupted` first
struct VectoredSink {
    buf: Vec<u8>,
    max: usize,
    every: usize,
    calls: usize,
}
impl VectoredSink {
    fn tick(&mut self) -> std::io::Result<()> {
        self.calls += 1;
        if self.every > 0 && self.calls % self.every == 0 {
            return Err(std::io::Error::new(std::io::ErrorKind::Interrupted, "try again"));
        }
        Ok(())
    }
}
impl std::io::Write for VectoredSink {
    fn write(&mut self, b: &[u8]) -> std::io::Result<usize> {
        self.tick()?;
        let k = b.len().min(self.max);
        self.buf.extend_from_slice(&b[..k]);
        Ok(k)
    }
    fn write_vectored(&mut self, bufs: &[std::io::IoSlice<'_>]) -> std::io::Result<usize> {
        self.tick()?;
        let mut left = self.max;
        let mut n = 0;
        for b in bufs {
            let k = b.len().min(left);
            self.buf.extend_from_slice(&b[..k]);
            n += k;
            left -= k;
            if left == 0 {
                break;
            }
        }
        Ok(n)
    }
    fn flush(&mut self) -> std::io::Result<()> {
        Ok(())
    }
}

/// builds the line diff (with the swap repair switched on if `repair`) and renders it both ways
fn render_udiff<T: DiffableStr + ?Sized>(c: &UCfg, repair: bool, old: &T, new: &T) -> Option<URender> {
    let (r, _, _, _) = obs::with_world(None, repair, |_| {
        let mut cfg = TextDiff::configure();
        cfg.algorithm(c.alg);
        if let Some(b) = c.nlt {
            cfg.newline_terminated(b);
        }
        let diff = cfg.diff_lines(old, new);
        let mut u = diff.unified_diff();
        u.context_radius(c.radius).missing_newline_hint(c.hint);
        if c.hdr {
            u.header("a.txt", "b.txt");
        }
        let display = catch_unwind(AssertUnwindSafe(|| u.to_string().into_bytes())).ok();
        let writer = catch_unwind(AssertUnwindSafe(|| {
            let mut w: Vec<u8> = Vec::new();
            u.to_writer(&mut w).expect("writing to a Vec cannot fail");
            // the same through sinks that implement only `write` (no vectored writes) and that accept
            // only a few bytes per call: every line's bytes must still arrive unchanged
            let mut plain = PlainSink { buf: vec![], max: usize::MAX };
            u.to_writer(&mut plain).expect("writing to a sink cannot fail");
            let mut short = PlainSink { buf: vec![], max: 3 };
            u.to_writer(&mut short).expect("writing to a sink cannot fail");
            if plain.buf != w || short.buf != w {
                // make the difference visible to the validators as a writer output that is not the Vec output
                w = if plain.buf != w { plain.buf } else { short.buf };
                w.extend_from_slice(b"\n<sink output differs from Vec output>");
            }
            // sinks with their own vectored write that take 1, 2, 3, 4, 5, 7, 31 bytes per call (a call may end inside the
            // tag, the line body or the trailer), some of them interrupting every third call
            for (max, every) in [(1usize, 0usize), (2, 0), (3, 0), (4, 3), (5, 0), (7, 2), (31, 0)] {
                let mut v = VectoredSink { buf: vec![], max, every, calls: 0 };
                u.to_writer(&mut v).expect("writing to a sink cannot fail");
                if v.buf != w && !w.ends_with(b"differs from Vec output>") {
                    w = v.buf;
                    w.extend_from_slice(format!("\n<output through a writer taking {} bytes per vectored call differs from Vec output>", max).as_bytes());
                }
            }
            w
        }))
        .ok();
        // (1) a formatter is a reusable object: render once with OTHER settings, reconfigure, render again --
        // the result must be what a fresh formatter gives; (2) the hunk-wise entry points (`iter_hunks`,
        // `UnifiedDiffHunk::{header, ops, to_writer, Display}`) must add up to the whole-diff output.
        // A difference is made visible to the validators and to the model comparison as a marked output.
        let consistent = catch_unwind(AssertUnwindSafe(|| -> Result<(), String> {
            let mut u2 = diff.unified_diff();
            u2.context_radius(if c.radius % 2 == 0 { c.radius + 2 } else { 0 }).missing_newline_hint(!c.hint);
            let _ = u2.to_string();
            let _ = u2.iter_hunks().count();
            let mut sink: Vec<u8> = Vec::new();
            let _ = u2.to_writer(&mut sink);
            u2.context_radius(c.radius).missing_newline_hint(c.hint);
            if c.hdr {
                u2.header("a.txt", "b.txt");
            }
            let d2 = u2.to_string().into_bytes();
            let mut w2: Vec<u8> = Vec::new();
            u2.to_writer(&mut w2).map_err(|e| e.to_string())?;
            if Some(&d2) != display.as_ref() {
                return Err("a formatter that was used before with other settings renders differently (Display)".to_string());
            }
            // compare with the plain Vec writer output (before any sink marking)
            let mut w1: Vec<u8> = Vec::new();
            u.to_writer(&mut w1).map_err(|e| e.to_string())?;
            if w2 != w1 {
                return Err("a formatter that was used before with other settings renders differently (to_writer)".to_string());
            }
            let mut by_hunk_d = String::new();
            let mut by_hunk_w: Vec<u8> = Vec::new();
            let groups: Vec<Vec<DiffOp>> = diff.grouped_ops(c.radius).into_iter().filter(|g| !g.is_empty()).collect();
            let mut k = 0;
            for h in u.iter_hunks() {
                if k == 0 && c.hdr {
                    by_hunk_d.push_str("--- a.txt\n+++ b.txt\n");
                    by_hunk_w.extend_from_slice(b"--- a.txt\n+++ b.txt\n");
                }
                let hs = h.to_string();
                let head = h.header().to_string();
                if hs.lines().next() != Some(head.as_str()) {
                    return Err(format!("hunk {}: header() = {:?} is not the first line of the hunk", k, head));
                }
                if groups.get(k).map(|g| &g[..]) != Some(h.ops()) {
                    return Err(format!("hunk {}: ops() differ from the grouped ops", k));
                }
                if h.missing_newline_hint() != c.hint {
                    return Err(format!("hunk {}: missing_newline_hint() = {}", k, h.missing_newline_hint()));
                }
                let want: Vec<String> = h.ops().iter().flat_map(|op| diff.iter_changes(op)).map(|ch| format!("{:?}", conv_change(ch))).collect();
                let got: Vec<String> = h.iter_changes().map(|ch| format!("{:?}", conv_change(ch))).collect();
                if want != got {
                    return Err(format!("hunk {}: iter_changes() differs from the expansion of its ops", k));
                }
                if want.len() <= 40 {
                    super::misc::drive_check(|| h.iter_changes(), |ch| format!("{:?}", conv_change(ch)), &want).map_err(|e| format!("hunk {}: iter_changes(): {}", k, e))?;
                }
                by_hunk_d.push_str(&hs);
                h.to_writer(&mut by_hunk_w).map_err(|e| e.to_string())?;
                k += 1;
            }
            if k != groups.len() {
                return Err(format!("iter_hunks yields {} hunks for {} non-empty groups", k, groups.len()));
            }
            if k <= 12 {
                let want: Vec<String> = u.iter_hunks().map(|h| h.to_string()).collect();
                super::misc::drive_check(|| u.iter_hunks(), |h| h.to_string(), &want).map_err(|e| format!("iter_hunks(): {}", e))?;
            }
            if Some(by_hunk_d.as_bytes()) != display.as_deref() {
                return Err("the hunks of iter_hunks (Display) do not add up to the whole diff".to_string());
            }
            if by_hunk_w != w1 {
                return Err("the hunks of iter_hunks (to_writer) do not add up to the whole diff".to_string());
            }
            Ok(())
        }))
        .unwrap_or_else(|_| Err("panic while re-using the formatter / iterating hunks".to_string()));
        let (display, writer) = match consistent {
            Ok(()) => (display, writer),
            Err(e) => {
                let mark = |o: Option<Vec<u8>>| {
                    o.map(|mut v| {
                        v.extend_from_slice(format!("\n<{}>", e).as_bytes());
                        v
                    })
                };
                (mark(display), mark(writer))
            }
        };
        URender {
            ops: diff.ops().to_vec(),
            old_toks: diff.old_slices().iter().map(|t| t.as_bytes().to_vec()).collect(),
            new_toks: diff.new_slices().iter().map(|t| t.as_bytes().to_vec()).collect(),
            nlt: diff.newline_terminated(),
            display,
            writer,
        }
    });
    r
}

fn render_udiff_mode(c: &UCfg, repair: bool, mode: Mode, old: &[u8], new: &[u8]) -> Option<URender> {
    match mode {
        Mode::Str => render_udiff::<str>(c, repair, as_str(old), as_str(new)),
        Mode::Bytes => render_udiff::<[u8]>(c, repair, old, new),
    }
}

fn udiff_request(c: &UCfg, r: &URender) -> String {
    format!(
        "udiff {} {} {} {} {} | {} | {} | {}",
        c.radius,
        c.hdr as u8,
        r.nlt as u8,
        c.hint as u8,
        if c.writer { "writer" } else { "display" },
        proto::show_ops(&r.ops),
        toks_hex(&r.old_toks),
        toks_hex(&r.new_toks)
    )
}

fn udiff_answer(c: &UCfg, r: &Option<URender>) -> String {
    match r {
        None => "panic".to_string(),
        Some(r) => match if c.writer { &r.writer } else { &r.display } {
            None => "panic".to_string(),
            Some(b) => format!("ok U={}", hex(b)),
        },
    }
}

struct Hunk {
    os: usize,
    ol: usize,
    ns: usize,
    nl: usize,
    header: String,
    /// tag, content (with its terminator), followed by the no-newline marker
    body: Vec<(u8, Vec<u8>, bool)>,
}

const NO_NEWLINE: &[u8] = b"\\ No newline at end of file\n";

fn parse_num(s: &str) -> Result<usize, String> {
    if s.is_empty() || !s.bytes().all(|b| b.is_ascii_digit()) {
        return err(format!("bad number {:?} in a hunk header", s));
    }
    s.parse().map_err(|_| format!("bad number {:?} in a hunk header", s))
}

fn parse_hunk_range(s: &str) -> Result<(usize, usize), String> {
    match s.split_once(',') {
        Some((a, b)) => Ok((parse_num(a)?, parse_num(b)?)),
        None => Ok((parse_num(s)?, 1)),
    }
}

/// strict, tag-first, count-driven parser of a unified diff
fn parse_udiff(p: &[u8], header: bool) -> Result<Vec<Hunk>, String> {
    let mut hunks = vec![];
    if p.is_empty() {
        return Ok(hunks);
    }
    let mut pos = 0;
    if header {
        for want in [&b"--- a.txt\n"[..], &b"+++ b.txt\n"[..]] {
            if !p[pos..].starts_with(want) {
                return err(format!("file header line {:?} missing", String::from_utf8_lossy(want)));
            }
            pos += want.len();
        }
        if pos >= p.len() {
            return err("file header without a hunk".to_string());
        }
    }
    while pos < p.len() {
        let eol = match p[pos..].iter().position(|&b| b == b'\n') {
            Some(k) => pos + k,
            None => return err("hunk header line not terminated".to_string()),
        };
        let h = std::str::from_utf8(&p[pos..eol]).map_err(|_| "hunk header is not UTF-8".to_string())?.to_string();
        pos = eol + 1;
        let inner = h.strip_prefix("@@ -").and_then(|x| x.strip_suffix(" @@")).ok_or_else(|| format!("bad hunk header {:?}", h))?;
        let (a, b) = inner.split_once(" +").ok_or_else(|| format!("bad hunk header {:?}", h))?;
        let (os, ol) = parse_hunk_range(a)?;
        let (ns, nl) = parse_hunk_range(b)?;
        let (mut oc, mut nc) = (0usize, 0usize);
        let mut body = vec![];
        while oc < ol || nc < nl {
            if pos >= p.len() {
                return err(format!("{}: the body has fewer lines than the header says", h));
            }
            let tag = p[pos];
            if tag != b' ' && tag != b'-' && tag != b'+' {
                return err(format!("{}: body line with tag {:?} (the header counts more lines than the body has?)", h, tag as char));
            }
            pos += 1;
            let st = pos;
            let mut e = st;
            loop {
                if e >= p.len() {
                    return err(format!("{}: the output ends inside a body line", h));
                }
                if p[e] == b'\n' || p[e] == b'\r' {
                    break;
                }
                e += 1;
            }
            let (content, marker);
            if p[e] == b'\r' {
                if e + 1 < p.len() && p[e + 1] == b'\n' {
                    content = p[st..e + 2].to_vec();
                    pos = e + 2;
                } else {
                    content = p[st..=e].to_vec();
                    pos = e + 1;
                }
                marker = false;
            } else if p[e + 1..].starts_with(NO_NEWLINE) {
                content = p[st..e].to_vec();
                pos = e + 1 + NO_NEWLINE.len();
                marker = true;
            } else {
                content = p[st..=e].to_vec();
                pos = e + 1;
                marker = false;
            }
            match tag {
                b' ' => {
                    oc += 1;
                    nc += 1;
                }
                b'-' => oc += 1,
                _ => nc += 1,
            }
            if oc > ol || nc > nl {
                return err(format!("{}: the body has more {} lines than the header says", h, if oc > ol { "old" } else { "new" }));
            }
            body.push((tag, content, marker));
        }
        if pos < p.len() && !p[pos..].starts_with(b"@@ -") {
            return err(format!("{}: the body has more lines than the header says", h));
        }
        hunks.push(Hunk { os, ol, ns, nl, header: h, body });
    }
    Ok(hunks)
}

struct UStats {
    hunks: usize,
}

/// strict parse + apply + shape of the hunks
fn check_apply(equal_inputs: bool, old_lines: &[Vec<u8>], new_lines: &[Vec<u8>], patch: &[u8], radius: usize, header: bool) -> Result<UStats, String> {
    if equal_inputs {
        return if patch.is_empty() { Ok(UStats { hunks: 0 }) } else { err("equal inputs but the output is not empty".to_string()) };
    }
    let hunks = parse_udiff(patch, header)?;
    if hunks.is_empty() {
        return err("the inputs differ but the output has no hunk".to_string());
    }
    let mut out: Vec<&[u8]> = vec![];
    let mut oi = 0usize;
    for h in &hunks {
        let ostart = if h.ol == 0 { h.os } else { h.os.checked_sub(1).ok_or_else(|| format!("{}: old start 0 with a non-zero count", h.header))? };
        let nstart = if h.nl == 0 { h.ns } else { h.ns.checked_sub(1).ok_or_else(|| format!("{}: new start 0 with a non-zero count", h.header))? };
        if ostart < oi {
            return err(format!("{}: overlaps the previous hunk (which ended at old line {})", h.header, oi));
        }
        if ostart > old_lines.len() {
            return err(format!("{}: old start beyond the old text", h.header));
        }
        while oi < ostart {
            out.push(&old_lines[oi]);
            oi += 1;
        }
        if nstart != out.len() {
            return err(format!("{}: new start says {} preceding lines but there are {}", h.header, nstart, out.len()));
        }
        for (k, (tag, content, marker)) in h.body.iter().enumerate() {
            let lacks = !ends_with_newline(content);
            if *marker != lacks {
                return err(format!("{}: body line {}: no-newline marker {} but the line {} a terminator", h.header, k, marker, if lacks { "lacks" } else { "has" }));
            }
            match *tag {
                b' ' | b'-' => {
                    if old_lines.get(oi).map(|l| &l[..]) != Some(&content[..]) {
                        return err(format!("{}: body line {} ({:?}) does not match old line {}", h.header, k, *tag as char, oi + 1));
                    }
                    if *tag == b' ' {
                        out.push(&old_lines[oi]);
                    }
                    oi += 1;
                }
                _ => out.push(content),
            }
        }
        // shape
        let tags: Vec<u8> = h.body.iter().map(|b| b.0).collect();
        if tags.iter().all(|&t| t == b' ') {
            return err(format!("{}: hunk without a change", h.header));
        }
        let lead = tags.iter().take_while(|&&t| t == b' ').count();
        let trail = tags.iter().rev().take_while(|&&t| t == b' ').count();
        if lead > radius || trail > radius {
            return err(format!("{}: {} leading / {} trailing context lines with radius {}", h.header, lead, trail, radius));
        }
        let mut seen_plus = false;
        for &t in &tags {
            match t {
                b' ' => seen_plus = false,
                b'+' => seen_plus = true,
                _ => {
                    if seen_plus {
                        return err(format!("{}: a '-' line after a '+' line inside one run of changes", h.header));
                    }
                }
            }
        }
    }
    while oi < old_lines.len() {
        out.push(&old_lines[oi]);
        oi += 1;
    }
    if concat(&out) != concat(new_lines) {
        return err("applying the hunks to old does not give new".to_string());
    }
    Ok(UStats { hunks: hunks.len() })
}

fn lossy(b: &[u8]) -> Vec<u8> {
    String::from_utf8_lossy(b).into_owned().into_bytes()
}

/// C05 on one rendering (hint on, newline-terminated)
fn validate_udiff(c: &UCfg, old: &[u8], new: &[u8], r: &URender) -> Result<UStats, String> {
    let (d, w) = match (&r.display, &r.writer) {
        (Some(d), Some(w)) => (d, w),
        (None, _) => return err("Display panicked".to_string()),
        (_, None) => return err("to_writer panicked".to_string()),
    };
    let valid = is_utf8(old) && is_utf8(new);
    let raw = |t: &[u8]| -> Vec<Vec<u8>> { split_lines(t).iter().map(|l| l.to_vec()).collect() };
    let dec = |t: &[u8]| -> Vec<Vec<u8>> { split_lines(t).iter().map(|l| lossy(l)).collect() };
    if c.writer {
        let st = check_apply(old == new, &raw(old), &raw(new), w, c.radius, c.hdr).map_err(|e| {
            let note = if !valid && is_utf8(w) { " (the lines are not valid UTF-8 but the to_writer output is: the hunks are formatted lossily)" } else { "" };
            format!("to_writer: {}{}", e, note)
        })?;
        if valid && w != d {
            return err("to_writer output differs from Display on valid UTF-8".to_string());
        }
        if !valid && *d != lossy(w) {
            return err("Display is not the lossy decoding of the to_writer output".to_string());
        }
        Ok(st)
    } else if valid {
        let st = check_apply(old == new, &raw(old), &raw(new), d, c.radius, c.hdr).map_err(|e| format!("Display: {}", e))?;
        if w != d {
            return err("Display differs from the to_writer output on valid UTF-8".to_string());
        }
        Ok(st)
    } else {
        // Display of broken UTF-8: the patch between the lossily decoded lines
        let st = check_apply(old == new, &dec(old), &dec(new), d, c.radius, c.hdr).map_err(|e| format!("Display (lossy): {}", e))?;
        if *d != lossy(w) {
            return err("Display is not the lossy decoding of the to_writer output".to_string());
        }
        Ok(st)
    }
}

/// one T3 request: emit, validate, attribute; returns the answer
fn udiff_case(ctx: &mut Ctx, c: &UCfg, mode: Mode, old: &[u8], new: &[u8]) -> String {
    let r = render_udiff_mode(c, false, mode, old, new);
    let ans = udiff_answer(c, &r);
    let r = match r {
        Some(r) => r,
        None => {
            let req = format!("udiff {} {} 1 {} {} | ? | {} | {}", c.radius, c.hdr as u8, c.hint as u8, if c.writer { "writer" } else { "display" }, hex(old), hex(new));
            ctx.emit(&req, &ans);
            ctx.violation("C05", &req, "building the line diff panicked (request shows the raw texts)".to_string());
            return ans;
        }
    };
    let req = udiff_request(c, &r);
    ctx.emit(&req, &ans);
    ctx.count(&format!("udiff.{}.{}", mode.name(), if c.writer { "writer" } else { "display" }));
    // configuration cells (a generator whose flags are correlated leaves cells empty: visible in the evidence)
    ctx.count(&format!(
        "udiff.cell.{}.hdr{}.hint{}.nlt{}.{}",
        alg_name(c.alg),
        c.hdr as u8,
        c.hint as u8,
        match c.nlt {
            None => "-",
            Some(false) => "0",
            Some(true) => "1",
        },
        if c.writer { "writer" } else { "display" }
    ));
    if ans == "panic" {
        ctx.violation("C05", &req, "rendering panicked".to_string());
        return ans;
    }
    // a LINE diff is newline-terminated unless the caller said otherwise, whatever the texts look like (also two one-line
    // texts without any terminator): otherwise the renderer appends a newline to every line and never marks a missing one
    let want_nlt = c.nlt.unwrap_or(true);
    if r.nlt != want_nlt {
        ctx.violation("C05", &req, format!("newline_terminated() of the line diff is {} (configured: {:?}): the rendered patch cannot mark lines that lack a final newline", r.nlt, c.nlt));
    }
    if !(c.hint && r.nlt) {
        ctx.count("udiff.unchecked_variants");
        return ans;
    }
    match validate_udiff(c, old, new, &r) {
        Ok(st) => {
            if st.hunks >= 1 && r.ops.iter().any(|o| o.tag() == DiffTag::Equal) {
                ctx.nontrivial(&req);
            }
            if st.hunks >= 2 {
                ctx.count("udiff.outputs_ge2_hunks");
            }
            ctx.max("udiff.max_hunks", st.hunks as u64);
        }
        Err(e) => {
            // attribution: does the failure disappear when the compaction swap repairs its carried indices?
            let fixed = render_udiff_mode(c, true, mode, old, new).map_or(false, |r2| validate_udiff(c, old, new, &r2).is_ok());
            // keep room in the (capped) violation record for both kinds; every failure is counted
            let (key, known, cap) = if fixed { ("violations.C05.known", Some("KF-compact-swap-udiff"), 60) } else { ("violations.C05", None, 100) };
            if ctx.stats.get(key).copied().unwrap_or(0) < cap {
                ctx.violation_k("C05", &req, e, known);
            } else {
                ctx.count(key);
            }
        }
    }
    ctx.max("udiff.max_lines_per_side", r.old_toks.len().max(r.new_toks.len()) as u64);
    ans
}

/// line texts: up to `max` terminated lines, optionally followed by an unterminated last line
fn line_texts(max: usize) -> Vec<Vec<u8>> {
    let base = small_texts(&["a\n", "b\n", "a\r\n", "c\r"], max);
    let mut v = vec![];
    for b in &base {
        for tail in ["", "a", "b"] {
            let mut t = b.clone();
            t.extend_from_slice(tail.as_bytes());
            v.push(t);
        }
    }
    v
}

/// a longer line text and an edited copy; `invalid`: broken UTF-8 inside some lines
fn random_line_pair(rng: &mut Rng, invalid: bool) -> (Vec<u8>, Vec<u8>) {
    let n = rng.range(4, 60);
    let line = |rng: &mut Rng, i: usize| -> Vec<u8> {
        let mut l: Vec<u8> = match rng.below(5) {
            0 => b"x".to_vec(),
            1 => format!("é{}", i % 7).into_bytes(),
            _ => format!("line{}", i).into_bytes(),
        };
        if invalid && rng.chance(1, 3) {
            let at = rng.below(l.len() + 1);
            let bad = BAD[rng.below(BAD.len())];
            for (k, b) in bad.iter().enumerate() {
                l.insert(at + k, *b);
            }
        }
        l.extend_from_slice(["\n", "\n", "\n", "\r\n", "\r"][rng.below(5)].as_bytes());
        l
    };
    let old: Vec<Vec<u8>> = (0..n).map(|i| line(rng, i)).collect();
    let mut new = old.clone();
    for e in 0..rng.range(1, 5) {
        match rng.below(3) {
            0 if new.len() > 1 => {
                let at = rng.below(new.len());
                new.remove(at);
            }
            1 => {
                let at = rng.below(new.len() + 1);
                let l = line(rng, 100 + e);
                new.insert(at, l);
            }
            _ => {
                let at = rng.below(new.len());
                new[at] = line(rng, 200 + e);
            }
        }
    }
    let strip = |rng: &mut Rng, v: &mut Vec<Vec<u8>>| {
        if rng.chance(1, 4) {
            if let Some(l) = v.last_mut() {
                while matches!(l.last(), Some(b'\n') | Some(b'\r')) {
                    l.pop();
                }
                if l.is_empty() {
                    l.push(b'z');
                }
            }
        }
    };
    let mut old = old;
    strip(rng, &mut old);
    strip(rng, &mut new);
    (concat(&old), concat(&new))
}

pub fn suite_udiff(ctx: &mut Ctx) {
    let (max_lines, max_radius, sample4, nrand) = match ctx.tier {
        Tier::Quick => (2, 3, 0u64, 3000u64),
        Tier::Thorough => (3, 4, 16, 30000),
    };
    // LINE LENGTH sweep through the renderer: a changed last line without final newline (the marker is appended to it), a
    // changed line with newline and a context line, of every length 0..=600 and around 1024 / 4096 (a line buffer of any
    // plausible size has its boundary in here), Display and writer
    let mut lens: Vec<usize> = (0..=600).collect();
    lens.extend_from_slice(&[1000, 1021, 1022, 1023, 1024, 1025, 2047, 2048, 4094, 4095, 4096, 4097, 8191, 8192]);
    for (li, &len) in lens.iter().enumerate() {
        if !ctx.take() {
            continue;
        }
        let body: String = std::iter::repeat('x').take(len).collect();
        let ctxl: String = std::iter::repeat('c').take(len / 2 + 1).collect();
        let old = format!("{}\nkeep\n{}", ctxl, body);
        let new = format!("{}\nkeep\n{}\n", ctxl, body);
        let old2 = format!("{}y\n{}\n", body, ctxl);
        let new2 = format!("{}z\n{}", body, ctxl);
        for (o, n) in [(&old, &new), (&new, &old), (&old2, &new2)] {
            for writer in [true, false] {
                let c = UCfg { alg: ALGS[li % 3], radius: li % 3, hdr: li % 2 == 0, hint: true, writer, nlt: None };
                ctx.count("udiff.line_length_sweep");
                udiff_case(ctx, &c, if li % 2 == 0 { Mode::Str } else { Mode::Bytes }, o.as_bytes(), n.as_bytes());
            }
        }
    }
    // a diff whose f32 ratio rounds to exactly 1.0 although the texts differ (2^23 + 1 identical lines, one removed): it must
    // still render its hunk (implementation only)
    if ctx.take() {
        let n = (1usize << 23) + 1;
        let old: String = "x\n".repeat(n);
        let new: String = "x\n".repeat(n - 1);
        let req = "udiff 1 0 1 1 writer | <TextDiff of 2^23+1 identical lines vs 2^23: one deletion, ratio rounds to 1.0>".to_string();
        let r = catch_unwind(AssertUnwindSafe(|| {
            let diff = TextDiff::from_lines(&old[..], &new[..]);
            let u = diff.unified_diff();
            let hunks = u.iter_hunks().count();
            let text = u.to_string();
            let mut w: Vec<u8> = vec![];
            let _ = u.to_writer(&mut w);
            (hunks, text, w, diff.ratio())
        }));
        ctx.count("udiff.huge_ratio_rounding_case");
        match r {
            Err(_) => ctx.violation("C05", &req, "rendering a large diff panicked".to_string()),
            Ok((hunks, text, w, ratio)) => {
                let want = "@@ -8388606,4 +8388606,3 @@\n x\n x\n x\n-x\n";
                if hunks != 1 || text != want || w != want.as_bytes() {
                    ctx.violation("C05", &req, format!("the texts differ (ratio() = {}) but the unified diff has {} hunks and reads {:?}", ratio, hunks, &text[..text.len().min(80)]));
                }
            }
        }
    }
    let texts = line_texts(max_lines);
    let short = |t: &Vec<u8>| split_lines(t).len() <= 2;
    let mut k = 0u64;
    let mut pair = 0u64;
    for old in &texts {
        for new in &texts {
            pair += 1;
            for (ai, alg) in ALGS.into_iter().enumerate() {
                // texts of more than 2 lines: one algorithm per pair
                if !(short(old) && short(new)) && pair % 3 != ai as u64 {
                    continue;
                }
                for radius in 0..=max_radius {
                    k += 1;
                    if !ctx.take() {
                        continue;
                    }
                    // header, sink and mode rotate
                    let c = UCfg { alg, radius, hdr: k % 2 == 0, hint: true, writer: (k / 2) % 2 == 0, nlt: None };
                    let mode = if (k / 4) % 2 == 0 { Mode::Str } else { Mode::Bytes };
                    udiff_case(ctx, &c, mode, old, new);
                    if k % 16 == 5 {
                        // variants that are only rendered (and must not panic)
                        // (k % 16 == 5 fixes the parity of k / 2: both sinks explicitly)
                        for writer in [false, true] {
                            udiff_case(ctx, &UCfg { hint: false, writer, ..c }, mode, old, new);
                            udiff_case(ctx, &UCfg { nlt: Some(false), writer, ..c }, mode, old, new);
                            udiff_case(ctx, &UCfg { nlt: Some(false), hint: false, writer, ..c }, mode, old, new);
                        }
                    }
                }
            }
        }
    }
    if sample4 > 0 {
        let texts = line_texts(4);
        let mut k = 0u64;
        for old in &texts {
            for new in &texts {
                k += 1;
                if k % sample4 != 3 {
                    continue;
                }
                if !ctx.take() {
                    continue;
                }
                let h = k / sample4;
                let c = UCfg { alg: ALGS[(h % 3) as usize], radius: ((h / 3) % 4) as usize, hdr: h % 2 == 0, hint: true, writer: (h / 2) % 2 == 0, nlt: None };
                udiff_case(ctx, &c, if (h / 4) % 2 == 0 { Mode::Str } else { Mode::Bytes }, old, new);
            }
        }
    }
    for i in 0..nrand {
        if !ctx.take() {
            continue;
        }
        let mut rng = case_rng(ctx, 0x0d1ff, i);
        let invalid = i % 3 == 2;
        let (old, new) = random_line_pair(&mut rng, invalid);
        let mode = if invalid || i % 2 == 0 { Mode::Bytes } else { Mode::Str };
        if invalid {
            ctx.count("udiff.invalid_utf8_pairs");
        }
        for writer in [false, true] {
            let c = UCfg { alg: ALGS[((i / 7) % 3) as usize], radius: ((i / 3) % (max_radius as u64 + 1)) as usize, hdr: (i / 15) % 2 == 0, hint: true, writer, nlt: None };
            udiff_case(ctx, &c, mode, &old, &new);
        }
        if i % 20 == 0 {
            let c = UCfg { alg: ALGS[((i / 7) % 3) as usize], radius: 1, hdr: true, hint: false, writer: i % 40 == 0, nlt: None };
            udiff_case(ctx, &c, mode, &old, &new);
        }
        if i % 20 == 10 {
            for writer in [false, true] {
                let c = UCfg { alg: ALGS[((i / 7) % 3) as usize], radius: (i % 3) as usize, hdr: i % 40 == 10, hint: i % 80 < 40, writer, nlt: Some(false) };
                udiff_case(ctx, &c, mode, &old, &new);
            }
        }
    }
}

/* ------------------------------------------------------------------------------------------ */
/* T4 inline changes (C16)                                                                    */

#[derive(Clone, Debug, PartialEq, Eq)]
struct IChg {
    tag: ChangeTag,
    oi: Option<usize>,
    ni: Option<usize>,
    segs: Vec<(bool, Vec<u8>)>,
    missing_newline: bool,
}

/// word segmentation (external segmenter) of each line, `;` separated
fn word_segs(mode: Mode, lines: &[Vec<u8>]) -> String {
    if lines.is_empty() {
        return "-".to_string();
    }
    lines.iter().map(|l| lens_str(&ext_seg(Kind::UWords, mode, l))).collect::<Vec<_>>().join(";")
}

fn inline_answer(r: &Option<Vec<IChg>>) -> String {
    match r {
        None => "panic".to_string(),
        Some(v) => format!(
            "ok L={}",
            v.iter()
                .map(|c| {
                    format!(
                        "{}.{}.{}:{}",
                        tag_char(c.tag),
                        idx_str(c.oi),
                        idx_str(c.ni),
                        c.segs.iter().map(|(e, b)| format!("e{}{}", *e as u8, hex(b))).collect::<Vec<_>>().join("+")
                    )
                })
                .collect::<Vec<_>>()
                .join(";")
        ),
    }
}

fn check_inline(op: &DiffOp, plain: &[Chg], got: &[IChg]) -> V {
    if got.len() != plain.len() {
        return err(format!("{} inline changes but {} plain changes", got.len(), plain.len()));
    }
    for (k, (g, p)) in got.iter().zip(plain).enumerate() {
        if (g.tag, g.oi, g.ni) != (p.tag, p.oi, p.ni) {
            return err(format!(
                "change {}: inline ({},{},{}) but plain ({},{},{})",
                k,
                tag_char(g.tag),
                idx_str(g.oi),
                idx_str(g.ni),
                tag_char(p.tag),
                idx_str(p.oi),
                idx_str(p.ni)
            ));
        }
        let cat: Vec<u8> = g.segs.iter().flat_map(|(_, b)| b.iter().copied()).collect();
        if cat != p.val {
            return err(format!("change {}: the segments concatenate to {} but the line is {}", k, hex(&cat), hex(&p.val)));
        }
        for (e, b) in &g.segs {
            if *e {
                if op.tag() != DiffTag::Replace || g.tag == ChangeTag::Equal {
                    return err(format!("change {}: emphasised segment outside a Delete/Insert of a Replace op", k));
                }
                if b.iter().any(|&x| x == b'\n' || x == b'\r') {
                    return err(format!("change {}: emphasised segment {} contains a line break", k, hex(b)));
                }
            }
            if b.is_empty() {
                return err(format!("change {}: empty segment", k));
            }
        }
        if g.missing_newline != p.missing_newline {
            return err(format!("change {}: missing_newline() = {} but the plain change says {}", k, g.missing_newline, p.missing_newline));
        }
    }
    Ok(())
}

/// every op of the line diff of (old, new) x every deadline: one T4 request each
fn inline_pair<T: DiffableStr + ?Sized>(ctx: &mut Ctx, alg: Algorithm, mode: Mode, old: &T, new: &T, dls: &[Option<u64>]) {
    // the builder's `newline_terminated` override must not change the inline expansion (it only tells renderers whether to
    // add a newline): a third of the pairs each with the flag left alone, forced off and forced on
    let nlt = [None, Some(false), Some(true)][(old.len() + 2 * new.len()) % 3];
    // a quarter of the pairs: the LINE diff itself is made under a deadline that has expired (or expires at the second
    // check), so its Replace ops may contain lines that are identical on both sides -- the inline expansion must cope
    let line_dl = [None, None, None, Some(0u64), None, None, Some(1), None][(3 * old.len() + new.len()) % 8];
    let (diff, _, _, _) = obs::with_world(line_dl, false, |inst| {
        let mut cfg = TextDiff::configure();
        cfg.algorithm(alg);
        if let Some(b) = nlt {
            cfg.newline_terminated(b);
        }
        if let Some(i) = inst {
            cfg.deadline(i);
        }
        cfg.diff_lines(old, new)
    });
    if line_dl.is_some() {
        ctx.count("inline.line_diffs_made_under_an_expiring_deadline");
    }
    ctx.count(&format!("inline.newline_terminated_override.{:?}", nlt));
    let diff = match diff {
        Some(d) => d,
        None => {
            let req = format!("inline {} - | ? | {} | {} | - | -", mode.name(), hex(old.as_bytes()), hex(new.as_bytes()));
            ctx.emit(&req, "panic");
            ctx.violation("C16", &req, "building the line diff panicked (request shows the raw texts)".to_string());
            return;
        }
    };
    let ot: Vec<Vec<u8>> = diff.old_slices().iter().map(|t| t.as_bytes().to_vec()).collect();
    let nt: Vec<Vec<u8>> = diff.new_slices().iter().map(|t| t.as_bytes().to_vec()).collect();
    let (oth, nth) = (toks_hex(&ot), toks_hex(&nt));
    for op in diff.ops() {
        let plain: Vec<Chg> = diff.iter_changes(op).map(conv_change).collect();
        let seg_o = word_segs(mode, &ot[op.old_range()]);
        let seg_n = word_segs(mode, &nt[op.new_range()]);
        for &dl in dls {
            let req = format!("inline {} {} | {} | {} | {} | {} | {}", mode.name(), proto::opt(dl), Call::from_op(op).show(), oth, nth, seg_o, seg_n);
            let (r, _, _, probes) = obs::with_world(dl, false, |inst| {
                diff.iter_inline_changes_deadline(op, inst)
                    .map(|ic| IChg {
                        tag: ic.tag(),
                        oi: ic.old_index(),
                        ni: ic.new_index(),
                        segs: ic.values().iter().map(|(e, v)| (*e, v.as_bytes().to_vec())).collect(),
                        missing_newline: ic.missing_newline(),
                    })
                    .collect::<Vec<IChg>>()
            });
            ctx.emit(&req, &inline_answer(&r));
            ctx.count(&format!("inline.ops.{:?}", op.tag()));
            match &r {
                None => ctx.violation("C16", &req, "iter_inline_changes_deadline panicked".to_string()),
                Some(got) => {
                    if let Err(e) = check_inline(op, &plain, got) {
                        ctx.violation("C16", &req, e);
                    }
                    // the iterator itself, driven every way an iterator can be driven (no deadline: re-runnable)
                    if dl.is_none() && got.len() <= 24 {
                        let want: Vec<String> = got.iter().map(|c| format!("{:?}", c)).collect();
                        let conv = |ic: similar::InlineChange<'_, T>| {
                            format!(
                                "{:?}",
                                IChg {
                                    tag: ic.tag(),
                                    oi: ic.old_index(),
                                    ni: ic.new_index(),
                                    segs: ic.values().iter().map(|(e, v)| (*e, v.as_bytes().to_vec())).collect(),
                                    missing_newline: ic.missing_newline(),
                                }
                            )
                        };
                        match catch_unwind(AssertUnwindSafe(|| super::misc::drive_check(|| diff.iter_inline_changes(op), conv, &want))) {
                            Ok(Ok(())) => {}
                            Ok(Err(e)) => ctx.violation("C16", &req, format!("iter_inline_changes: {}", e)),
                            Err(_) => ctx.violation("C16", &req, "iter_inline_changes panicked when driven through nth/skip/fold/...".to_string()),
                        }
                    }
                    if op.tag() == DiffTag::Replace {
                        let refined = got.iter().any(|c| c.segs.len() != 1 || c.segs.iter().any(|s| s.0));
                        if refined {
                            ctx.count("inline.replace_ops_passing_the_ratio_gates");
                            ctx.nontrivial(&req);
                        } else {
                            ctx.count("inline.replace_ops_below_the_ratio_gates");
                        }
                        if probes > 0 {
                            ctx.count("inline.replace_ops_probing_the_deadline");
                        }
                    }
                }
            }
        }
    }
}

fn inline_pair_mode(ctx: &mut Ctx, alg: Algorithm, mode: Mode, old: &[u8], new: &[u8], dls: &[Option<u64>]) {
    match mode {
        Mode::Str => inline_pair::<str>(ctx, alg, mode, as_str(old), as_str(new), dls),
        Mode::Bytes => inline_pair::<[u8]>(ctx, alg, mode, old, new, dls),
    }
}

/// line texts whose lines share words
fn random_inline_pair(rng: &mut Rng) -> (Vec<u8>, Vec<u8>) {
    const W: [&str; 12] = ["foo", "bar", "baz", "héllo", "wörld", "日本", "x", "42", "a.b", "don't", "qux", "é"];
    let line = |rng: &mut Rng| -> Vec<String> {
        let n = rng.range(1, 6);
        let mut v = vec![];
        for k in 0..n {
            v.push(W[rng.below(W.len())].to_string());
            if k + 1 < n {
                v.push([" ", " ", " ", "  ", "\t", ", "][rng.below(6)].to_string());
            }
        }
        v
    };
    let n = rng.range(1, 8);
    let old: Vec<(Vec<String>, &str)> = (0..n).map(|_| (line(rng), ["\n", "\n", "\r\n", "\r"][rng.below(4)])).collect();
    let mut new = old.clone();
    for _ in 0..rng.range(1, 4) {
        let at = rng.below(new.len().max(1));
        match rng.below(6) {
            0 if new.len() > 1 => {
                new.remove(at);
            }
            1 => {
                let l = line(rng);
                new.insert(at.min(new.len()), (l, "\n"));
            }
            2 if !new.is_empty() => {
                // an unrelated line: below the ratio gates
                new[at] = (vec!["zzz".to_string(), " ".to_string(), "yyy".to_string()], new[at].1);
            }
            3 if !new.is_empty() => {
                // only the terminator changes
                new[at].1 = ["\n", "\r\n", "\r"][rng.below(3)];
            }
            _ if !new.is_empty() => {
                // change one or two words of the line: passes the gates
                for _ in 0..rng.range(1, 2) {
                    let w = rng.below(new[at].0.len());
                    new[at].0[w] = W[rng.below(W.len())].to_string();
                }
            }
            _ => {}
        }
    }
    let render = |rng: &mut Rng, v: &[(Vec<String>, &str)]| -> Vec<u8> {
        let mut s = String::new();
        for (i, (ws, t)) in v.iter().enumerate() {
            s.push_str(&ws.concat());
            if i + 1 < v.len() || !rng.chance(1, 3) {
                s.push_str(t);
            }
        }
        s.into_bytes()
    };
    let o = render(rng, &old);
    let n = render(rng, &new);
    (o, n)
}

pub fn suite_inline(ctx: &mut Ctx) {
    let (stride, nrand) = match ctx.tier {
        Tier::Quick => (4u64, 1500u64),
        Tier::Thorough => (1, 20000),
    };
    // small exhaustive: up to 2 terminated lines, optionally an unterminated last line
    let base = small_texts(&["a b\n", "a c\n", "a b c\n", "x\n", "é b\r\n", "a  b\r"], 2);
    let mut texts = vec![];
    for b in &base {
        for tail in ["", "a b", "a c"] {
            let mut t = b.clone();
            t.extend_from_slice(tail.as_bytes());
            texts.push(t);
        }
    }
    let dls = [None, Some(0), Some(2)];
    let mut k = 0u64;
    for old in &texts {
        for new in &texts {
            k += 1;
            if k % stride != 0 {
                continue;
            }
            for alg in ALGS {
                if !ctx.take() {
                    continue;
                }
                let mode = if (k / stride) % 2 == 0 { Mode::Str } else { Mode::Bytes };
                inline_pair_mode(ctx, alg, mode, old, new, &dls);
            }
        }
    }
    for i in 0..nrand {
        if !ctx.take() {
            continue;
        }
        let mut rng = case_rng(ctx, 0x1417e, i);
        let (old, new) = random_inline_pair(&mut rng);
        let mode = if i % 2 == 0 { Mode::Str } else { Mode::Bytes };
        let dls = [None, Some(0), Some(1 + i % 5)];
        ctx.count("inline.random_pairs");
        inline_pair_mode(ctx, ALGS[(i % 3) as usize], mode, &old, &new, &dls);
    }
    // lines of more than 100 word tokens (a Replace block above any size threshold an implementation may have):
    // one word dropped, added or changed, periodic lines getting shorter, blocks of two long lines against one
    const LW: [&str; 8] = ["foo", "bar", "0", "héllo", "日本", "x", "qux", "é"];
    let nlong = if ctx.tier == Tier::Quick { 60u64 } else { 600 };
    for i in 0..nlong {
        if !ctx.take() {
            continue;
        }
        let mut rng = case_rng(ctx, 0x1047e, i);
        let nwords = rng.range(52, 70);
        let periodic = i % 4 == 0;
        let mut line: Vec<String> = (0..nwords).map(|_| if periodic { "0".to_string() } else { LW[rng.below(LW.len())].to_string() }).collect();
        let term = ["\n", "\r\n", "\r", ""][rng.below(4)];
        let join = |ws: &[String], term: &str| -> Vec<u8> { format!("{}{}", ws.join(" "), term).into_bytes() };
        let old_line = join(&line, term);
        for _ in 0..rng.range(1, 3) {
            let at = rng.below(line.len());
            match rng.below(3) {
                0 => {
                    line.remove(at);
                }
                1 => line.insert(at, LW[rng.below(LW.len())].to_string()),
                _ => line[at] = LW[rng.below(LW.len())].to_string(),
            }
        }
        let new_line = join(&line, if rng.chance(1, 4) { "\n" } else { term });
        let (mut old, mut new) = (b"same\n".to_vec(), b"same\n".to_vec());
        old.extend_from_slice(&old_line);
        new.extend_from_slice(&new_line);
        if i % 5 == 0 && term != "" {
            // a second long line on one side only
            old.extend_from_slice(&join(&line[..line.len() / 2].to_vec(), "\n"));
        }
        if rng.chance(1, 2) {
            std::mem::swap(&mut old, &mut new);
        }
        // (not `i % 2`: `periodic` is `i % 4 == 0`, `i % 5` picks the extra line)
        let mode = if (i / 4) % 2 == 0 { Mode::Str } else { Mode::Bytes };
        ctx.count("inline.long_line_pairs");
        ctx.count(&format!("inline.cell.long.periodic{}.{}", periodic as u8, mode.name()));
        inline_pair_mode(ctx, ALGS[((i / 8) % 3) as usize], mode, &old, &new, &[None, Some(0)]);
    }
    // LOPSIDED Replace blocks: k >= 4 lines on one side against one or two lines on the other (the line-count ratio gate
    // `upper_seq_ratio < 0.5` is on: the op must expand plainly, whatever the lines look like), where the few lines ARE close
    // word-level edits of the first lines of the many -- and the same blocks just below the gate (3 : 1, 2 : 1)
    let nlop = if ctx.tier == Tier::Quick { 240u64 } else { 2400 };
    for i in 0..nlop {
        if !ctx.take() {
            continue;
        }
        let mut rng = case_rng(ctx, 0x10b51ded, i);
        let few = 1 + (i % 2) as usize;
        let many = few * [2usize, 3, 4, 5, 7][(i / 2 % 5) as usize] + rng.below(2);
        let term = if i % 7 == 0 { "\r\n" } else { "\n" };
        let mk_line = |rng: &mut Rng| -> Vec<String> { (0..rng.range(3, 7)).map(|_| LW[rng.below(LW.len())].to_string()).collect() };
        let many_lines: Vec<Vec<String>> = (0..many).map(|_| mk_line(&mut rng)).collect();
        let few_lines: Vec<Vec<String>> = (0..few)
            .map(|t| {
                let mut l = many_lines[t].clone();
                let at = rng.below(l.len());
                match rng.below(3) {
                    0 => l[at] = "changed".to_string(),
                    1 => l.insert(at, "added".to_string()),
                    _ => l.push("tail".to_string()),
                }
                l
            })
            .collect();
        let render = |ls: &[Vec<String>]| -> Vec<u8> { ls.iter().map(|l| format!("{}{}", l.join(" "), term)).collect::<String>().into_bytes() };
        let ctxl = format!("same line{}", term).into_bytes();
        let mut old = ctxl.clone();
        old.extend_from_slice(&render(&many_lines));
        let mut new = ctxl.clone();
        new.extend_from_slice(&render(&few_lines));
        if i % 3 != 0 {
            old.extend_from_slice(&ctxl);
            new.extend_from_slice(&ctxl);
        }
        if (i / 10) % 2 == 1 {
            std::mem::swap(&mut old, &mut new);
        }
        let mode = if (i / 20) % 2 == 0 { Mode::Str } else { Mode::Bytes };
        ctx.count("inline.lopsided_block_pairs");
        inline_pair_mode(ctx, ALGS[((i / 40) % 3) as usize], mode, &old, &new, &[None, Some(0)]);
    }
    // [u8] lines with broken UTF-8 (handled since the [u8] Unicode tokenizers report real offsets): random positions,
    // and in particular inside the changed tail of a line that ends in \r\n, \n, \r or nothing
    let nbad = if ctx.tier == Tier::Quick { 400u64 } else { 4000 };
    for i in 0..nbad {
        if !ctx.take() {
            continue;
        }
        let mut rng = case_rng(ctx, 0xbad17, i);
        const BADB: [&[u8]; 6] = [&[0xff], &[0xe9], &[0xc3], &[0xe2, 0x82], &[0xf0, 0x9f, 0x98], &[0x80]];
        let (old, new) = if i % 2 == 0 {
            let (old, new) = random_inline_pair(&mut rng);
            let spoil = |rng: &mut Rng, mut t: Vec<u8>| -> Vec<u8> {
                for _ in 0..rng.range(1, 3) {
                    let at = rng.below(t.len() + 1);
                    let b = BADB[rng.below(BADB.len())];
                    t.splice(at..at, b.iter().copied());
                }
                t
            };
            (spoil(&mut rng, old), spoil(&mut rng, new))
        } else {
            // "<shared words> <word><bad bytes><term>" against the same line with another last word / terminator
            let nl = rng.range(1, 3);
            let mut old = vec![];
            let mut new = vec![];
            for _ in 0..nl {
                let head = ["a b ", "un café ", "x ", ""][rng.below(4)];
                let mk = |rng: &mut Rng| -> Vec<u8> {
                    let mut l = head.as_bytes().to_vec();
                    l.extend_from_slice(["caf", "th", "na", "x"][rng.below(4)].as_bytes());
                    if rng.chance(3, 4) {
                        l.extend_from_slice(BADB[rng.below(BADB.len())]);
                    }
                    l.extend_from_slice(["\r\n", "\r\n", "\n", "\r", ""][rng.below(5)].as_bytes());
                    l
                };
                let lo = mk(&mut rng);
                let ln = if rng.chance(1, 5) { lo.clone() } else { mk(&mut rng) };
                old.extend_from_slice(&lo);
                if !rng.chance(1, 6) {
                    new.extend_from_slice(&ln);
                }
            }
            (old, new)
        };
        ctx.count("inline.invalid_utf8_pairs");
        inline_pair_mode(ctx, ALGS[(i % 3) as usize], Mode::Bytes, &old, &new, &[None, Some(0)]);
    }
    // MULTI-LINE Replace blocks: k old lines against k (or k +- 1) new lines with no unchanged line in between, so that the
    // line diff has ONE Replace op over the whole block; most line pairs differ in one word, some pairs have nothing in
    // common, some lines change their word count or terminator -- however the block is refined, every line must come out once
    let nblocks = if ctx.tier == Tier::Quick { 500u64 } else { 6000 };
    for i in 0..nblocks {
        if !ctx.take() {
            continue;
        }
        let mut rng = case_rng(ctx, 0xb10c5, i);
        let k = rng.range(2, 16);
        let mut old = String::new();
        let mut new = String::new();
        if rng.chance(1, 2) {
            old.push_str("shared first line\n");
            new.push_str("shared first line\n");
        }
        for l in 0..k {
            let words = rng.range(2, 6);
            let base: Vec<String> = (0..words).map(|w| format!("w{}_{}", l, (w * 7 + l) % 5)).collect();
            let mut o = base.clone();
            let mut n = base.clone();
            match rng.below(8) {
                0 => {
                    // nothing in common
                    n = (0..rng.range(1, 7)).map(|w| format!("other{}x{}", l, w)).collect();
                }
                1 => {
                    n.push("extra".to_string());
                    n.push("words".to_string());
                }
                2 => {
                    o.truncate(1);
                }
                _ => {
                    let at = rng.below(words);
                    n[at] = format!("changed{}", l);
                }
            }
            let term = |rng: &mut Rng| ["\n", "\n", "\n", "\r\n", "\r"][rng.below(5)];
            old.push_str(&o.join(" "));
            old.push_str(term(&mut rng));
            new.push_str(&n.join(" "));
            new.push_str(term(&mut rng));
        }
        match rng.below(4) {
            0 => new.push_str("one more line\n"),
            1 => old.push_str("one more line\n"),
            _ => {}
        }
        if rng.chance(1, 2) {
            old.push_str("shared last line\n");
            new.push_str("shared last line");
        }
        if i % 5 == 0 {
            // two or three adjacent LONG lines (60 .. 140 words each) whose first and last word change: one run of hundreds of
            // unchanged word tokens that crosses line breaks and ends in the middle of a line
            old.clear();
            new.clear();
            let nl = rng.range(2, 3);
            for l in 0..nl {
                let words: Vec<String> = (0..rng.range(60, 140)).map(|w| format!("w{}", (w * 13 + l * 7) % 97)).collect();
                let mut o = words.clone();
                let mut n = words.clone();
                if l == 0 {
                    o[0] = "FIRST".to_string();
                    n[0] = "first".to_string();
                }
                if l == nl - 1 {
                    let k = o.len() - 1 - rng.below(3);
                    o[k] = "LAST".to_string();
                    n[k] = "last".to_string();
                }
                old.push_str(&o.join(" "));
                old.push('\n');
                new.push_str(&n.join(" "));
                new.push('\n');
            }
            ctx.count("inline.long_word_run_cases");
        }
        ctx.count("inline.multi_line_block_cases");
        let mode = if i % 2 == 0 { Mode::Str } else { Mode::Bytes };
        inline_pair_mode(ctx, ALGS[(i % 3) as usize], mode, old.as_bytes(), new.as_bytes(), &[None]);
    }
}

/* ------------------------------------------------------------------------------------------ */
/* T5 remapper and one-call helpers (C17)                                                     */

/// (tag, side, range into the original text or None if not a sub-slice, bytes)
type Slice = (ChangeTag, char, Option<(usize, usize)>, Vec<u8>);

struct RemapEval {
    ops: Vec<DiffOp>,
    old_toks: Vec<Vec<u8>>,
    new_toks: Vec<Vec<u8>>,
    /// per op: the remapped slices (None: iter_slices panicked on that op)
    slices: Option<Vec<Vec<Slice>>>,
    /// the same through `TextDiffRemapper::new(old_slices, new_slices, old, new)`
    slices_via_new: Option<Vec<Vec<Slice>>>,
}

fn locate(tag: ChangeTag, s: &[u8], old: &[u8], new: &[u8]) -> Slice {
    let (side, base) = if tag == ChangeTag::Insert { ('n', new) } else { ('o', old) };
    (tag, side, sub_range(base, s), s.to_vec())
}

fn remap_eval<T: DiffableStr + ?Sized>(kind: Kind, alg: Algorithm, old: &T, new: &T) -> Option<RemapEval> {
    let c = TextCfg { kind, alg, nlt: None, dl: None };
    let (diff, _, _, _) = obs::with_world(None, false, |_| build_diff(&c, DlHow::Deadline, None, old, new));
    let diff = diff?;
    let slices = catch_unwind(AssertUnwindSafe(|| {
        let remapper = TextDiffRemapper::from_text_diff(&diff, old, new);
        diff.ops()
            .iter()
            .map(|op| {
                let v = remapper.iter_slices(op).map(|(t, s)| locate(t, s.as_bytes(), old.as_bytes(), new.as_bytes())).collect::<Vec<Slice>>();
                // the iterator itself, driven every way an iterator can be driven; a difference shows as a missing slice
                let want: Vec<String> = v.iter().map(|x| format!("{:?}", x)).collect();
                let conv = |(t, sl): (ChangeTag, &T)| format!("{:?}", locate(t, sl.as_bytes(), old.as_bytes(), new.as_bytes()));
                match super::misc::drive_check(|| remapper.iter_slices(op), conv, &want) {
                    Ok(()) => v,
                    Err(_) => vec![],
                }
            })
            .collect::<Vec<_>>()
    }))
    .ok();
    let slices_via_new = catch_unwind(AssertUnwindSafe(|| {
        let remapper = TextDiffRemapper::new(diff.old_slices(), diff.new_slices(), old, new);
        diff.ops()
            .iter()
            .map(|op| remapper.iter_slices(op).map(|(t, s)| locate(t, s.as_bytes(), old.as_bytes(), new.as_bytes())).collect::<Vec<Slice>>())
            .collect::<Vec<_>>()
    }))
    .ok();
    Some(RemapEval {
        slices_via_new,
        ops: diff.ops().to_vec(),
        old_toks: diff.old_slices().iter().map(|t| t.as_bytes().to_vec()).collect(),
        new_toks: diff.new_slices().iter().map(|t| t.as_bytes().to_vec()).collect(),
        slices,
    })
}

fn remap_request(ops: &[DiffOp], old_lens: &[usize], new_lens: &[usize]) -> String {
    format!("remap | {} | {} | {}", proto::show_ops(ops), lens_str(old_lens), lens_str(new_lens))
}

fn remap_answer(slices: &Option<Vec<Vec<Slice>>>) -> String {
    match slices {
        None => "panic".to_string(),
        Some(v) => {
            let mut parts = vec![];
            for (t, side, r, _) in v.iter().flatten() {
                match r {
                    Some((a, b)) => parts.push(format!("{}.{}.{}-{}", tag_char(*t), side, a, b)),
                    None => return "notslice".to_string(),
                }
            }
            format!("ok S={}", parts.join(","))
        }
    }
}

/// expected tags and token concatenations of an op
fn op_slices(op: &DiffOp, old: &[Vec<u8>], new: &[Vec<u8>]) -> Vec<(ChangeTag, Vec<u8>)> {
    let (tag, or, nr) = op.as_tag_tuple();
    match tag {
        DiffTag::Equal => vec![(ChangeTag::Equal, concat(&old[or]))],
        DiffTag::Delete => vec![(ChangeTag::Delete, concat(&old[or]))],
        DiffTag::Insert => vec![(ChangeTag::Insert, concat(&new[nr]))],
        DiffTag::Replace => vec![(ChangeTag::Delete, concat(&old[or])), (ChangeTag::Insert, concat(&new[nr]))],
    }
}

fn check_remap(ev: &RemapEval, old: &[u8], new: &[u8]) -> V {
    let slices = match &ev.slices {
        Some(s) => s,
        None => return err("TextDiffRemapper panicked".to_string()),
    };
    let (mut o, mut n) = (vec![], vec![]);
    for (k, (op, got)) in ev.ops.iter().zip(slices).enumerate() {
        let want = op_slices(op, &ev.old_toks, &ev.new_toks);
        let tags: Vec<ChangeTag> = got.iter().map(|s| s.0).collect();
        if tags != want.iter().map(|w| w.0).collect::<Vec<_>>() {
            return err(format!("op {}: tags differ from DiffOp::iter_slices", k));
        }
        for ((t, _, r, b), (_, w)) in got.iter().zip(&want) {
            if r.is_none() {
                return err(format!("op {}: the {} slice is not a substring of the original text", k, tag_char(*t)));
            }
            if b != w {
                return err(format!("op {}: the {} slice is {} but the op's tokens concatenate to {}", k, tag_char(*t), hex(b), hex(w)));
            }
            if *t != ChangeTag::Insert {
                o.extend_from_slice(b);
            }
            if *t != ChangeTag::Delete {
                n.extend_from_slice(b);
            }
        }
    }
    if o != old {
        return err("the non-Insert slices do not concatenate to the old text".to_string());
    }
    if n != new {
        return err("the non-Delete slices do not concatenate to the new text".to_string());
    }
    Ok(())
}

/// the one-call helper of `kind`, and `diff_slices` over the tokens
/// one `helper` request: the one-call helper of `similar::utils` for this tokenizer, compared with the model
fn helper_case<T: DiffableStr + ?Sized>(ctx: &mut Ctx, kind: Kind, alg: Algorithm, mode: Mode, old: &T, new: &T) {
    use similar::utils;
    if kind == Kind::Lnl {
        return;
    }
    let (so, sn) = if kind.external() {
        (lens_str(&ext_seg(kind, mode, old.as_bytes())), lens_str(&ext_seg(kind, mode, new.as_bytes())))
    } else {
        ("-".to_string(), "-".to_string())
    };
    let req = format!("helper {} {} {} | {} | {} | {} | {}", kind.name(), mode.name(), alg_name(alg), hex(old.as_bytes()), hex(new.as_bytes()), so, sn);
    let r = catch_unwind(AssertUnwindSafe(|| {
        let v: Vec<(ChangeTag, &T)> = match kind {
            Kind::Lines | Kind::Lnl => utils::diff_lines(alg, old, new),
            Kind::Words => utils::diff_words(alg, old, new),
            Kind::Chars => utils::diff_chars(alg, old, new),
            Kind::UWords => utils::diff_unicode_words(alg, old, new),
            Kind::Graphemes => utils::diff_graphemes(alg, old, new),
        };
        v.iter().map(|(t, s)| format!("{}{}", tag_char(*t), hex(s.as_bytes()))).collect::<Vec<_>>().join(",")
    }));
    let ans = match r {
        Ok(s) => format!("ok H={}", s),
        Err(_) => "panic".to_string(),
    };
    ctx.emit(&req, &ans);
    ctx.count("remap.helper_requests");
}

fn check_helpers<T: DiffableStr + ?Sized>(kind: Kind, alg: Algorithm, old: &T, new: &T) -> V {
    use similar::utils;
    let r = catch_unwind(AssertUnwindSafe(|| -> V {
        let v: Vec<(ChangeTag, &T)> = match kind {
            Kind::Lines | Kind::Lnl => utils::diff_lines(alg, old, new),
            Kind::Words => utils::diff_words(alg, old, new),
            Kind::Chars => utils::diff_chars(alg, old, new),
            Kind::UWords => utils::diff_unicode_words(alg, old, new),
            Kind::Graphemes => utils::diff_graphemes(alg, old, new),
        };
        let (mut o, mut n) = (vec![], vec![]);
        for (t, s) in &v {
            if s.as_bytes().is_empty() {
                return err(format!("utils::diff_{} returned an empty slice", kind.name()));
            }
            if *t != ChangeTag::Insert {
                o.extend_from_slice(s.as_bytes());
            }
            if *t != ChangeTag::Delete {
                n.extend_from_slice(s.as_bytes());
            }
        }
        if o != old.as_bytes() || n != new.as_bytes() {
            return err(format!("utils::diff_{} does not reconstruct the texts", kind.name()));
        }
        // diff_slices over the tokens
        let (ot, nt) = (tokenize(kind, old), tokenize(kind, new));
        let v = utils::diff_slices(alg, &ot, &nt);
        let (mut o, mut n): (Vec<&T>, Vec<&T>) = (vec![], vec![]);
        for (t, s) in &v {
            if s.is_empty() {
                return err("utils::diff_slices returned an empty slice".to_string());
            }
            if *t != ChangeTag::Insert {
                o.extend_from_slice(s);
            }
            if *t != ChangeTag::Delete {
                n.extend_from_slice(s);
            }
        }
        if o != ot || n != nt {
            return err("utils::diff_slices does not reconstruct the token sequences".to_string());
        }
        Ok(())
    }));
    match r {
        Ok(v) => v,
        Err(_) => err(format!("a utils::diff_* helper panicked ({})", kind.name())),
    }
}

fn remap_case(ctx: &mut Ctx, kind: Kind, alg: Algorithm, mode: Mode, old: &[u8], new: &[u8]) {
    let ev = match mode {
        Mode::Str => remap_eval::<str>(kind, alg, as_str(old), as_str(new)),
        Mode::Bytes => remap_eval::<[u8]>(kind, alg, old, new),
    };
    let ev = match ev {
        Some(e) => e,
        None => {
            let req = format!("remap | ? | {} | {}", hex(old), hex(new));
            ctx.emit(&req, "panic");
            ctx.violation("C17", &req, "building the text diff panicked (request shows the raw texts)".to_string());
            return;
        }
    };
    let ol: Vec<usize> = ev.old_toks.iter().map(|t| t.len()).collect();
    let nl: Vec<usize> = ev.new_toks.iter().map(|t| t.len()).collect();
    let req = remap_request(&ev.ops, &ol, &nl);
    ctx.emit(&req, &remap_answer(&ev.slices));
    ctx.count(&format!("remap.kind.{}.{}", kind.name(), mode.name()));
    if let Err(e) = check_remap(&ev, old, new) {
        ctx.violation("C17", &req, e);
    }
    if ev.slices_via_new != ev.slices {
        ctx.violation("C17", &req, "TextDiffRemapper::new(old_slices, new_slices, old, new) remaps differently from from_text_diff".to_string());
    }
    // the same texts as a CHARACTER-INDEXED user-defined type (suites/custom_str.rs: `len` / `slice` count characters): same
    // tokens, same ops, and every remapped slice must be the same piece of text as for `str`
    if mode == Mode::Str && (!old.is_ascii() || !new.is_ascii()) {
        use super::custom_str::UStr;
        ctx.count("remap.char_indexed_type_runs");
        match remap_eval::<UStr>(kind, alg, UStr::new(as_str(old)), UStr::new(as_str(new))) {
            None => ctx.violation("C17", &req, "building the text diff over a character-indexed user-defined DiffableStr type panicked".to_string()),
            Some(eu) => {
                if eu.ops != ev.ops {
                    ctx.violation("C17", &req, "a character-indexed user-defined DiffableStr type over the same text gives other ops".to_string());
                } else if eu.slices != ev.slices || eu.slices_via_new != ev.slices {
                    ctx.violation(
                        "C17",
                        &req,
                        format!(
                            "over a character-indexed user-defined DiffableStr type (len / slice count characters, as_bytes is the UTF-8 text) the remapped slices differ from those over str: {} (from_text_diff) / {} (new)",
                            remap_answer(&eu.slices),
                            remap_answer(&eu.slices_via_new)
                        ),
                    );
                }
            }
        }
    }
    match mode {
        Mode::Str => helper_case::<str>(ctx, kind, alg, mode, as_str(old), as_str(new)),
        Mode::Bytes => helper_case::<[u8]>(ctx, kind, alg, mode, old, new),
    }
    let h = match mode {
        Mode::Str => check_helpers::<str>(kind, alg, as_str(old), as_str(new)),
        Mode::Bytes => check_helpers::<[u8]>(kind, alg, old, new),
    };
    if let Err(e) = h {
        ctx.violation("C17", &req, format!("{} [{} {} old={} new={}]", e, alg_name(alg), mode.name(), hex(old), hex(new)));
    }
    if ev.ops.len() >= 2 && ev.ops.iter().any(|o| o.tag() == DiffTag::Equal) {
        ctx.nontrivial(&req);
    }
    ctx.max("remap.max_ops", ev.ops.len() as u64);
}

/// a caller-made tokenization (`TextDiff::from_slices`) of both texts, empty tokens allowed, remapped through both
/// constructors of `TextDiffRemapper`
fn remap_custom_case(ctx: &mut Ctx, alg: Algorithm, old: &str, old_cuts: &[usize], new: &str, new_cuts: &[usize]) {
    let toks = |t: &str, cuts: &[usize]| -> Vec<(usize, usize)> {
        let mut v = vec![];
        let mut at = 0;
        for &c in cuts {
            v.push((at, c));
            at = c;
        }
        v.push((at, t.len()));
        v
    };
    let (ro, rn) = (toks(old, old_cuts), toks(new, new_cuts));
    let ot: Vec<&str> = ro.iter().map(|&(a, b)| &old[a..b]).collect();
    let nt: Vec<&str> = rn.iter().map(|&(a, b)| &new[a..b]).collect();
    let ev = catch_unwind(AssertUnwindSafe(|| {
        let diff = TextDiff::configure().algorithm(alg).diff_slices(&ot[..], &nt[..]);
        let via = |r: &TextDiffRemapper<str>| -> Option<Vec<Vec<Slice>>> {
            catch_unwind(AssertUnwindSafe(|| {
                diff.ops().iter().map(|op| r.iter_slices(op).map(|(t, s)| locate(t, s.as_bytes(), old.as_bytes(), new.as_bytes())).collect::<Vec<Slice>>()).collect::<Vec<_>>()
            }))
            .ok()
        };
        let slices = via(&TextDiffRemapper::from_text_diff(&diff, old, new));
        let slices_via_new = via(&TextDiffRemapper::new(&ot[..], &nt[..], old, new));
        RemapEval {
            slices,
            slices_via_new,
            ops: diff.ops().to_vec(),
            old_toks: ot.iter().map(|t| t.as_bytes().to_vec()).collect(),
            new_toks: nt.iter().map(|t| t.as_bytes().to_vec()).collect(),
        }
    }));
    let ol: Vec<usize> = ot.iter().map(|t| t.len()).collect();
    let nl: Vec<usize> = nt.iter().map(|t| t.len()).collect();
    let ev = match ev {
        Ok(e) => e,
        Err(_) => {
            let req = format!("remap | ? | {} | {}", lens_str(&ol), lens_str(&nl));
            ctx.emit(&req, "panic");
            ctx.violation("C17", &req, format!("diffing caller-made token slices panicked (old={} new={})", hex(old.as_bytes()), hex(new.as_bytes())));
            return;
        }
    };
    let req = remap_request(&ev.ops, &ol, &nl);
    ctx.emit(&req, &remap_answer(&ev.slices));
    ctx.count("remap.custom_tokenizations");
    if ol.iter().chain(nl.iter()).any(|&l| l == 0) {
        ctx.count("remap.custom_tokenizations.with_empty_token");
    }
    if ol.len() == old.len() || nl.len() == new.len() {
        ctx.count("remap.custom_tokenizations.as_many_tokens_as_bytes");
    }
    if let Err(e) = check_remap(&ev, old.as_bytes(), new.as_bytes()) {
        ctx.violation("C17", &req, format!("{} [caller-made tokens, {} old={} new={}]", e, alg_name(alg), hex(old.as_bytes()), hex(new.as_bytes())));
    }
    if ev.slices_via_new != ev.slices {
        ctx.violation("C17", &req, "TextDiffRemapper::new(old_slices, new_slices, old, new) remaps differently from from_text_diff".to_string());
    }
    if ev.ops.len() >= 2 {
        ctx.nontrivial(&req);
    }
}

/// random cut points at char boundaries (repeats = empty tokens); with `pad`, as many tokens as the text has bytes
fn random_cuts(rng: &mut Rng, t: &str, pad: bool) -> Vec<usize> {
    let bounds: Vec<usize> = (1..t.len()).filter(|&i| t.is_char_boundary(i)).collect();
    let mut cuts: Vec<usize> = bounds.iter().copied().filter(|_| rng.chance(1, 3)).collect();
    if pad {
        // tokens = cuts + 1; add empty tokens (repeated cut points, or cuts at 0 / len) until tokens == bytes
        while cuts.len() + 1 < t.len() {
            let c = if rng.chance(1, 3) || cuts.is_empty() { [0, t.len()][rng.below(2)] } else { cuts[rng.below(cuts.len())] };
            cuts.push(c);
        }
        while cuts.len() + 1 > t.len() && !cuts.is_empty() {
            cuts.pop();
        }
    } else if rng.chance(1, 3) && !cuts.is_empty() {
        let c = cuts[rng.below(cuts.len())];
        cuts.push(c);
    }
    cuts.sort();
    cuts
}

/// `similar::utils::diff_slices` on caller-provided item slices, compared with the model (`helperslices` request)
fn helper_slices_case(ctx: &mut Ctx, alg: Algorithm, old: &[u32], new: &[u32]) {
    let req = format!("helperslices {} | {} | {} | -", alg_name(alg), proto::show_seq(0, old), proto::show_seq(0, new));
    let r = catch_unwind(AssertUnwindSafe(|| {
        similar::utils::diff_slices(alg, old, new)
            .into_iter()
            .map(|(t, sl)| {
                let base = if t == ChangeTag::Insert { new } else { old };
                let start = (sl.as_ptr() as usize).wrapping_sub(base.as_ptr() as usize) / std::mem::size_of::<u32>();
                let inside = sl.is_empty() || (start + sl.len() <= base.len() && std::ptr::eq(sl.as_ptr(), base[start..].as_ptr()));
                (t, start, sl.to_vec(), inside)
            })
            .collect::<Vec<_>>()
    }));
    ctx.count("remap.helper_slices_cases");
    match r {
        Err(_) => {
            ctx.emit(&req, "panic");
            ctx.violation("C17", &req, "diff_slices panicked".to_string());
        }
        Ok(v) => {
            let ans: Vec<String> = v
                .iter()
                .map(|(t, start, sl, _)| {
                    if sl.is_empty() {
                        format!("{}.e", tag_char(*t))
                    } else {
                        format!("{}.{}.{}.{}", tag_char(*t), if *t == ChangeTag::Insert { 'n' } else { 'o' }, start, start + sl.len())
                    }
                })
                .collect();
            ctx.emit(&req, &format!("ok H={}", ans.join(",")));
            let o: Vec<u32> = v.iter().filter(|x| x.0 != ChangeTag::Insert).flat_map(|x| x.2.iter().copied()).collect();
            let n: Vec<u32> = v.iter().filter(|x| x.0 != ChangeTag::Delete).flat_map(|x| x.2.iter().copied()).collect();
            if o != old || n != new {
                ctx.violation("C17", &req, format!("diff_slices does not reconstruct the {} slice", if o != old { "old" } else { "new" }));
            }
            if v.iter().any(|x| x.2.is_empty()) {
                ctx.violation("C17", &req, "diff_slices returned an empty slice".to_string());
            }
            if v.iter().any(|x| !x.3) {
                ctx.violation("C17", &req, "a returned slice is not a sub-slice of the caller's slice".to_string());
            }
            if v.len() >= 2 {
                ctx.nontrivial(&req);
            }
        }
    }
}

/// Implementation only: fewer than 65 535 tokens on each side but more than 65 536 distinct tokens on the two sides
/// together, through the one-call helpers and the remapper (C17: they reconstruct both texts, return no empty slice
/// and never panic -- whatever the width of the integers the tokens are mapped to)
fn remap_many_distinct_tokens(ctx: &mut Ctx) {
    let n = 65_000usize;
    let old: String = (0..n).map(|i| format!("{}\n", i)).collect();
    let new: String = (0..n).map(|i| if i % 100 == 7 { format!("n{}\n", i) } else { format!("{}\n", i) }).collect();
    for (alg, which) in [(Algorithm::Myers, "lines"), (Algorithm::Patience, "words")] {
        let req = format!("helper {} str {} | <{} distinct lines> | <every 100th line replaced by a fresh one: 65650 distinct lines in all> | - | -", which, alg_name(alg), n);
        ctx.count("remap.many_distinct_tokens_cases");
        let r = catch_unwind(AssertUnwindSafe(|| {
            let v: Vec<(ChangeTag, &str)> = if which == "lines" { similar::utils::diff_lines(alg, &old[..], &new[..]) } else { similar::utils::diff_words(alg, &old[..], &new[..]) };
            let o: String = v.iter().filter(|(t, _)| *t != ChangeTag::Insert).map(|(_, s)| *s).collect();
            let nn: String = v.iter().filter(|(t, _)| *t != ChangeTag::Delete).map(|(_, s)| *s).collect();
            (o == old, nn == new, v.iter().any(|(_, s)| s.is_empty()))
        }));
        match r {
            Err(_) => ctx.violation("C17", &req, "the one-call helper panicked".to_string()),
            Ok((ok_old, ok_new, empty)) => {
                if !ok_old || !ok_new {
                    ctx.violation("C17", &req, format!("the returned slices do not reconstruct the {} text", if ok_old { "new" } else { "old" }));
                }
                if empty {
                    ctx.violation("C17", &req, "an empty slice was returned".to_string());
                }
            }
        }
    }
}

pub fn suite_remap(ctx: &mut Ctx) {
    const PIECES: [&str; 6] = ["a", " ", "b\n", "é", "x y", "\r\n"];
    let (np, all_algs, nrand) = match ctx.tier {
        Tier::Quick => (2, true, 3000u64),
        Tier::Thorough => (3, false, 30000),
    };
    if ctx.take() {
        remap_many_distinct_tokens(ctx);
    }
    // WIDE tokens: neighbouring lines / words of 255, 256, 65 535, 65 536 and 66 000 bytes with an edit in the second one
    // (a narrower integer for a token width or offset anywhere in the remapper shows only here)
    for (wi, &w) in [254usize, 255, 256, 257, 65_534, 65_535, 65_536, 66_000].iter().enumerate() {
        if !ctx.take() {
            continue;
        }
        let line = |c: char, n: usize| -> String { std::iter::repeat(c).take(n).collect::<String>() };
        for (sep, kind) in [("\n", Kind::Lines), (" ", Kind::Words)] {
            let old = format!("{}{}{}{}tail{}", line('a', w), sep, line('b', w + wi % 2), sep, sep);
            let new = format!("{}{}{}X{}tail{}", line('a', w), sep, line('b', w + wi % 2), sep, sep);
            ctx.count("remap.wide_token_cases");
            remap_case(ctx, kind, ALGS[wi % 3], if wi % 2 == 0 { Mode::Str } else { Mode::Bytes }, old.as_bytes(), new.as_bytes());
        }
    }
    // BLOCKS of equal-width tokens: 31 / 32 / 33 / 64 / 65 neighbouring lines (words) of exactly w bytes each, w around the
    // powers of two up to 4096, with an edit right behind the block (an index that packs offsets relative to a block base, or
    // stores widths in fewer bits, wraps exactly at such a block)
    for (wi, &w) in [7usize, 8, 9, 255, 256, 257, 511, 512, 1023, 1024, 1025, 2047, 2048, 2049, 4095, 4096].iter().enumerate() {
        for (ki, &k) in [31usize, 32, 33, 64, 65].iter().enumerate() {
            if !ctx.take() {
                continue;
            }
            let (sep, kind) = if (wi + ki) % 3 == 0 { (" ", Kind::Words) } else { ("\n", Kind::Lines) };
            let tok: String = std::iter::repeat('t').take(w - 1).collect();
            let block: String = (0..k).map(|_| format!("{}{}", tok, sep)).collect();
            let old = format!("{}last{}", block, sep);
            let new = format!("{}LAST{}more{}", block, sep, sep);
            ctx.count("remap.equal_width_block_cases");
            remap_case(ctx, kind, ALGS[(wi + ki) % 3], if ki % 2 == 0 { Mode::Str } else { Mode::Bytes }, old.as_bytes(), new.as_bytes());
        }
    }
    // one token of 2^24 (+1) bytes as the first / last token of an op (implementation only: lengths and offsets above 24 bits)
    for extra in [0usize, 1] {
        if !ctx.take() {
            continue;
        }
        let big: String = std::iter::repeat('x').take((1 << 24) + extra).collect();
        let old = format!("alpha beta {} foo", big);
        let new = format!("alpha beta {}  foo bar", big);
        let req = format!("helper words str myers | <alpha beta, one word of 2^24+{} bytes, foo> | <the same with a second blank and a word more> | - | -", extra);
        ctx.count("remap.giant_token_cases");
        let r = catch_unwind(AssertUnwindSafe(|| {
            let v = similar::utils::diff_words(Algorithm::Myers, &old[..], &new[..]);
            let o: String = v.iter().filter(|(t, _)| *t != ChangeTag::Insert).map(|(_, s)| *s).collect();
            let n: String = v.iter().filter(|(t, _)| *t != ChangeTag::Delete).map(|(_, s)| *s).collect();
            (o == old, n == new, v.iter().any(|(_, s)| s.is_empty()))
        }));
        match r {
            Err(_) => ctx.violation("C17", &req, "diff_words panicked".to_string()),
            Ok((a, b, e)) => {
                if !a || !b || e {
                    ctx.violation("C17", &req, "the returned slices do not reconstruct the texts (or one is empty)".to_string());
                }
            }
        }
    }
    // the slice helper: every pair up to length 3 over 3 symbols, and random pairs of the seven families
    let small = gen::all_seqs(3, 3);
    for a in &small {
        for b in &small {
            if !ctx.take() {
                continue;
            }
            for alg in ALGS {
                helper_slices_case(ctx, alg, a, b);
            }
        }
    }
    for i in 0..nrand / 4 {
        if !ctx.take() {
            continue;
        }
        let mut rng = case_rng(ctx, 0x51ce5, i);
        let sz = 1 + rng.below(40);
        let (a, b) = gen::gen_pair(&mut rng, gen::FAMILIES[(i % 7) as usize], sz);
        helper_slices_case(ctx, ALGS[(i % 3) as usize], &a, &b);
    }
    let texts = small_texts(&PIECES, np);
    let mut k = 0u64;
    for old in &texts {
        for new in &texts {
            for kind in Kind::DIFF {
                for (ai, alg) in ALGS.iter().enumerate() {
                    k += 1;
                    if !all_algs && (k / 3) % 3 != ai as u64 {
                        continue;
                    }
                    if !ctx.take() {
                        continue;
                    }
                    let mode = if k % 2 == 0 { Mode::Str } else { Mode::Bytes };
                    remap_case(ctx, kind, *alg, mode, old, new);
                }
            }
        }
    }
    for i in 0..nrand {
        if !ctx.take() {
            continue;
        }
        let mut rng = case_rng(ctx, 0x4e3a9, i);
        let mode = if i % 2 == 0 { Mode::Str } else { Mode::Bytes };
        let invalid = mode == Mode::Bytes && i % 4 == 1;
        let mut base = random_units(&mut rng, 5, invalid);
        let edits = rng.below(5);
        let mut new = edit_units(&mut rng, &base, edits, invalid);
        if i % 3 == 2 && !invalid {
            asciify(&mut base);
            asciify(&mut new);
        }
        ctx.count("remap.random_pairs");
        remap_case(ctx, Kind::DIFF[(i % 5) as usize], ALGS[((i / 5) % 3) as usize], mode, &concat(&base), &concat(&new));
        if !invalid && i % 2 == 0 {
            // the same texts cut into caller-made tokens (fields and separators, empty fields included)
            let (o, n) = (concat(&base), concat(&new));
            let (o, n) = (as_str(&o), as_str(&n));
            let pad = i % 4 == 0;
            let (oc, nc) = (random_cuts(&mut rng, o, pad), random_cuts(&mut rng, n, pad && i % 8 == 0));
            remap_custom_case(ctx, ALGS[((i / 5) % 3) as usize], o, &oc, n, &nc);
        }
    }
    // both sides of the size at which TextDiff maps tokens to integers (100 tokens): long runs of identical
    // tokens with an edit inside a run (the shape on which prefix/suffix handling can overlap)
    let nlong = if ctx.tier == Tier::Quick { 90u64 } else { 600 };
    for i in 0..nlong {
        if !ctx.take() {
            continue;
        }
        let mut rng = case_rng(ctx, 0x10c6e, i);
        let kind = Kind::DIFF[(i % 5) as usize];
        let (old, new) = long_run_pair(&mut rng, kind);
        let mode = if i % 2 == 0 { Mode::Str } else { Mode::Bytes };
        ctx.count("remap.long_run_pairs");
        remap_case(ctx, kind, ALGS[((i / 5) % 3) as usize], mode, &old, &new);
    }
}

/// about 90..160 tokens made of long runs of two or three distinct units, and a copy with one to three
/// edits inside the runs (drop / duplicate / replace one unit)
fn long_run_pair(rng: &mut Rng, kind: Kind) -> (Vec<u8>, Vec<u8>) {
    let mut units: Vec<Vec<u8>> = match kind {
        Kind::Lines | Kind::Lnl => vec![b"\n".to_vec(), b"x\n".to_vec(), b"y y\n".to_vec()],
        Kind::Words | Kind::UWords => vec![b"a".to_vec(), b" ".to_vec(), b"b".to_vec()],
        Kind::Chars | Kind::Graphemes => vec![b"a".to_vec(), b"b".to_vec(), "é".as_bytes().to_vec()],
    };
    if rng.chance(1, 2) {
        units.truncate(2);
    }
    let total = rng.range(90, 160);
    let mut seq: Vec<usize> = vec![];
    while seq.len() < total {
        let u = match kind {
            // words: alternate word / space so that identical tokens stay separate tokens
            Kind::Words | Kind::UWords => seq.len() % 2,
            _ => rng.below(units.len()),
        };
        let run = match kind {
            Kind::Words | Kind::UWords => 1,
            _ => rng.range(1, 70),
        };
        for _ in 0..run {
            seq.push(u);
        }
    }
    let mut new = seq.clone();
    for _ in 0..rng.range(1, 3) {
        let at = rng.below(new.len());
        match rng.below(3) {
            0 => {
                new.remove(at);
            }
            1 => {
                let u = new[at];
                new.insert(at, u);
            }
            _ => new[at] = rng.below(units.len()),
        }
    }
    let cat = |v: &[usize]| -> Vec<u8> { v.iter().flat_map(|&u| units[u].iter().copied()).collect() };
    (cat(&seq), cat(&new))
}

/* ------------------------------------------------------------------------------------------ */
/* T6 close matches (C18)                                                                     */

fn char_ratio(a: &str, b: &str) -> f32 {
    TextDiff::from_chars(a, b).ratio()
}

/// one T6 request; returns the answer
fn close_case(ctx: &mut Ctx, word: &str, cands: &[&str], n: usize, cutoff: f32) -> String {
    let req = format!(
        "close {} {:08x} | {} | {}",
        n,
        cutoff.to_bits(),
        hex(word.as_bytes()),
        cands.iter().map(|c| hex(c.as_bytes())).collect::<Vec<_>>().join(",")
    );
    let got = catch_unwind(AssertUnwindSafe(|| similar::get_close_matches(word, cands, n, cutoff)));
    let ans = match &got {
        Ok(v) => format!("ok M={}", v.iter().map(|c| hex(c.as_bytes())).collect::<Vec<_>>().join(",")),
        Err(_) => "panic".to_string(),
    };
    ctx.emit(&req, &ans);
    let got = match got {
        Ok(g) => g,
        Err(_) => {
            ctx.violation("C18", &req, "get_close_matches panicked".to_string());
            return ans;
        }
    };
    // exhaustive ranking
    let mut ranked: Vec<(f32, &str)> = cands.iter().map(|c| (char_ratio(word, c), *c)).filter(|(r, _)| *r >= cutoff).collect();
    ranked.sort_by(|a, b| b.0.partial_cmp(&a.0).unwrap().then(a.1.cmp(b.1)));
    let passing = ranked.len();
    let want: Vec<&str> = ranked.iter().take(n).map(|x| x.1).collect();
    if got != want {
        let show = |v: &[&str]| v.iter().map(|c| if c.len() > 24 { format!("{}..({} bytes)", c.chars().take(8).collect::<String>(), c.len()) } else { c.to_string() }).collect::<Vec<_>>().join(",");
        ctx.violation("C18", &req, format!("returned [{}] but the exhaustive ranking gives [{}]", show(&got), show(&want)));
    }
    if passing >= 2 && n >= 1 {
        ctx.nontrivial(&req);
    }
    if passing > n {
        ctx.count("close.cases_truncated_by_n");
    }
    if ranked.windows(2).any(|w| w[0].0 == w[1].0 && w[0].1 != w[1].1) {
        ctx.count("close.cases_with_ratio_ties");
    }
    if ranked.iter().any(|(r, _)| *r == cutoff) {
        ctx.count("close.cases_cutoff_hit_exactly");
    }
    ans
}

pub fn suite_close(ctx: &mut Ctx) {
    const ALPHA: [char; 4] = ['a', 'b', 'c', 'é'];
    let (reps, nrand) = match ctx.tier {
        Tier::Quick => (40u64, 2000u64),
        Tier::Thorough => (1000, 20000),
    };
    let mut words: Vec<String> = vec![];
    for_each_word(4, 4, |d| words.push(d.iter().map(|&i| ALPHA[i]).collect()));
    let cuts: [f32; 7] = [0.0, 0.3, 0.5, 0.6, 2.0f32 / 3.0, 0.75, 1.0];
    let mutate = |rng: &mut Rng, w: &str, alpha: &[char]| -> String {
        let mut cs: Vec<char> = w.chars().collect();
        for _ in 0..rng.range(1, 2) {
            match rng.below(3) {
                0 if !cs.is_empty() => {
                    let i = rng.below(cs.len());
                    cs.remove(i);
                }
                1 => {
                    let i = rng.below(cs.len() + 1);
                    cs.insert(i, alpha[rng.below(alpha.len())]);
                }
                _ if !cs.is_empty() => {
                    let i = rng.below(cs.len());
                    cs[i] = alpha[rng.below(alpha.len())];
                }
                _ => {}
            }
        }
        cs.into_iter().collect()
    };
    for (wi, word) in words.iter().enumerate() {
        for rep in 0..reps {
            if !ctx.take() {
                continue;
            }
            let mut rng = case_rng(ctx, 0xc105e + wi as u64, rep);
            let k = rng.range(2, 5);
            let mut cands: Vec<String> = vec![];
            for _ in 0..k {
                let c = match rng.below(8) {
                    0 => String::new(),
                    1 if !cands.is_empty() => cands[rng.below(cands.len())].clone(),
                    2 | 3 => words[rng.below(words.len())].clone(),
                    4 => word.clone(),
                    _ => mutate(&mut rng, word, &ALPHA),
                };
                cands.push(c);
            }
            let refs: Vec<&str> = cands.iter().map(|s| s.as_str()).collect();
            let n = (rep % 5) as usize;
            let cutoff = if (rep / 5) % 3 == 2 { char_ratio(word, refs[rng.below(refs.len())]) } else { cuts[rng.below(cuts.len())] };
            ctx.count(&format!("close.n{}", n));
            close_case(ctx, word, &refs, n, cutoff);
        }
    }
    const ALPHA2: [char; 5] = ['a', 'b', 'c', 'd', 'é'];
    for i in 0..nrand {
        if !ctx.take() {
            continue;
        }
        let mut rng = case_rng(ctx, 0xc1052, i);
        let word: String = (0..rng.range(5, 20)).map(|_| ALPHA2[rng.below(5)]).collect();
        let k = rng.range(2, 5);
        let mut cands: Vec<String> = vec![];
        for _ in 0..k {
            let c = match rng.below(6) {
                0 => (0..rng.range(0, 20)).map(|_| ALPHA2[rng.below(5)]).collect(),
                1 if !cands.is_empty() => cands[rng.below(cands.len())].clone(),
                _ => {
                    let mut w = word.clone();
                    for _ in 0..rng.range(1, 4) {
                        w = mutate(&mut rng, &w, &ALPHA2);
                    }
                    w
                }
            };
            cands.push(c);
        }
        let refs: Vec<&str> = cands.iter().map(|s| s.as_str()).collect();
        let cutoff = if i % 3 == 2 { char_ratio(&word, refs[rng.below(refs.len())]) } else { cuts[rng.below(cuts.len())] };
        ctx.count("close.random_cases");
        close_case(ctx, &word, &refs, rng.below(5), cutoff);
    }
    // sub- and supersequences of longer words, cutoff exactly the ratio of one of them (every pair of lengths
    // up to 24 x 24 appears), and words over an alphabet with 1-, 2-, 3- and 4-byte characters
    const ALPHA3: [char; 6] = ['a', 'b', 'é', '\u{20ac}', '\u{1f600}', '\u{1f601}'];
    let nsub = match ctx.tier {
        Tier::Quick => 1u64,
        Tier::Thorough => 6,
    };
    for la in 1..=24usize {
        for lb in 0..=la {
            for rep in 0..nsub {
                if !ctx.take() {
                    continue;
                }
                let mut rng = case_rng(ctx, 0xc1053 + (la * 32 + lb) as u64, rep);
                let alpha: &[char] = if rep % 2 == 0 { &ALPHA2 } else { &ALPHA3 };
                let long: Vec<char> = (0..la).map(|_| alpha[rng.below(alpha.len())]).collect();
                // the same lengths with a word of pairwise DISTINCT characters (only then does the multiset pre-filter
                // count exactly the real matches, so that a candidate sits exactly ON the cutoff in both filters)
                {
                    let mut pool: Vec<char> = ('a'..='z').chain(['é', 'ß', '\u{20ac}', '\u{1f600}']).collect();
                    let mut dl: Vec<char> = vec![];
                    for _ in 0..la {
                        let c = pool.remove(rng.below(pool.len()));
                        dl.push(c);
                    }
                    let mut keep: Vec<usize> = (0..la).collect();
                    while keep.len() > lb {
                        let i = rng.below(keep.len());
                        keep.remove(i);
                    }
                    let short: String = keep.iter().map(|&i| dl[i]).collect();
                    let long: String = dl.into_iter().collect();
                    for (word, cand) in [(&long, &short), (&short, &long)] {
                        let other = mutate(&mut rng, cand, &ALPHA2);
                        let refs: Vec<&str> = vec![other.as_str(), cand.as_str()];
                        ctx.count("close.distinct_subsequence_cases");
                        close_case(ctx, word, &refs, 1 + rng.below(2), char_ratio(word, cand));
                    }
                }
                // a subsequence of length lb
                let mut keep: Vec<usize> = (0..la).collect();
                while keep.len() > lb {
                    let i = rng.below(keep.len());
                    keep.remove(i);
                }
                let short: String = keep.iter().map(|&i| long[i]).collect();
                let long: String = long.into_iter().collect();
                let (word, cand) = if rng.below(2) == 0 { (long.clone(), short.clone()) } else { (short.clone(), long.clone()) };
                let other = mutate(&mut rng, &cand, alpha);
                let other2 = mutate(&mut rng, &word, alpha);
                let refs: Vec<&str> = vec![other.as_str(), cand.as_str(), other2.as_str()];
                let cutoff = char_ratio(&word, &cand);
                ctx.count("close.subsequence_cases");
                close_case(ctx, &word, &refs, 1 + rng.below(3), cutoff);
            }
        }
    }
    for i in 0..nrand / 4 {
        if !ctx.take() {
            continue;
        }
        let mut rng = case_rng(ctx, 0xc1054, i);
        let word: String = (0..rng.range(1, 12)).map(|_| ALPHA3[rng.below(6)]).collect();
        let k = rng.range(2, 5);
        let mut cands: Vec<String> = vec![];
        for _ in 0..k {
            let c = match rng.below(6) {
                0 => (0..rng.range(0, 12)).map(|_| ALPHA3[rng.below(6)]).collect(),
                1 => (0..rng.range(1, 12)).map(|_| ALPHA3[4 + rng.below(2)]).collect(),
                _ => {
                    let mut w = word.clone();
                    for _ in 0..rng.range(1, 3) {
                        w = mutate(&mut rng, &w, &ALPHA3);
                    }
                    w
                }
            };
            cands.push(c);
        }
        let refs: Vec<&str> = cands.iter().map(|s| s.as_str()).collect();
        let cutoff = if i % 3 == 2 { char_ratio(&word, refs[rng.below(refs.len())]) } else { cuts[rng.below(cuts.len())] };
        ctx.count("close.astral_cases");
        close_case(ctx, &word, &refs, rng.below(5), cutoff);
    }
    // every KIND of f32 as the cutoff (the property says "every cutoff"; the theorem quantifies over bit patterns): signed
    // zeros, subnormals, values just around 0 / 0.5 / 1, negatives, values above 1, infinities, NaNs of both signs
    let odd_cuts: [f32; 18] = [
        -0.0, f32::MIN_POSITIVE, f32::from_bits(1), f32::from_bits(0x8000_0001), -f32::MIN_POSITIVE, -1.0, -0.5,
        f32::from_bits(0x3eff_ffff), f32::from_bits(0x3f00_0001), f32::from_bits(0x3f7f_ffff), f32::from_bits(0x3f80_0001), 2.0,
        f32::INFINITY, f32::NEG_INFINITY, f32::NAN, -f32::NAN, f32::from_bits(0x7f80_0001), f32::MAX,
    ];
    for (i, &cut) in odd_cuts.iter().enumerate() {
        if !ctx.take() {
            continue;
        }
        for (word, cands) in [("a", vec!["a"]), ("ab", vec!["ab", "a", "b", "", "zz"]), ("", vec!["", "a"]), ("abcd", vec!["abc", "abd", "xbcd", "dcba"])] {
            for n in [0usize, 1, 2, 9] {
                ctx.count("close.special_cutoff_cases");
                close_case(ctx, word, &cands, n + i % 2, cut);
            }
        }
    }
    // words LONGER THAN A MACHINE WORD (65..320 characters) built from runs that start and stop on multiples of 32 / 64
    // (what a bit-parallel matcher works in), against short candidates and against sub/supersequences
    let nblock = if ctx.tier == Tier::Quick { 400u64 } else { 6000 };
    for i in 0..nblock {
        if !ctx.take() {
            continue;
        }
        let mut rng = case_rng(ctx, 0xb10c, i);
        let unit = [32usize, 64, 64, 64][rng.below(4)];
        let letters = ['a', 'b', 'x', 'y', 'é'];
        let mut word = String::new();
        // a short lead shifts all later runs off (or onto) the block boundaries
        for _ in 0..[0usize, 0, 1, 1, 2, 63][rng.below(6)] {
            word.push(letters[rng.below(5)]);
        }
        for _ in 0..rng.range(2, 5) {
            let c = letters[rng.below(5)];
            let len = unit - [0usize, 0, 1][rng.below(3)];
            for _ in 0..len {
                word.push(c);
            }
            if rng.chance(1, 3) {
                word.push(letters[rng.below(5)]);
            }
        }
        let mut cands: Vec<String> = letters.iter().map(|c| c.to_string()).collect();
        cands.push(letters.iter().take(rng.range(2, 5)).collect());
        let sub: String = word.chars().filter(|_| rng.chance(1, 3)).collect();
        cands.push(sub);
        cands.push(mutate(&mut rng, &word, &letters));
        let refs: Vec<&str> = cands.iter().map(|s| s.as_str()).collect();
        let cutoff = if i % 2 == 0 { 0.0 } else { char_ratio(&word, refs[rng.below(refs.len())]) };
        ctx.count("close.block_word_cases");
        close_case(ctx, &word, &refs, 1 + rng.below(3), cutoff);
    }
    // tiny ratios (thorough only): two candidates whose ratios differ below 2^-9
    if ctx.tier == Tier::Thorough {
        for (a, b) in [(200_000usize, 200_001usize), (150_000, 150_001)] {
            if !ctx.take() {
                continue;
            }
            let c1 = format!("x{}", "z".repeat(a));
            let c2 = format!("x{}", "a".repeat(b));
            ctx.count("close.tiny_ratio_cases");
            close_case(ctx, "x", &[&c1, &c2], 1, 0.0);
        }
    }
}

/* ------------------------------------------------------------------------------------------ */
/* T7 IdentifyDistinct (C14)                                                                  */

struct IdCase {
    old: Vec<u32>,
    new: Vec<u32>,
    o_off: usize,
    n_off: usize,
    os: usize,
    oe: usize,
    ns: usize,
    ne: usize,
}

type Ids = (Vec<u64>, Vec<u64>, (usize, usize, usize, usize));

fn identify_run<Int>(c: &IdCase) -> Option<Ids>
where
    Int: Add<Output = Int> + From<u8> + Default + Copy + Into<u64>,
{
    identify_run_salted::<Int>(c, 0)
}

/// `salt` changes only how the items HASH (parity of the label, one constant, like a string): lawful `Hash`
/// implementations that agree between the two item types, under which equal ids must still mean equal items
fn identify_run_salted<Int>(c: &IdCase, salt: u32) -> Option<Ids>
where
    Int: Add<Output = Int> + From<u8> + Default + Copy + Into<u64>,
{
    let o = Off { off: c.o_off, v: c.old.iter().map(|&x| OItem(x, salt)).collect::<Vec<_>>() };
    let n = Off { off: c.n_off, v: c.new.iter().map(|&x| NItem(x, salt)).collect::<Vec<_>>() };
    catch_unwind(AssertUnwindSafe(|| {
        let h = IdentifyDistinct::<Int>::new(&o, c.os..c.oe, &n, c.ns..c.ne);
        let (or, nr) = (h.old_range(), h.new_range());
        let oi: Vec<u64> = or.clone().map(|i| h.old_lookup()[i].into()).collect();
        let ni: Vec<u64> = nr.clone().map(|i| h.new_lookup()[i].into()).collect();
        (oi, ni, (or.start, or.end, nr.start, nr.end))
    }))
    .ok()
}

fn identify_request(c: &IdCase) -> String {
    format!("identify | {} | {} | {} {} {} {}", proto::show_seq(c.o_off, &c.old), proto::show_seq(c.n_off, &c.new), c.os, c.oe, c.ns, c.ne)
}

fn check_identify(c: &IdCase, r: &Ids) -> V {
    let (oi, ni, rg) = r;
    if *rg != (c.os, c.oe, c.ns, c.ne) {
        return err(format!("old_range()/new_range() = {:?} but the caller passed {:?}", rg, (c.os, c.oe, c.ns, c.ne)));
    }
    let items: Vec<u32> = (c.os..c.oe).map(|i| c.old[i - c.o_off]).chain((c.ns..c.ne).map(|i| c.new[i - c.n_off])).collect();
    let ids: Vec<u64> = oi.iter().chain(ni.iter()).copied().collect();
    if ids.len() != items.len() {
        return err("number of ids differs from the number of items".to_string());
    }
    // first-seen numbering decides everything: ids equal exactly when items equal, and count 0,1,2,...
    let mut seen: HashMap<u32, u64> = HashMap::new();
    for (k, (it, id)) in items.iter().zip(&ids).enumerate() {
        let next = seen.len() as u64;
        let want = *seen.entry(*it).or_insert(next);
        if *id != want {
            return err(format!("item {} (label {}) got id {} expected {} (first-seen numbering, old range first)", k, it, id, want));
        }
    }
    for a in 0..items.len() {
        for b in 0..a {
            if (items[a] == items[b]) != (ids[a] == ids[b]) {
                return err(format!("items {} and {}: equal items = {} but equal ids = {}", b, a, items[a] == items[b], ids[a] == ids[b]));
            }
        }
    }
    Ok(())
}

fn identify_case(ctx: &mut Ctx, c: &IdCase) -> String {
    let req = identify_request(c);
    let r = identify_run::<u32>(c);
    let csv = |v: &[u64]| v.iter().map(|x| x.to_string()).collect::<Vec<_>>().join(",");
    let ans = match &r {
        Some((o, n, rg)) => format!("ok I={};{} R={},{},{},{}", csv(o), csv(n), rg.0, rg.1, rg.2, rg.3),
        None => "panic".to_string(),
    };
    ctx.emit(&req, &ans);
    match &r {
        None => ctx.violation("C14", &req, "IdentifyDistinct::new panicked".to_string()),
        Some(r32) => {
            if let Err(e) = check_identify(c, r32) {
                ctx.violation("C14", &req, e);
            }
            if identify_run::<u16>(c).as_ref() != Some(r32) {
                ctx.violation("C14", &req, "IdentifyDistinct::<u16> gives different ids".to_string());
            }
            if identify_run::<u64>(c).as_ref() != Some(r32) {
                ctx.violation("C14", &req, "IdentifyDistinct::<u64> gives different ids".to_string());
            }
            // the numbering may depend on the items only through `==`: heavily colliding (parity), constant and
            // string-like hashes must give the very same ids (a table keyed by a hash or fingerprint of the items
            // instead of the items gives one number to unequal items)
            for (salt, what) in [(obs::WEAK_HASH, "a hash that keeps only the parity of the item"), (obs::CONST_HASH, "a constant hash"), (obs::STR_HASH, "a string-like hash")] {
                let rs = identify_run_salted::<u32>(c, salt);
                // also compared with the model (whose numbering knows nothing about hashes): the same request, the answer
                // of the run with differently hashing items
                let ans_s = match &rs {
                    Some((o, n, rg)) => format!("ok I={};{} R={},{},{},{}", csv(o), csv(n), rg.0, rg.1, rg.2, rg.3),
                    None => "panic".to_string(),
                };
                if (c.os + c.ne + salt as usize) % 4 == 0 || ans_s != ans {
                    ctx.emit(&req, &ans_s);
                }
                if rs.as_ref() != Some(r32) {
                    ctx.violation("C14", &req, format!("IdentifyDistinct gives different ids when the items hash differently ({}): equal numbers no longer mean equal items", what));
                    break;
                }
            }
            let distinct = r32.0.iter().chain(r32.1.iter()).collect::<BTreeSet<_>>().len();
            if distinct >= 2 && distinct < r32.0.len() + r32.1.len() {
                ctx.nontrivial(&req);
            }
            ctx.max("identify.max_distinct", distinct as u64);
            if c.o_off > 0 {
                ctx.count("identify.offset_lookup_cases");
            }
            if c.os > c.o_off || c.oe < c.o_off + c.old.len() || c.ns > c.n_off || c.ne < c.n_off + c.new.len() {
                ctx.count("identify.subrange_cases");
            }
        }
    }
    ans
}

pub fn suite_identify(ctx: &mut Ctx) {
    let (sets, nrand, maxsz): (&[(u32, usize)], u64, usize) = match ctx.tier {
        Tier::Quick => (&[(3, 3)], 2000, 150),
        Tier::Thorough => (&[(3, 3), (2, 4), (4, 3)], 50000, 400),
    };
    for &(k, l) in sets {
        let seqs = gen::all_seqs(k, l);
        for old in &seqs {
            for new in &seqs {
                for (os, oe) in gen::subranges(old.len()) {
                    for (ns, ne) in gen::subranges(new.len()) {
                        if !ctx.take() {
                            continue;
                        }
                        let shift = (os + 2 * oe + 3 * ns + 5 * ne) % 2 == 1;
                        let (oo, no) = if shift { (2, 3) } else { (0, 0) };
                        let c = IdCase { old: old.clone(), new: new.clone(), o_off: oo, n_off: no, os: os + oo, oe: oe + oo, ns: ns + no, ne: ne + no };
                        identify_case(ctx, &c);
                    }
                }
            }
        }
    }
    for i in 0..nrand {
        if !ctx.take() {
            continue;
        }
        let mut rng = case_rng(ctx, 0x1de27, i);
        let fam = gen::FAMILIES[(i % gen::FAMILIES.len() as u64) as usize];
        let size = 1 + rng.below(maxsz);
        let (old, new) = gen::gen_pair(&mut rng, fam, size);
        let (oo, no) = if rng.chance(1, 2) { (rng.below(5), rng.below(5)) } else { (0, 0) };
        let (mut os, mut oe, mut ns, mut ne) = (0, old.len(), 0, new.len());
        if rng.chance(1, 3) && !old.is_empty() && !new.is_empty() {
            os = rng.below(old.len());
            oe = rng.range(os, old.len());
            ns = rng.below(new.len());
            ne = rng.range(ns, new.len());
        }
        ctx.count("identify.random_cases");
        let c = IdCase { old, new, o_off: oo, n_off: no, os: os + oo, oe: oe + oo, ns: ns + no, ne: ne + no };
        identify_case(ctx, &c);
    }
}

/* ------------------------------------------------------------------------------------------ */
/* determinism (C20)                                                                          */

/// two long-lived threads (own thread-locals, own hasher seeds) that run captures on request
struct Workers {
    tx: Vec<std::sync::mpsc::Sender<Case>>,
    rx: Vec<std::sync::mpsc::Receiver<Option<Vec<Call>>>>,
}
impl Workers {
    fn new(n: usize) -> Workers {
        let (mut tx, mut rx) = (vec![], vec![]);
        for _ in 0..n {
            let (ctx_, crx) = std::sync::mpsc::channel::<Case>();
            let (rtx, rrx) = std::sync::mpsc::channel();
            std::thread::spawn(move || {
                while let Ok(c) = crx.recv() {
                    if rtx.send(run_capture(&c).ops).is_err() {
                        break;
                    }
                }
            });
            tx.push(ctx_);
            rx.push(rrx);
        }
        Workers { tx, rx }
    }
    fn run(&self, c: &Case) -> Vec<Option<Vec<Call>>> {
        for t in &self.tx {
            t.send(c.clone()).expect("worker alive");
        }
        self.rx.iter().map(|r| r.recv().ok().flatten()).collect()
    }
}

fn determinism_case(ctx: &mut Ctx, c: &Case, workers: &Workers, fresh_threads: bool) {
    let req = capture_request(c);
    let base = run_capture(c);
    ctx.emit(&req, &base.show());
    let ops = match &base.ops {
        Some(o) => o.clone(),
        None => {
            ctx.violation("C20", &req, "capture_diff panicked".to_string());
            return;
        }
    };
    let check = |ctx: &mut Ctx, what: &str, got: Option<Vec<Call>>| {
        if got.as_ref() != Some(&ops) {
            ctx.violation("C20", &req, format!("{} gives {}", what, got.map_or("a panic".to_string(), |g| proto::show_calls(&g))));
        }
    };
    check(ctx, "a second run in the same thread", run_capture(c).ops);
    for (k, got) in workers.run(c).into_iter().enumerate() {
        check(ctx, &format!("a run in spawned thread {}", k + 1), got);
    }
    if fresh_threads {
        // freshly spawned threads (costly under 16 concurrent shards: a sample of the cases)
        let (t1, t2) = std::thread::scope(|s| {
            let a = s.spawn(|| run_capture(c).ops);
            let b = s.spawn(|| run_capture(c).ops);
            (a.join().ok().flatten(), b.join().ok().flatten())
        });
        ctx.count("determinism.cases_with_fresh_threads");
        check(ctx, "a run in a freshly spawned thread", t1);
        check(ctx, "a run in a second freshly spawned thread", t2);
    }
    let mut salted = c.clone();
    salted.salt = 0x5a17 + (c.old.len() as u32) * 31 + c.new.len() as u32;
    check(ctx, "a run with differently hashing items", run_capture(&salted).ops);
    // lawful but colliding hashes: the ops may depend on equality only, never on hash values
    let mut weak = c.clone();
    weak.salt = obs::WEAK_HASH;
    check(ctx, "a run with a heavily colliding hash (parity of the label)", run_capture(&weak).ops);
    let mut konst = c.clone();
    konst.salt = obs::CONST_HASH;
    check(ctx, "a run with a constant hash", run_capture(&konst).ops);
    let mut relabelled = c.clone();
    relabelled.old = c.old.iter().map(|x| 7 * x + 3).collect();
    relabelled.new = c.new.iter().map(|x| 7 * x + 3).collect();
    check(ctx, "the relabelling x -> 7x+3", run_capture(&relabelled).ops);
    let (d, i, e) = oracle::cost(&ops);
    if d + i > 0 && e > 0 {
        ctx.nontrivial(&req);
    }
    ctx.count(&format!("determinism.{}", alg_name(c.alg)));
    ctx.max("determinism.max_len", (c.old.len() + c.new.len()) as u64);
}

/// Thousands of unique items per side and several equally good diffs (blocks that changed places): implementation
/// only, every run must give the ops of the first one.
fn big_determinism_cases(ctx: &mut Ctx, workers: &Workers) {
    let halves: &[u32] = if ctx.tier == Tier::Quick { &[3000, 5000] } else { &[3000, 5000, 9000, 20000] };
    let mut inputs: Vec<(Algorithm, u32, Vec<u32>, Vec<u32>, String)> = vec![];
    for &half in halves {
        for alg in [Algorithm::Patience, Algorithm::Myers] {
            if alg == Algorithm::Myers && half > 3000 {
                continue;
            }
            let a: Vec<u32> = (0..half).collect();
            let b: Vec<u32> = (half..2 * half).collect();
            let old: Vec<u32> = a.iter().chain(b.iter()).copied().collect();
            let new: Vec<u32> = b.iter().chain(a.iter()).copied().collect();
            let what = format!("<blocks A B of {} distinct items each> | <B A>", half);
            inputs.push((alg, half, old, new, what));
        }
    }
    // anchor-SENSITIVE inputs with far more unique items than any plausible cap on the anchor lists: n blocks
    // `S_i U_i r r r` against `S_i r r r U_i` (S_i, U_i unique, r repeated). Every S_i and U_i is an anchor; WHICH of
    // them are used decides how the block between them is aligned, so a subset picked in hash-map order (a cap, a
    // sample, a fast path) shows as run-to-run / thread / salt / relabelling differences
    let blocks: &[u32] = if ctx.tier == Tier::Quick { &[9000] } else { &[9000, 24000] };
    for &n in blocks {
        let (mut old, mut new) = (vec![], vec![]);
        for i in 0..n {
            old.extend_from_slice(&[10 + 2 * i, 11 + 2 * i, 1, 1, 1]);
            new.extend_from_slice(&[10 + 2 * i, 1, 1, 1, 11 + 2 * i]);
        }
        let what = format!("<{} blocks S_i U_i r r r> | <{} blocks S_i r r r U_i>", n, n);
        inputs.push((Algorithm::Patience, n, old, new, what));
    }
    {
        for (alg, half, old, new, what) in inputs {
            let c = Case::full(alg, &old, &new);
            let req = format!("capture {} - 0 | {} | 0 {} 0 {}", alg_name(alg), what, old.len(), new.len());
            ctx.count("determinism.big_cases");
            let ops = match run_capture(&c).ops {
                Some(o) => o,
                None => {
                    ctx.violation("C20", &req, "capture_diff panicked".to_string());
                    continue;
                }
            };
            let show = |g: &Option<Vec<Call>>| match g {
                None => "a panic".to_string(),
                Some(g) => {
                    let s = proto::show_calls(g);
                    if s.len() > 120 { format!("{}.. ({} ops)", &s[..120], g.len()) } else { s }
                }
            };
            let mut runs: Vec<(String, Option<Vec<Call>>)> = vec![];
            for k in 0..3 {
                runs.push((format!("repeated run {}", k + 1), run_capture(&c).ops));
            }
            for (k, got) in workers.run(&c).into_iter().enumerate() {
                runs.push((format!("a run in spawned thread {}", k + 1), got));
            }
            let mut salted = c.clone();
            salted.salt = 0x5a17 + half;
            runs.push(("a run with differently hashing items".to_string(), run_capture(&salted).ops));
            let mut relabelled = c.clone();
            relabelled.old = c.old.iter().map(|x| 7 * x + 3).collect();
            relabelled.new = c.new.iter().map(|x| 7 * x + 3).collect();
            runs.push(("the relabelling x -> 7x+3".to_string(), run_capture(&relabelled).ops));
            for (what, got) in runs {
                if got.as_ref() != Some(&ops) {
                    ctx.violation("C20", &req, format!("{} gives {} instead of {}", what, show(&got), show(&Some(ops.clone()))));
                    break;
                }
            }
        }
    }
}

pub fn suite_determinism(ctx: &mut Ctx) {
    let (k, l, nrand, maxsz) = match ctx.tier {
        Tier::Quick => (3, 4, 3000u64, 80),
        Tier::Thorough => (3, 5, 60000, 300),
    };
    let seqs = gen::all_seqs(k, l);
    let workers = Workers::new(2);
    if ctx.take() {
        big_determinism_cases(ctx, &workers);
    }
    let mut j = 0u64;
    for alg in ALGS {
        for old in &seqs {
            for new in &seqs {
                j += 1;
                if !ctx.take() {
                    continue;
                }
                determinism_case(ctx, &Case::full(alg, old, new), &workers, j % 61 == 0);
            }
        }
    }
    for i in 0..nrand {
        if !ctx.take() {
            continue;
        }
        let mut rng = case_rng(ctx, 0xde7e2, i);
        let fam = gen::FAMILIES[(i % gen::FAMILIES.len() as u64) as usize];
        let alg = ALGS[rng.below(3)];
        let size = 1 + rng.below(if alg == Algorithm::Lcs { maxsz.min(60) } else { maxsz });
        let (old, new) = gen::gen_pair(&mut rng, fam, size);
        ctx.count(&format!("determinism.family.{:?}", fam));
        determinism_case(ctx, &Case::full(alg, &old, &new), &workers, i % 16 == 0);
    }
}

/* ------------------------------------------------------------------------------------------ */
/* replay of one request line                                                                 */

fn inline_replay<T: DiffableStr + ?Sized>(ctx: &mut Ctx, line: &str, dl: Option<u64>, op: &DiffOp, old: &[&T], new: &[&T]) -> String {
    let diff = TextDiff::from_slices(old, new);
    let (r, _, _, _) = obs::with_world(dl, false, |inst| {
        diff.iter_inline_changes_deadline(op, inst)
            .map(|ic| IChg {
                tag: ic.tag(),
                oi: ic.old_index(),
                ni: ic.new_index(),
                segs: ic.values().iter().map(|(e, v)| (*e, v.as_bytes().to_vec())).collect(),
                missing_newline: ic.missing_newline(),
            })
            .collect::<Vec<IChg>>()
    });
    match &r {
        None => ctx.violation("C16", line, "iter_inline_changes_deadline panicked".to_string()),
        Some(got) => {
            let plain = catch_unwind(AssertUnwindSafe(|| diff.iter_changes(op).map(conv_change).collect::<Vec<Chg>>()));
            match plain {
                Ok(plain) => {
                    if let Err(e) = check_inline(op, &plain, got) {
                        ctx.violation("C16", line, e);
                    }
                }
                Err(_) => ctx.violation("C16", line, "iter_changes panicked (op out of range?)".to_string()),
            }
        }
    }
    inline_answer(&r)
}

/// `harness search <request>` for text-level requests (`text`, `helper`): the two texts of the request, amplified (repeated,
/// behind a long shared head, in front of a shared tail, line by line made ASCII) and run through EVERY tokenizer, mode and
/// algorithm with all text-level validators (C04 C02 C09 C11 C03 C12 C13 C14 C20), the unified-diff validators (C05), the
/// inline validators (C16) and the remapper / helper validators (C17) on the IMPLEMENTATION. See `algs::search`.
pub fn search(line: &str, ctx: &mut Ctx) {
    let parts: Vec<&str> = line.split('|').map(|s| s.trim()).collect();
    if parts.len() < 3 {
        return;
    }
    let (old, new) = match (unhex(parts[1]), unhex(parts[2])) {
        (Some(o), Some(n)) => (o, n),
        _ => return,
    };
    let rep = |v: &[u8], k: usize| -> Vec<u8> { (0..k).flat_map(|_| v.iter().copied()).collect() };
    let numbered = |k: usize, tag: &str| -> Vec<u8> { (0..k).map(|i| format!("{}{} \n", tag, i)).collect::<String>().into_bytes() };
    let mut variants: Vec<(Vec<u8>, Vec<u8>)> = vec![(old.clone(), new.clone()), (new.clone(), old.clone())];
    for k in [2usize, 5, 30, 130] {
        if (old.len() + new.len()) * k <= 60_000 {
            variants.push((rep(&old, k), rep(&new, k)));
            variants.push((rep(&old, k), rep(&new, k + 1)));
        }
    }
    for h in [2usize, 60, 130, 4200] {
        let head = numbered(h, "h");
        let tail = numbered(h, "t");
        variants.push(([&head[..], &old[..]].concat(), [&head[..], &new[..]].concat()));
        variants.push(([&old[..], &tail[..]].concat(), [&new[..], &tail[..]].concat()));
        variants.push(([&head[..], &old[..], &tail[..]].concat(), [&head[..], &new[..], &tail[..]].concat()));
    }
    // the request's own tokenizer first, then lines and words (the other tokenizers add little for an amplified text)
    let hd: Vec<&str> = parts[0].split_whitespace().collect();
    let mut kinds: Vec<Kind> = vec![];
    for k in [hd.get(1).and_then(|x| Kind::parse(x)), Some(Kind::Lines), Some(Kind::Words)].into_iter().flatten() {
        if !kinds.contains(&k) && Kind::DIFF.contains(&k) {
            kinds.push(k);
        }
    }
    let t_start = Instant::now();
    let mut idx = 0u64;
    for (o, n) in variants {
        if t_start.elapsed() > Duration::from_secs(100) {
            break;
        }
        let big = o.len() + n.len() > 20_000;
        for &kind in &kinds {
            if big && kind != Kind::Lines {
                continue;
            }
            for alg in ALGS {
                if alg == Algorithm::Lcs && big {
                    continue;
                }
                idx += 1;
                let c = TextCfg { kind, alg, nlt: None, dl: if idx % 4 == 0 { Some(idx % 7) } else { None } };
                if big {
                    for mode in [Mode::Bytes, Mode::Str] {
                        if mode == Mode::Str && !(is_utf8(&o) && is_utf8(&n)) {
                            continue;
                        }
                        let req = text_request(&c, mode, &o, &n);
                        match text_eval_mode(&c, DlHow::Deadline, mode, &o, &n) {
                            None => ctx.violation("C04", &req, "the text diff panicked".to_string()),
                            Some(e) => check_text(ctx, &req, &c, &o, &n, &e),
                        }
                    }
                } else {
                    text_pair(ctx, &c, &o, &n, idx);
                    let mode = if is_utf8(&o) && is_utf8(&n) && idx % 2 == 0 { Mode::Str } else { Mode::Bytes };
                    remap_case(ctx, kind, alg, mode, &o, &n);
                }
            }
        }
        if !big {
            for (radius, hdr) in [(0usize, false), (1, true), (3, false)] {
                let uc = UCfg { alg: ALGS[(idx % 3) as usize], radius, hdr, hint: true, writer: true, nlt: None };
                let mode = if is_utf8(&o) && is_utf8(&n) { Mode::Str } else { Mode::Bytes };
                udiff_case(ctx, &uc, mode, &o, &n);
                udiff_case(ctx, &uc, Mode::Bytes, &o, &n);
            }
            let mode = if is_utf8(&o) && is_utf8(&n) { Mode::Str } else { Mode::Bytes };
            inline_pair_mode(ctx, ALGS[(idx % 3) as usize], mode, &o, &n, &[None, Some(1)]);
        }
        if ctx.violations.iter().filter(|v| v.known.is_none()).count() >= 40 {
            break;
        }
    }
}

pub fn replay(line: &str) {
    let parts: Vec<&str> = line.split('|').map(|s| s.trim()).collect();
    let hd: Vec<&str> = parts[0].split_whitespace().collect();
    let mut ctx = scratch_ctx();
    let bad = || println!("malformed request");
    let answer: String = match hd[0] {
        "tok" if hd.len() == 3 && parts.len() >= 2 => {
            let input = match unhex(parts[1]) {
                Some(b) => b,
                None => return bad(),
            };
            if hd[1] == "decode" {
                decode_answer(&input)
            } else {
                let (kind, mode) = match (Kind::parse(hd[1]), Mode::parse(hd[2])) {
                    (Some(k), Some(m)) => (k, m),
                    _ => return bad(),
                };
                if mode == Mode::Str && !is_utf8(&input) {
                    println!("mode str with invalid UTF-8");
                    return;
                }
                if kind.external() && parts.len() >= 3 {
                    let mine = lens_str(&ext_seg(kind, mode, &input));
                    if parse_lens(parts[2]) != parse_lens(&mine) {
                        println!("note: the external segmenter reports {} for this input", mine);
                    }
                }
                tok_one(&mut ctx, kind, mode, &input).0
            }
        }
        "ws" if hd.len() == 3 => match (hd[1].parse::<u32>(), hd[2].parse::<u32>()) {
            (Ok(lo), Ok(hi)) if lo <= hi => ws_one(&mut ctx, lo, hi),
            _ => return bad(),
        },
        "text" if hd.len() == 6 && parts.len() >= 3 => {
            let (kind, mode, alg) = match (Kind::parse(hd[1]), Mode::parse(hd[2]), parse_alg(hd[3])) {
                (Some(k), Some(m), Some(a)) => (k, m, a),
                _ => return bad(),
            };
            let (old, new) = match (unhex(parts[1]), unhex(parts[2])) {
                (Some(o), Some(n)) => (o, n),
                _ => return bad(),
            };
            if mode == Mode::Str && !(is_utf8(&old) && is_utf8(&new)) {
                println!("mode str with invalid UTF-8");
                return;
            }
            let nlt = match hd[5] {
                "0" => Some(false),
                "1" => Some(true),
                _ => None,
            };
            let c = TextCfg { kind, alg, nlt, dl: hd[4].parse().ok() };
            text_case(&mut ctx, &c, mode, &old, &new).0
        }
        "udiff" if hd.len() == 6 && parts.len() == 4 => {
            let (ops, ot, nt) = match (proto::parse_calls(parts[1]), parse_toks(parts[2]), parse_toks(parts[3])) {
                (Some(o), Some(a), Some(b)) => (o, a, b),
                _ => return bad(),
            };
            let (old, new) = (concat(&ot), concat(&nt));
            let mode = if is_utf8(&old) && is_utf8(&new) { Mode::Str } else { Mode::Bytes };
            let mut c = UCfg {
                alg: Algorithm::Myers,
                radius: hd[1].parse().unwrap_or(3),
                hdr: hd[2] == "1",
                hint: hd[4] == "1",
                writer: hd[5] == "writer",
                nlt: if hd[3] == "1" { None } else { Some(false) },
            };
            // the request does not name the algorithm: take the one that reproduces its ops
            let found = ALGS.iter().copied().find(|a| {
                c.alg = *a;
                render_udiff_mode(&c, false, mode, &old, &new).map_or(false, |r| ops_calls(&r.ops) == ops)
            });
            match found {
                Some(a) => {
                    c.alg = a;
                    println!("re-built with diff_lines, algorithm {} ({} input)", alg_name(a), mode.name());
                }
                None => {
                    c.alg = Algorithm::Myers;
                    println!("no algorithm reproduces the ops of the request; showing myers");
                }
            }
            udiff_case(&mut ctx, &c, mode, &old, &new)
        }
        "inline" if hd.len() == 2 && parts.len() >= 4 => {
            let (ops, ot, nt) = match (proto::parse_calls(parts[1]), parse_toks(parts[2]), parse_toks(parts[3])) {
                (Some(o), Some(a), Some(b)) if o.len() == 1 && o[0].to_op().is_some() => (o, a, b),
                _ => return bad(),
            };
            let op = ops[0].to_op().unwrap();
            let dl = hd[1].parse().ok();
            if ot.iter().chain(nt.iter()).all(|t| is_utf8(t)) {
                let o: Vec<&str> = ot.iter().map(|t| as_str(t)).collect();
                let n: Vec<&str> = nt.iter().map(|t| as_str(t)).collect();
                inline_replay::<str>(&mut ctx, line, dl, &op, &o, &n)
            } else {
                let o: Vec<&[u8]> = ot.iter().map(|t| &t[..]).collect();
                let n: Vec<&[u8]> = nt.iter().map(|t| &t[..]).collect();
                inline_replay::<[u8]>(&mut ctx, line, dl, &op, &o, &n)
            }
        }
        "remap" if parts.len() == 4 => {
            let (ops, ol, nl) = match (proto::parse_calls(parts[1]), parse_lens(parts[2]), parse_lens(parts[3])) {
                (Some(o), Some(a), Some(b)) => (o, a, b),
                _ => return bad(),
            };
            // synthetic texts with tokens of the given lengths
            let synth = |lens: &[usize], base: u8| -> Vec<u8> { lens.iter().enumerate().flat_map(|(i, &l)| std::iter::repeat(base + (i % 26) as u8).take(l)).collect() };
            let (old, new) = (synth(&ol, b'a'), synth(&nl, b'A'));
            let cut = |t: &[u8], lens: &[usize]| -> Vec<Vec<u8>> {
                let mut p = 0;
                lens.iter()
                    .map(|&l| {
                        p += l;
                        t[p - l..p].to_vec()
                    })
                    .collect()
            };
            let (ot, mut nt) = (cut(&old, &ol), cut(&new, &nl));
            let dops: Vec<DiffOp> = ops.iter().filter_map(|c| c.to_op()).collect();
            // tokens under an Equal op carry the same bytes on both sides
            for op in &dops {
                if let DiffOp::Equal { old_index, new_index, len } = *op {
                    for t in 0..len {
                        if let (Some(a), Some(b)) = (ot.get(old_index + t), nt.get_mut(new_index + t)) {
                            if a.len() == b.len() {
                                *b = a.clone();
                            }
                        }
                    }
                }
            }
            let new = concat(&nt);
            let slices = catch_unwind(AssertUnwindSafe(|| {
                let o: Vec<&[u8]> = ot.iter().map(|t| &t[..]).collect();
                let n: Vec<&[u8]> = nt.iter().map(|t| &t[..]).collect();
                let rm = TextDiffRemapper::new(&o, &n, &old[..], &new[..]);
                dops.iter().map(|op| rm.iter_slices(op).map(|(t, s)| locate(t, s, &old, &new)).collect::<Vec<Slice>>()).collect::<Vec<_>>()
            }))
            .ok();
            let ev = RemapEval { ops: dops, old_toks: ot, new_toks: nt, slices_via_new: slices.clone(), slices };
            let ok_script = catch_unwind(AssertUnwindSafe(|| check_remap(&ev, &old, &new)));
            match ok_script {
                Ok(Ok(())) => {}
                Ok(Err(e)) => ctx.violation("C17", line, e),
                Err(_) => ctx.violation("C17", line, "the ops of the request leave the token lists".to_string()),
            }
            remap_answer(&ev.slices)
        }
        "close" if hd.len() == 3 && parts.len() == 3 => {
            let cutoff = match u32::from_str_radix(hd[2], 16) {
                Ok(b) => f32::from_bits(b),
                Err(_) => return bad(),
            };
            let word = match unhex(parts[1]) {
                Some(w) if is_utf8(&w) => String::from_utf8(w).unwrap(),
                _ => return bad(),
            };
            let cands: Option<Vec<String>> = parts[2].split(',').map(|c| unhex(c).and_then(|b| String::from_utf8(b).ok())).collect();
            let cands = match cands {
                Some(c) => c,
                None => return bad(),
            };
            let refs: Vec<&str> = cands.iter().map(|s| s.as_str()).collect();
            close_case(&mut ctx, &word, &refs, hd[1].parse().unwrap_or(0), cutoff)
        }
        "identify" if parts.len() == 4 => {
            let seq = |s: &str| -> Option<(usize, Vec<u32>)> {
                let mut it = s.split_whitespace();
                let off = it.next()?.parse().ok()?;
                let v: Option<Vec<u32>> = it.map(|x| x.parse().ok()).collect();
                Some((off, v?))
            };
            let r: Vec<usize> = parts[3].split_whitespace().filter_map(|x| x.parse().ok()).collect();
            match (seq(parts[1]), seq(parts[2])) {
                (Some((oo, old)), Some((no, new))) if r.len() == 4 => {
                    identify_case(&mut ctx, &IdCase { old, new, o_off: oo, n_off: no, os: r[0], oe: r[1], ns: r[2], ne: r[3] })
                }
                _ => return bad(),
            }
        }
        _ => return bad(),
    };
    if answer.len() > 4000 {
        println!("implementation: {}... ({} bytes)", &answer[..4000], answer.len());
    } else {
        println!("implementation: {}", answer);
    }
    report(&ctx);
}

#[cfg(test)]
mod tests {
    use super::*;

    fn lines(v: &[&str]) -> Vec<Vec<u8>> {
        v.iter().map(|s| s.as_bytes().to_vec()).collect()
    }

    #[test]
    fn tokenizer_validators_reject_wrong_partitions() {
        let inp = "a b\r\nc\rd".as_bytes();
        assert!(check_partition(inp, &[(0, 5), (5, 7), (7, 8)]).is_ok());
        assert!(check_tok_shape(Kind::Lines, inp, &[(0, 5), (5, 7), (7, 8)]).is_ok());
        assert!(check_partition(inp, &[(0, 5), (5, 5), (5, 8)]).is_err());
        assert!(check_partition(inp, &[(0, 5), (6, 8)]).is_err());
        assert!(check_partition(inp, &[(0, 5), (5, 7)]).is_err());
        // CR LF split, break inside, unterminated non-last
        assert!(check_tok_shape(Kind::Lines, inp, &[(0, 4), (4, 7), (7, 8)]).is_err());
        assert!(check_tok_shape(Kind::Lines, inp, &[(0, 7), (7, 8)]).is_err());
        assert!(check_tok_shape(Kind::Lines, inp, &[(0, 2), (2, 5), (5, 7), (7, 8)]).is_err());
        // words: maximal runs of one class, on char boundaries
        let w = "ab \u{a0}é".as_bytes();
        assert!(check_tok_shape(Kind::Words, w, &[(0, 2), (2, 5), (5, 7)]).is_ok());
        assert!(check_tok_shape(Kind::Words, w, &[(0, 1), (1, 2), (2, 5), (5, 7)]).is_err());
        assert!(check_tok_shape(Kind::Words, w, &[(0, 3), (3, 5), (5, 7)]).is_err());
        assert!(check_tok_shape(Kind::Words, w, &[(0, 2), (2, 4), (4, 7)]).is_err());
        assert!(check_tok_shape(Kind::Chars, w, &[(0, 1), (1, 2), (2, 3), (3, 5), (5, 7)]).is_ok());
        assert!(check_tok_shape(Kind::Chars, w, &[(0, 2), (2, 3), (3, 5), (5, 7)]).is_err());
        assert!(check_tok_shape(Kind::Lnl, b"a\r\n\nb", &[(0, 1), (1, 4), (4, 5)]).is_ok());
        assert!(check_tok_shape(Kind::Lnl, b"a\r\n\nb", &[(0, 1), (1, 3), (3, 4), (4, 5)]).is_err());
        // broken UTF-8: one char per maximal invalid subpart
        assert_eq!(lossy_chars(&[0xed, 0xa0, 0x80, 0xf0, 0x9f, 0xff]).len(), 5);
    }

    #[test]
    fn udiff_validator_accepts_good_and_rejects_bad_patches() {
        let old = lines(&["a\n", "b\n", "c"]);
        let new = lines(&["a\n", "x\n", "c"]);
        let good = b"--- a.txt\n+++ b.txt\n@@ -1,3 +1,3 @@\n a\n-b\n+x\n c\n\\ No newline at end of file\n";
        assert!(check_apply(false, &old, &new, good, 1, true).is_ok());
        // radius too small for the context shown
        assert!(check_apply(false, &old, &new, good, 0, true).is_err());
        // wrong counts, wrong start, missing marker, '+' before '-', missing header, no change
        for bad in [
            &b"--- a.txt\n+++ b.txt\n@@ -1,3 +1,2 @@\n a\n-b\n+x\n c\n\\ No newline at end of file\n"[..],
            &b"--- a.txt\n+++ b.txt\n@@ -2,3 +1,3 @@\n a\n-b\n+x\n c\n\\ No newline at end of file\n"[..],
            &b"--- a.txt\n+++ b.txt\n@@ -1,3 +2,3 @@\n a\n-b\n+x\n c\n\\ No newline at end of file\n"[..],
            &b"--- a.txt\n+++ b.txt\n@@ -1,3 +1,3 @@\n a\n-b\n+x\n c\n"[..],
            &b"--- a.txt\n+++ b.txt\n@@ -1,3 +1,3 @@\n a\n+x\n-b\n c\n\\ No newline at end of file\n"[..],
            &b"@@ -1,3 +1,3 @@\n a\n-b\n+x\n c\n\\ No newline at end of file\n"[..],
            &b"--- a.txt\n+++ b.txt\n@@ -1,1 +1,1 @@\n a\n"[..],
            &b""[..],
        ] {
            assert!(check_apply(false, &old, &new, bad, 1, true).is_err(), "{:?}", String::from_utf8_lossy(bad));
        }
        // zero-count ranges name the line before; CR and CRLF lines
        let old = lines(&["b\n", "a\r"]);
        let new = lines(&["a\r\n", "a\r"]);
        assert!(check_apply(false, &old, &new, b"@@ -1 +1 @@\n-b\n+a\r\n", 0, false).is_ok());
        let new2 = lines(&["b\n", "a\r", "q\n"]);
        assert!(check_apply(false, &old, &new2, b"@@ -2,0 +3 @@\n+q\n", 0, false).is_ok());
        assert!(check_apply(false, &old, &new2, b"@@ -3,0 +3 @@\n+q\n", 0, false).is_err());
        assert!(check_apply(true, &old, &old, b"", 3, true).is_ok());
        assert!(check_apply(true, &old, &old, b"--- a.txt\n+++ b.txt\n", 3, true).is_err());
    }

    #[test]
    fn change_validator() {
        let c = |tag, oi, ni, v: &str| Chg { tag, oi, ni, val: v.as_bytes().to_vec(), missing_newline: false };
        let ok = vec![c(ChangeTag::Equal, Some(0), Some(0), "a"), c(ChangeTag::Delete, Some(1), None, "b"), c(ChangeTag::Insert, None, Some(1), "c")];
        assert!(check_changes(&ok, b"ab", b"ac").is_ok());
        assert!(check_changes(&ok, b"ab", b"ad").is_err());
        let bad = vec![c(ChangeTag::Equal, Some(0), Some(0), "a"), c(ChangeTag::Delete, Some(1), Some(1), "b")];
        assert!(check_changes(&bad, b"ab", b"a").is_err());
        let bad = vec![c(ChangeTag::Equal, Some(0), Some(0), "a"), c(ChangeTag::Insert, None, Some(2), "b")];
        assert!(check_changes(&bad, b"a", b"ab").is_err());
    }

    #[test]
    fn identify_validator() {
        let c = IdCase { old: vec![5, 6, 5], new: vec![6, 7], o_off: 0, n_off: 0, os: 0, oe: 3, ns: 0, ne: 2 };
        assert!(check_identify(&c, &(vec![0, 1, 0], vec![1, 2], (0, 3, 0, 2))).is_ok());
        assert!(check_identify(&c, &(vec![0, 1, 0], vec![2, 1], (0, 3, 0, 2))).is_err());
        assert!(check_identify(&c, &(vec![1, 0, 1], vec![0, 2], (0, 3, 0, 2))).is_err());
        assert!(check_identify(&c, &(vec![0, 1, 0], vec![1, 2], (0, 3, 1, 3))).is_err());
    }
}

//! Entry points: every public function that is a thin wrapper around a path the other suites compare with
//! the model (`diff`, `diff_slices*`, the per-algorithm modules, `capture_diff*`, `Capture::into_*`,
//! `TextDiff::from_*`, `TextDiffConfig::diff_slices`, `iter_inline_changes`, `udiff::unified_diff`,
//! `Change`/`InlineChange` accessors and `Display`s, `get_close_matches` on `[u8]`, owned text types)
//! must give exactly what that path gives. Implementation-only (metamorphic) checks: the canonical path
//! is tied to the model elsewhere, the wrappers are tied to the canonical path here.
use std::borrow::Cow;
use std::panic::{catch_unwind, AssertUnwindSafe};

use similar::algorithms::{self, Capture, Compact, Replace};
use similar::{Algorithm, ChangeTag, DiffOp, DiffTag, TextDiff};

use super::gen;
use crate::obs::{alg_name, RecHook, ALGS};
use crate::proto::{self, Call};
use crate::rng::Rng;
use crate::{Ctx, Tier};

fn rec<F: FnOnce(&mut RecHook) -> Result<(), crate::obs::HookErr>>(f: F) -> Option<Vec<Call>> {
    catch_unwind(AssertUnwindSafe(|| {
        let mut h = RecHook::new(None);
        let _ = f(&mut h);
        h.trace
    }))
    .ok()
}

fn seq_case(ctx: &mut Ctx, alg: Algorithm, old: &[u32], new: &[u32], os: usize, oe: usize, ns: usize, ne: usize) {
    let req = format!(
        "api-seq {} | {} | {} | {} {} {} {}",
        alg_name(alg),
        proto::show_seq(0, old),
        proto::show_seq(0, new),
        os,
        oe,
        ns,
        ne
    );
    ctx.count("api.seq_cases");
    let (or, nr) = (os..oe, ns..ne);
    // canonical: algorithms::diff_deadline(.., None)
    let base = rec(|h| algorithms::diff_deadline(alg, h, old, or.clone(), new, nr.clone(), None));
    let mut variants: Vec<(&str, Option<Vec<Call>>)> = vec![("algorithms::diff", rec(|h| algorithms::diff(alg, h, old, or.clone(), new, nr.clone())))];
    match alg {
        Algorithm::Myers => {
            variants.push(("myers::diff", rec(|h| algorithms::myers::diff(h, old, or.clone(), new, nr.clone()))));
            variants.push(("myers::diff_deadline", rec(|h| algorithms::myers::diff_deadline(h, old, or.clone(), new, nr.clone(), None))));
        }
        Algorithm::Patience => {
            variants.push(("patience::diff", rec(|h| algorithms::patience::diff(h, old, or.clone(), new, nr.clone()))));
            variants.push(("patience::diff_deadline", rec(|h| algorithms::patience::diff_deadline(h, old, or.clone(), new, nr.clone(), None))));
        }
        Algorithm::Lcs => {
            variants.push(("lcs::diff", rec(|h| algorithms::lcs::diff(h, old, or.clone(), new, nr.clone()))));
            variants.push(("lcs::diff_deadline", rec(|h| algorithms::lcs::diff_deadline(h, old, or.clone(), new, nr.clone(), None))));
        }
    }
    if os == 0 && ns == 0 && oe == old.len() && ne == new.len() {
        variants.push(("algorithms::diff_slices", rec(|h| algorithms::diff_slices(alg, h, old, new))));
        variants.push(("algorithms::diff_slices_deadline", rec(|h| algorithms::diff_slices_deadline(alg, h, old, new, None))));
    }
    for (name, v) in &variants {
        // the finish protocol of every entry point (C08): exactly one finish, and last
        if let Some(t) = v {
            if let Err(e) = crate::oracle::finish_once_last(t) {
                ctx.violation("C08", &req, format!("{}: {}", name, e));
            }
        }
        if *v != base {
            ctx.violation(
                "C01",
                &req,
                format!(
                    "{} delivers {} but algorithms::diff_deadline(.., None) delivers {}",
                    name,
                    v.as_ref().map_or("panic".to_string(), |t| proto::show_calls(t)),
                    base.as_ref().map_or("panic".to_string(), |t| proto::show_calls(t))
                ),
            );
        }
    }
    // capture wrappers
    let cap = catch_unwind(AssertUnwindSafe(|| similar::capture_diff_deadline(alg, old, or.clone(), new, nr.clone(), None))).ok();
    let mut caps: Vec<(&str, Option<Vec<DiffOp>>)> =
        vec![("capture_diff", catch_unwind(AssertUnwindSafe(|| similar::capture_diff(alg, old, or.clone(), new, nr.clone()))).ok())];
    if os == 0 && ns == 0 && oe == old.len() && ne == new.len() {
        caps.push(("capture_diff_slices", catch_unwind(AssertUnwindSafe(|| similar::capture_diff_slices(alg, old, new))).ok()));
        caps.push(("capture_diff_slices_deadline", catch_unwind(AssertUnwindSafe(|| similar::capture_diff_slices_deadline(alg, old, new, None))).ok()));
    }
    // the pipeline by hand, ending in Capture::into_ops / ops() / into_grouped_ops
    let by_hand = catch_unwind(AssertUnwindSafe(|| {
        let mut d = Compact::new(Replace::new(Capture::new()), old, new);
        algorithms::diff(alg, &mut d, old, or.clone(), new, nr.clone()).unwrap();
        let c = d.into_inner().into_inner();
        let viewed = c.ops().to_vec();
        (viewed, c.into_ops())
    }))
    .ok();
    if let Some((viewed, owned)) = &by_hand {
        if viewed != owned {
            ctx.violation("C02", &req, "Capture::ops() differs from Capture::into_ops()".to_string());
        }
        caps.push(("Compact(Replace(Capture)) + into_ops", Some(owned.clone())));
    } else {
        caps.push(("Compact(Replace(Capture)) + into_ops", None));
    }
    for (name, v) in &caps {
        if *v != cap {
            ctx.violation(
                "C02",
                &req,
                format!(
                    "{} returns {} but capture_diff_deadline(.., None) returns {}",
                    name,
                    v.as_ref().map_or("panic".to_string(), |t| proto::show_ops(t)),
                    cap.as_ref().map_or("panic".to_string(), |t| proto::show_ops(t))
                ),
            );
        }
    }
    if let Some(ops) = &cap {
        for n in 0..=3usize {
            let want = similar::group_diff_ops(ops.clone(), n);
            let got = catch_unwind(AssertUnwindSafe(|| {
                let mut d = Compact::new(Replace::new(Capture::new()), old, new);
                algorithms::diff(alg, &mut d, old, or.clone(), new, nr.clone()).unwrap();
                d.into_inner().into_inner().into_grouped_ops(n)
            }))
            .ok();
            if got.as_ref() != Some(&want) {
                ctx.violation("C12", &req, format!("Capture::into_grouped_ops({}) differs from group_diff_ops(ops, {})", n, n));
            }
        }
        // accessors of every op
        for op in ops {
            let (t, o, n) = op.as_tag_tuple();
            if t != op.tag() || o != op.old_range() || n != op.new_range() {
                ctx.violation("C13", &req, format!("as_tag_tuple of {:?} disagrees with tag()/old_range()/new_range()", op));
            }
            let want_tag = match op {
                DiffOp::Equal { .. } => DiffTag::Equal,
                DiffOp::Delete { .. } => DiffTag::Delete,
                DiffOp::Insert { .. } => DiffTag::Insert,
                DiffOp::Replace { .. } => DiffTag::Replace,
            };
            if t != want_tag {
                ctx.violation("C13", &req, format!("tag() of {:?} is {:?}", op, t));
            }
        }
    }
}

fn tag_sign(t: ChangeTag) -> &'static str {
    match t {
        ChangeTag::Equal => " ",
        ChangeTag::Delete => "-",
        ChangeTag::Insert => "+",
    }
}

fn text_case(ctx: &mut Ctx, alg: Algorithm, old: &str, new: &str) {
    let req = format!("api-text {} | {} | {}", alg_name(alg), hex(old.as_bytes()), hex(new.as_bytes()));
    ctx.count("api.text_cases");
    let r = catch_unwind(AssertUnwindSafe(|| -> Result<(), (&'static str, String)> {
        let cfg_ops = |f: &dyn Fn(&similar::TextDiffConfig) -> Vec<DiffOp>| {
            let mut c = TextDiff::configure();
            c.algorithm(alg);
            f(&c)
        };
        // the from_* constructors use the default algorithm (Myers): compare with a default configuration
        let d = TextDiff::configure();
        macro_rules! same {
            ($name:expr, $a:expr, $b:expr, $prop:expr) => {{
                let (a, b) = ($a, $b);
                if a.ops() != b.ops() || a.newline_terminated() != b.newline_terminated() || a.algorithm() != b.algorithm() {
                    return Err(($prop, format!("{} differs from the configured builder: {} vs {}", $name, proto::show_ops(a.ops()), proto::show_ops(b.ops()))));
                }
            }};
        }
        same!("TextDiff::from_lines", TextDiff::from_lines(old, new), d.diff_lines(old, new), "C14");
        same!("TextDiff::from_words", TextDiff::from_words(old, new), d.diff_words(old, new), "C14");
        same!("TextDiff::from_chars", TextDiff::from_chars(old, new), d.diff_chars(old, new), "C14");
        same!("TextDiff::from_unicode_words", TextDiff::from_unicode_words(old, new), d.diff_unicode_words(old, new), "C14");
        same!("TextDiff::from_graphemes", TextDiff::from_graphemes(old, new), d.diff_graphemes(old, new), "C14");
        if TextDiff::from_lines(old, new).algorithm() != Algorithm::Myers || Algorithm::default() != Algorithm::Myers {
            return Err(("C14", "the default algorithm is not Myers".to_string()));
        }
        // owned / borrowed / byte text types go through DiffableStrRef: same ops as &str
        let (so, sn) = (old.to_string(), new.to_string());
        let (co, cn): (Cow<str>, Cow<str>) = (Cow::Borrowed(old), Cow::Owned(new.to_string()));
        let (vo, vn) = (old.as_bytes().to_vec(), new.as_bytes().to_vec());
        let base_l = cfg_ops(&|c| c.diff_lines(old, new).ops().to_vec());
        let base_w = cfg_ops(&|c| c.diff_words(old, new).ops().to_vec());
        let base_c = cfg_ops(&|c| c.diff_chars(old, new).ops().to_vec());
        for (name, got, base) in [
            ("diff_lines(&String)", cfg_ops(&|c| c.diff_lines(&so, &sn).ops().to_vec()), &base_l),
            ("diff_lines(&Cow<str>)", cfg_ops(&|c| c.diff_lines(&co, &cn).ops().to_vec()), &base_l),
            ("diff_lines(&Vec<u8>)", cfg_ops(&|c| c.diff_lines(&vo, &vn).ops().to_vec()), &base_l),
            ("diff_lines(&[u8])", cfg_ops(&|c| c.diff_lines(&vo[..], &vn[..]).ops().to_vec()), &base_l),
            ("diff_words(&String)", cfg_ops(&|c| c.diff_words(&so, &sn).ops().to_vec()), &base_w),
            ("diff_words(&Vec<u8>)", cfg_ops(&|c| c.diff_words(&vo, &vn).ops().to_vec()), &base_w),
            ("diff_chars(&String)", cfg_ops(&|c| c.diff_chars(&so, &sn).ops().to_vec()), &base_c),
            ("diff_chars(&Cow<str>)", cfg_ops(&|c| c.diff_chars(&co, &cn).ops().to_vec()), &base_c),
            ("diff_chars(&Vec<u8>)", cfg_ops(&|c| c.diff_chars(&vo, &vn).ops().to_vec()), &base_c),
        ] {
            if &got != base {
                return Err(("C20", format!("{} gives {} but &str gives {}", name, proto::show_ops(&got), proto::show_ops(base))));
            }
        }
        // diff_slices / from_slices: the diff of the given slices; NOT newline terminated unless configured
        let mut c = TextDiff::configure();
        c.algorithm(alg);
        let lines = c.diff_lines(old, new);
        let (ol, nl) = (lines.old_slices().to_vec(), lines.new_slices().to_vec());
        let sl = c.diff_slices(&ol, &nl);
        if sl.ops() != lines.ops() {
            return Err(("C14", format!("diff_slices on the line slices gives {} but diff_lines {}", proto::show_ops(sl.ops()), proto::show_ops(lines.ops()))));
        }
        if sl.newline_terminated() {
            return Err(("C14", "diff_slices marks the diff newline-terminated although that was not configured".to_string()));
        }
        if sl.algorithm() != alg {
            return Err(("C14", "diff_slices does not report the configured algorithm".to_string()));
        }
        let fs = TextDiff::from_slices(&ol, &nl);
        let ds = TextDiff::configure().diff_slices(&ol, &nl);
        if fs.ops() != ds.ops() || fs.newline_terminated() || fs.algorithm() != Algorithm::Myers {
            return Err(("C14", "TextDiff::from_slices differs from the default builder's diff_slices (ops, newline flag or algorithm)".to_string()));
        }
        c.newline_terminated(true);
        if !c.diff_slices(&ol, &nl).newline_terminated() || !c.diff_chars(old, new).newline_terminated() {
            return Err(("C14", "newline_terminated(true) is not honoured".to_string()));
        }
        c.newline_terminated(false);
        if c.diff_lines(old, new).newline_terminated() {
            return Err(("C14", "newline_terminated(false) is not honoured by diff_lines".to_string()));
        }
        // a configuration object is reusable: a second diff from the same object equals a fresh one
        let mut r = TextDiff::configure();
        r.algorithm(Algorithm::Lcs);
        let _ = r.diff_words(old, new);
        r.algorithm(alg);
        if r.diff_lines(old, new).ops() != &base_l[..] || r.diff_chars(old, new).ops() != &base_c[..] {
            return Err(("C14", "a builder that was used before gives different ops than a fresh one".to_string()));
        }
        // getters are stable: the same question twice gives the same answer
        if lines.ratio().to_bits() != lines.ratio().to_bits()
            || lines.ops() != lines.ops()
            || lines.grouped_ops(1) != lines.grouped_ops(1)
            || { let _ = lines.grouped_ops(0); lines.grouped_ops(2) != similar::group_diff_ops(lines.ops().to_vec(), 2) }
            || lines.ratio() != similar::get_diff_ratio(lines.ops(), ol.len(), nl.len())
        {
            return Err(("C02", "TextDiff getters are not stable (ops / grouped_ops / ratio asked twice)".to_string()));
        }
        // Change accessors and Display
        for ch in lines.iter_all_changes() {
            let v: &str = ch.value();
            if ch.as_str() != Some(v) || ch.to_string_lossy() != v || *ch.value_ref() != v {
                return Err(("C13", "Change::as_str / to_string_lossy / value_ref disagree with value()".to_string()));
            }
            let want_nl = lines.newline_terminated() && !v.ends_with('\n') && !v.ends_with('\r');
            if ch.missing_newline() != want_nl {
                return Err(("C13", format!("Change::missing_newline() = {} for {:?}", ch.missing_newline(), v)));
            }
            let shown = format!("{}", ch);
            let want = format!("{}{}", v, if want_nl { "\n" } else { "" });
            if shown != want {
                return Err(("C13", format!("Display of a change shows {:?} expected {:?}", shown, want)));
            }
            if format!("{}", ch.tag()) != tag_sign(ch.tag()) {
                return Err(("C13", format!("Display of ChangeTag {:?} is {:?}", ch.tag(), format!("{}", ch.tag()))));
            }
        }
        // bytes: as_str is None exactly on invalid UTF-8, to_string_lossy is the lossy decoding
        let bl = TextDiff::from_lines(&vo[..], &vn[..]);
        for ch in bl.iter_all_changes() {
            let v: &[u8] = ch.value();
            if ch.as_str() != std::str::from_utf8(v).ok() || ch.to_string_lossy() != String::from_utf8_lossy(v) {
                return Err(("C13", "Change<&[u8]>::as_str / to_string_lossy are not the (lossy) decoding of the value".to_string()));
            }
        }
        // inline changes: the plain entry point is the deadline one without deadline; accessors agree
        for op in lines.ops() {
            let a: Vec<String> = lines.iter_inline_changes(op).map(|c| format!("{:?}|{:?}|{:?}|{:?}|{}", c.tag(), c.old_index(), c.new_index(), c.values(), c.missing_newline())).collect();
            let b: Vec<String> = lines
                .iter_inline_changes_deadline(op, None)
                .map(|c| format!("{:?}|{:?}|{:?}|{:?}|{}", c.tag(), c.old_index(), c.new_index(), c.values(), c.missing_newline()))
                .collect();
            if a != b {
                return Err(("C16", "iter_inline_changes(op) differs from iter_inline_changes_deadline(op, None)".to_string()));
            }
            for c in lines.iter_inline_changes(op) {
                let cat: String = c.values().iter().map(|(_, s)| *s).collect();
                let lossy: Vec<(bool, String)> = c.iter_strings_lossy().map(|(e, s)| (e, s.into_owned())).collect();
                let direct: Vec<(bool, String)> = c.values().iter().map(|(e, s)| (*e, s.to_string())).collect();
                if lossy != direct {
                    return Err(("C16", "InlineChange::iter_strings_lossy differs from values()".to_string()));
                }
                let shown = format!("{}", c);
                // Display marks emphasised segments of deletions / insertions with -..- / +..+
                let mark = match c.tag() {
                    ChangeTag::Equal => "",
                    ChangeTag::Delete => "-",
                    ChangeTag::Insert => "+",
                };
                let mut want: String = c.values().iter().map(|(e, s)| if *e { format!("{}{}{}", mark, s, mark) } else { s.to_string() }).collect();
                if c.missing_newline() {
                    want.push('\n');
                }
                if shown != want {
                    return Err(("C16", format!("Display of an inline change shows {:?} expected {:?}", shown, want)));
                }
            }
        }
        // TextDiffRemapper::slice_old / slice_new: the substring covering a token range (None out of bounds)
        {
            use similar::utils::TextDiffRemapper;
            let words = c.diff_words(old, new);
            let rm = TextDiffRemapper::from_text_diff(&words, old, new);
            for op in words.ops() {
                let want_o: String = words.old_slices()[op.old_range()].concat();
                let want_n: String = words.new_slices()[op.new_range()].concat();
                // (an empty range is not asked for: `slice` computes `range.end - 1`, which underflows for `0..0` -- a
                // panic in checked builds, `None` in release builds; outside C17, which speaks of the ranges of ops)
                if !op.old_range().is_empty() && rm.slice_old(op.old_range()) != Some(want_o.as_str()) {
                    return Err(("C17", format!("slice_old({:?}) = {:?} expected {:?}", op.old_range(), rm.slice_old(op.old_range()), want_o)));
                }
                if !op.new_range().is_empty() && rm.slice_new(op.new_range()) != Some(want_n.as_str()) {
                    return Err(("C17", format!("slice_new({:?}) = {:?} expected {:?}", op.new_range(), rm.slice_new(op.new_range()), want_n)));
                }
            }
            let (no, nn) = (words.old_slices().len(), words.new_slices().len());
            if rm.slice_old(0..no + 1).is_some() || rm.slice_new(nn + 1..nn + 2).is_some() {
                return Err(("C17", "slice_old / slice_new past the last token is not None".to_string()));
            }
        }
        // the adapters give access to the wrapped hook (AsRef / AsMut) and changes to their value (value_mut)
        {
            use similar::algorithms::DiffHook;
            let mut rp = Replace::new(Capture::new());
            rp.equal(0, 0, 1).unwrap();
            rp.finish().unwrap();
            let inner: &Capture = rp.as_ref();
            if inner.ops().len() != 1 {
                return Err(("C08", "Replace::as_ref does not expose the wrapped hook".to_string()));
            }
            let m: &mut Capture = rp.as_mut();
            m.equal(1, 1, 1).unwrap();
            if rp.into_inner().ops().len() != 2 {
                return Err(("C08", "Replace::as_mut does not expose the wrapped hook".to_string()));
            }
            let (eo, en) = (vec![1u32], vec![1u32]);
            let mut cp = Compact::new(Capture::new(), &eo[..], &en[..]);
            cp.equal(0, 0, 1).unwrap();
            cp.finish().unwrap();
            let seen = { let r: &Capture = cp.as_ref(); r.ops().len() };
            { let r: &mut Capture = cp.as_mut(); r.equal(1, 1, 1).unwrap(); }
            if seen != 1 || cp.into_inner().ops().len() != 2 {
                return Err(("C08", "Compact::as_ref / as_mut do not expose the wrapped hook".to_string()));
            }
            if let Some(mut ch) = lines.iter_all_changes().next() {
                let before = ch.value();
                *ch.value_mut() = "changed";
                if ch.value() != "changed" || *ch.value_ref() != "changed" || before == "changed" {
                    return Err(("C13", "Change::value_mut does not change the value".to_string()));
                }
            }
            use similar::DiffableStr;
            if old.is_empty() != (old.len() == 0) || DiffableStr::is_empty(old.as_bytes()) != old.is_empty() {
                return Err(("C06", "DiffableStr::is_empty disagrees with len() == 0".to_string()));
            }
        }
        // udiff::unified_diff (the function) = the builder with the same settings
        for (radius, hdr) in [(0usize, None), (2, Some(("a.txt", "b.txt")))] {
            let f = similar::udiff::unified_diff(alg, old, new, radius, hdr);
            let mut c = TextDiff::configure();
            c.algorithm(alg);
            let dd = c.diff_lines(old, new);
            let mut u = dd.unified_diff();
            u.context_radius(radius);
            if let Some((a, b)) = hdr {
                u.header(a, b);
            }
            if f != u.to_string() {
                return Err(("C05", format!("udiff::unified_diff(.., {}, {:?}) differs from the builder's output", radius, hdr)));
            }
            let u2 = similar::udiff::UnifiedDiff::from_text_diff(&dd);
            let mut u3 = dd.unified_diff();
            u3.context_radius(3);
            if u2.to_string() != u3.to_string() {
                return Err(("C05", "UnifiedDiff::from_text_diff does not default to radius 3 / hint on / no header".to_string()));
            }
        }
        // get_close_matches on [u8] = on str (char tokens of valid UTF-8 are the same)
        let words: Vec<&str> = old.split_whitespace().chain(new.split_whitespace()).collect();
        if let Some((w, cands)) = words.split_first() {
            let bytes: Vec<&[u8]> = cands.iter().map(|s| s.as_bytes()).collect();
            for (n, cutoff) in [(1usize, 0.0f32), (3, 0.4), (10, 0.8)] {
                let s = similar::get_close_matches(*w, cands, n, cutoff);
                let b = similar::get_close_matches(w.as_bytes(), &bytes, n, cutoff);
                if s.iter().map(|x| x.as_bytes()).collect::<Vec<_>>() != b {
                    return Err(("C18", format!("get_close_matches on [u8] differs from str for word {:?}, n {}, cutoff {}", w, n, cutoff)));
                }
            }
        }
        Ok(())
    }));
    match r {
        Ok(Ok(())) => {}
        Ok(Err((prop, e))) => ctx.violation(prop, &req, e),
        Err(_) => ctx.violation("C04", &req, "an entry point panicked".to_string()),
    }
}

fn hex(b: &[u8]) -> String {
    b.iter().map(|x| format!("{:02x}", x)).collect()
}

pub fn suite_api(ctx: &mut Ctx) {
    let (l, nrand, ntext) = match ctx.tier {
        Tier::Quick => (3usize, 400u64, 400u64),
        Tier::Thorough => (4, 4000, 4000),
    };
    let seqs = gen::all_seqs(3, l);
    for old in &seqs {
        for new in &seqs {
            for alg in ALGS {
                if !ctx.take() {
                    continue;
                }
                seq_case(ctx, alg, old, new, 0, old.len(), 0, new.len());
                // one sub-range pair with different starts per case
                if old.len() >= 2 && !new.is_empty() {
                    seq_case(ctx, alg, old, new, 1, old.len(), 0, new.len() - 1);
                }
            }
        }
    }
    for i in 0..nrand {
        if !ctx.take() {
            continue;
        }
        let mut rng = Rng::new(ctx.seed ^ 0xa91 ^ i.wrapping_mul(0x9E3779B97F4A7C15));
        let fam = gen::FAMILIES[(i % 7) as usize];
        let size = rng.range(2, 40);
        let (old, new) = gen::gen_pair(&mut rng, fam, size);
        let alg = ALGS[(i % 3) as usize];
        let os = rng.below(old.len() + 1);
        let oe = rng.range(os, old.len());
        let ns = rng.below(new.len() + 1);
        let ne = rng.range(ns, new.len());
        seq_case(ctx, alg, &old, &new, 0, old.len(), 0, new.len());
        seq_case(ctx, alg, &old, &new, os, oe, ns, ne);
    }
    const UNITS: [&str; 16] = ["a", "b", "foo", "bar", " ", "  ", "\n", "\r\n", "\r", "é", "x1", ",", "\t", "\n", "foo", "日本"];
    for i in 0..ntext {
        if !ctx.take() {
            continue;
        }
        let mut rng = Rng::new(ctx.seed ^ 0x7e17 ^ i.wrapping_mul(0x9E3779B97F4A7C15));
        let n = if i % 10 == 9 { rng.range(100, 130) } else { rng.range(0, 14) };
        let base: Vec<&str> = (0..n).map(|_| UNITS[rng.below(UNITS.len())]).collect();
        let mut new = base.clone();
        for _ in 0..rng.below(4) {
            match rng.below(3) {
                0 if !new.is_empty() => {
                    let at = rng.below(new.len());
                    new.remove(at);
                }
                1 => {
                    let at = rng.below(new.len() + 1);
                    new.insert(at, UNITS[rng.below(UNITS.len())]);
                }
                _ if !new.is_empty() => {
                    let at = rng.below(new.len());
                    new[at] = UNITS[rng.below(UNITS.len())];
                }
                _ => {}
            }
        }
        text_case(ctx, ALGS[(i % 3) as usize], &base.concat(), &new.concat());
    }
}

pub mod gen;
mod algs;
mod api;
mod custom_str;
mod misc;
mod text;
#[cfg(feature = "unit")]
mod unit;

use crate::Ctx;

pub fn run(suite: &str, ctx: &mut Ctx) {
    match suite {
        "raw" => algs::suite_raw(ctx),
        "cap" => algs::suite_cap(ctx),
        "stacks" => algs::suite_stacks(ctx),
        "deadline" => algs::suite_deadline(ctx),
        "script" => algs::suite_script(ctx),
        "cost" => algs::suite_cost(ctx),
        "group" => misc::suite_group(ctx),
        "changes" => misc::suite_changes(ctx),
        "tok" => text::suite_tok(ctx),
        "text" => text::suite_text(ctx),
        "udiff" => text::suite_udiff(ctx),
        "inline" => text::suite_inline(ctx),
        "remap" => text::suite_remap(ctx),
        "close" => text::suite_close(ctx),
        "identify" => text::suite_identify(ctx),
        "determinism" => text::suite_determinism(ctx),
        "api" => api::suite_api(ctx),
        #[cfg(feature = "unit")]
        "umyers" | "ulcs" | "uunique" | "ucompact" | "uclose" | "uinline" => unit::suite_unit(ctx, suite),
        #[cfg(not(feature = "unit"))]
        "umyers" | "ulcs" | "uunique" | "ucompact" | "uclose" | "uinline" => {
            eprintln!("harness: built without the unit suites");
            std::process::exit(5)
        }
        _ => panic!("unknown suite {}", suite),
    }
}

/// amplified variants of a request on which model and implementation disagree, through the validators (implementation only)
pub fn search(line: &str, ctx: &mut Ctx) {
    let head = line.split_whitespace().next().unwrap_or("");
    match head {
        "diff" | "capture" | "script" | "usnake" | "utable" | "ucpl" | "ucsl" | "ucleanup" | "ushift" | "identify" => algs::search(line, ctx),
        "text" | "helper" => text::search(line, ctx),
        _ => {}
    }
}

/// re-run one request line against the real code and print the answer and the oracle verdicts
pub fn replay(line: &str) {
    let head = line.split_whitespace().next().unwrap_or("");
    match head {
        "diff" | "capture" | "script" => algs::replay(line),
        "group" | "changes" | "allchanges" | "ratio" => misc::replay(line),
        #[cfg(feature = "unit")]
        "usnake" | "utable" | "ucpl" | "ucsl" | "uunique" | "ucleanup" | "ushift" | "uupper" | "uquick" | "uorig" | "upush" => unit::replay(line),
        "tok" | "ws" | "text" | "udiff" | "inline" | "remap" | "close" | "identify" => text::replay(line),
        _ => println!("unknown request kind {}", head),
    }
}

pub mod gen;
mod algs;
mod misc;

use crate::Ctx;

pub fn run(suite: &str, ctx: &mut Ctx) {
    match suite {
        "raw" => algs::suite_raw(ctx),
        "cap" => algs::suite_cap(ctx),
        "stacks" => algs::suite_stacks(ctx),
        "deadline" => algs::suite_deadline(ctx),
        "script" => algs::suite_script(ctx),
        "cost" => algs::suite_cost(ctx),
        "group" => misc::suite_group(ctx),
        "changes" => misc::suite_changes(ctx),
        _ => panic!("unknown suite {}", suite),
    }
}

/// re-run one request line against the real code and print the answer and the oracle verdicts
pub fn replay(line: &str) {
    let head = line.split_whitespace().next().unwrap_or("");
    match head {
        "diff" | "capture" | "script" => algs::replay(line),
        "group" | "changes" | "allchanges" | "ratio" => misc::replay(line),
        _ => println!("unknown request kind {}", head),
    }
}

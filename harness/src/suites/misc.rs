//! Suites for grouping (C12) and expansion of ops (C13).
use similar::algorithms::Capture;
use similar::{group_diff_ops, ChangeTag, DiffOp};

use crate::proto::{self, Call};
use crate::rng::Rng;
use crate::{Ctx, Tier};

fn is_eq(c: &Call) -> bool {
    matches!(c, Call::Equal(..))
}
fn lens(c: &Call) -> (usize, usize) {
    match *c {
        Call::Equal(_, _, l) => (l, l),
        Call::Delete(_, l, _) => (l, 0),
        Call::Insert(_, _, l) => (0, l),
        Call::Replace(_, a, _, b) => (a, b),
        Call::Finish => (0, 0),
    }
}

/// direct re-statement of C12: the expected groups, with zero-length context ops dropped
fn expected_groups(ops: &[Call], n: usize) -> Vec<Vec<Call>> {
    let mut groups = vec![];
    let mut i = 0;
    while i < ops.len() {
        if is_eq(&ops[i]) {
            i += 1;
            continue;
        }
        // cluster of changes starting at i: extend over Equal runs of at most 2n items
        let first = i;
        let mut last = i;
        let mut j = i + 1;
        while j < ops.len() {
            if !is_eq(&ops[j]) {
                last = j;
                j += 1;
            } else if lens(&ops[j]).0 <= 2 * n && j + 1 < ops.len() && !is_eq(&ops[j + 1]) {
                j += 1;
            } else {
                break;
            }
        }
        let mut g = vec![];
        if first > 0 {
            if let Call::Equal(o, nn, l) = ops[first - 1] {
                let k = n.min(l);
                if k > 0 {
                    g.push(Call::Equal(o + l - k, nn + l - k, k));
                }
            }
        }
        g.extend_from_slice(&ops[first..=last]);
        if last + 1 < ops.len() {
            if let Call::Equal(o, nn, l) = ops[last + 1] {
                let k = n.min(l);
                if k > 0 {
                    g.push(Call::Equal(o, nn, k));
                }
            }
        }
        groups.push(g);
        i = last + 1;
    }
    groups
}

fn check_group(ctx: &mut Ctx, ops: &[Call], n: usize) {
    let req = format!("group {} | {}", n, proto::show_calls(ops));
    let dops: Vec<DiffOp> = ops.iter().filter_map(|c| c.to_op()).collect();
    let got = std::panic::catch_unwind(|| group_diff_ops(dops.clone(), n));
    let got = match got {
        Ok(g) => g,
        Err(_) => {
            ctx.emit(&req, "panic");
            ctx.violation("C12", &req, "group_diff_ops panicked".to_string());
            return;
        }
    };
    let shown: Vec<String> = got.iter().map(|g| proto::show_ops(g)).collect();
    ctx.emit(&req, &format!("ok G={}", shown.join(";")));
    let got_calls: Vec<Vec<Call>> = got.iter().map(|g| g.iter().map(Call::from_op).collect()).collect();
    // zero-length context ops may only stand at a group's edge, at the adjacent change's position
    for g in &got_calls {
        for (i, c) in g.iter().enumerate() {
            if let Call::Equal(o, nn, 0) = *c {
                let ok = if i == 0 && g.len() > 1 {
                    let (s, t) = starts(&g[1]);
                    s == o && t == nn
                } else if i + 1 == g.len() && g.len() > 1 {
                    let (s, t) = ends(&g[i - 1]);
                    s == o && t == nn
                } else {
                    false
                };
                if !ok {
                    ctx.violation("C12", &req, format!("zero-length context op {} misplaced", c.show()));
                }
            }
        }
    }
    let stripped: Vec<Vec<Call>> = got_calls
        .iter()
        .map(|g| g.iter().copied().filter(|c| !matches!(c, Call::Equal(_, _, 0))).collect())
        .collect();
    let want = expected_groups(ops, n);
    if stripped != want {
        let w: Vec<String> = want.iter().map(|g| proto::show_calls(g)).collect();
        ctx.violation("C12", &req, format!("expected groups {}", w.join(";")));
    }
    if want.len() >= 2 {
        ctx.nontrivial(&req);
    }
    ctx.count(&format!("group.n{}", n.min(9)));
}

fn starts(c: &Call) -> (usize, usize) {
    match *c {
        Call::Equal(o, n, _) | Call::Insert(o, n, _) => (o, n),
        Call::Delete(o, _, n) => (o, n),
        Call::Replace(o, _, n, _) => (o, n),
        Call::Finish => (0, 0),
    }
}
fn ends(c: &Call) -> (usize, usize) {
    let (o, n) = starts(c);
    let (a, b) = lens(c);
    (o + a, n + b)
}

/// build a valid op list from run descriptions: (kind, len_a, len_b); kind 0 = equal
fn build(runs: &[(u8, usize, usize)]) -> Vec<Call> {
    build_at(runs, 0, 0)
}

/// the same op list starting at `(o0, n0)` (sub-range diffs: old and new positions differ)
fn build_at(runs: &[(u8, usize, usize)], o0: usize, n0: usize) -> Vec<Call> {
    let (mut o, mut n) = (o0, n0);
    let mut v = vec![];
    for &(k, a, b) in runs {
        match k {
            0 => {
                v.push(Call::Equal(o, n, a));
                o += a;
                n += a;
            }
            1 => {
                v.push(Call::Delete(o, a, n));
                o += a;
            }
            2 => {
                v.push(Call::Insert(o, n, b));
                n += b;
            }
            _ => {
                v.push(Call::Replace(o, a, n, b));
                o += a;
                n += b;
            }
        }
    }
    v
}

/// thorough only, implementation only: the three grouping entry points agree on a diff whose f32
/// ratio rounds to 1.0 although it contains a change (2^23 + 1 vs 2^23 lines)
fn huge_grouping_case(ctx: &mut Ctx) {
    let n = (1usize << 23) + 1;
    let old: String = "x\n".repeat(n);
    let new: String = "x\n".repeat(n - 1);
    let req = "group 1 | <TextDiff of 2^23+1 identical lines vs 2^23: one deletion, ratio rounds to 1.0>".to_string();
    let r = std::panic::catch_unwind(|| {
        let diff = similar::TextDiff::from_lines(&old[..], &new[..]);
        let a = diff.grouped_ops(1);
        let b = group_diff_ops(diff.ops().to_vec(), 1);
        (a == b, b.len(), diff.ops().len())
    });
    ctx.count("group.huge_ratio_rounding_case");
    match r {
        Ok((same, groups, _)) => {
            if !same || groups == 0 {
                ctx.violation("C12", &req, format!("TextDiff::grouped_ops(1) differs from group_diff_ops(ops, 1) ({} groups expected)", groups));
            }
        }
        Err(_) => ctx.violation("C12", &req, "grouping a large diff panicked".to_string()),
    }
}

pub fn suite_group(ctx: &mut Ctx) {
    if ctx.take() {
        huge_grouping_case(ctx);
    }
    // ASTRONOMIC numbers: op lists are plain data, so radii and equal runs around 2^31, 2^32 and 2^40 cost nothing to
    // group (a clamp, a narrowing cast or 32-bit arithmetic anywhere in the grouping shows only here)
    for &big in &[(1usize << 31) - 1, 1 << 31, (1 << 32) - 2, (1 << 32) - 1, 1 << 32, (1 << 33) + 5, 1 << 40] {
        for &n in &[big - 1, big, big / 2, big / 2 + 1, big * 2, 3] {
            if !ctx.take() {
                continue;
            }
            for &l in &[big, 2 * n, 2 * n + 1, n.saturating_sub(1).max(1), n + 1] {
                let runs = [(0u8, l, 0usize), (1, 2, 0), (0, l, 0), (2, 0, 3), (0, l, 0)];
                check_group(ctx, &build(&runs), n);
                check_group(ctx, &build_at(&runs, 7, big), n);
                ctx.count("group.astronomic_cases");
            }
        }
    }
    let (max_n, max_changes, nrand) = match ctx.tier {
        Tier::Quick => (2, 2, 3000),
        Tier::Thorough => (4, 3, 60000),
    };
    for n in 0..=max_n {
        let eq_lens: Vec<usize> = (1..=2 * n + 2).collect();
        for nchanges in 0..=max_changes {
            // slots: eq_0? ch_1 eq_1 ch_2 ... ch_k eq_k?  (eq_0, eq_k optional; inner mandatory)
            let slots = nchanges + 1;
            let mut idx = vec![0usize; slots];
            'outer: loop {
                // change kinds enumerated by a second counter
                let kinds_total = 3usize.pow(nchanges as u32);
                for kc in 0..kinds_total {
                    if !ctx.take() {
                        continue;
                    }
                    let mut runs = vec![];
                    let mut kk = kc;
                    let mut valid = true;
                    for s in 0..slots {
                        let choice = idx[s];
                        let inner = s > 0 && s < slots - 1;
                        // choice 0 = absent (only for the outer slots), else eq_lens[choice-1]
                        if choice == 0 {
                            if inner {
                                valid = false;
                            }
                        } else {
                            runs.push((0u8, eq_lens[choice - 1], 0));
                        }
                        if s < nchanges {
                            let kind = (kk % 3) as u8 + 1;
                            kk /= 3;
                            runs.push((kind, 1 + (s % 2), 2 - (s % 2)));
                        }
                    }
                    if !valid {
                        continue;
                    }
                    let ops = build(&runs);
                    check_group(ctx, &ops, n);
                    // non-zero, different start positions on the two sides
                    let (o0, n0) = [(2, 5), (7, 3), (1, 0)][(kc + idx[0]) % 3];
                    check_group(ctx, &build_at(&runs, o0, n0), n);
                }
                // next idx
                let mut p = 0;
                loop {
                    if p == slots {
                        break 'outer;
                    }
                    idx[p] += 1;
                    if idx[p] <= eq_lens.len() {
                        break;
                    }
                    idx[p] = 0;
                    p += 1;
                }
            }
        }
    }
    for i in 0..nrand {
        if !ctx.take() {
            continue;
        }
        let mut rng = Rng::new(ctx.seed ^ 0x6209 ^ (i as u64).wrapping_mul(0x9E3779B97F4A7C15));
        let n = rng.below(6);
        let k = rng.below(7);
        let mut runs = vec![];
        if rng.chance(2, 3) {
            runs.push((0u8, 1 + rng.below(4 * n + 3), 0));
        }
        for c in 0..k {
            runs.push((1 + rng.below(3) as u8, 1 + rng.below(3), 1 + rng.below(3)));
            if c + 1 < k || rng.chance(2, 3) {
                let l = match rng.below(4) {
                    0 => 2 * n,
                    1 => 2 * n + 1,
                    _ => 1 + rng.below(4 * n + 3),
                };
                runs.push((0u8, l.max(1), 0));
            }
        }
        let ops = build_at(&runs, rng.below(4) * rng.below(3), rng.below(5) * rng.below(2));
        check_group(ctx, &ops, n);
    }
}

/* ------------------------------------------------------------------------------------------ */

fn tag_char(t: ChangeTag) -> char {
    match t {
        ChangeTag::Equal => '=',
        ChangeTag::Delete => '-',
        ChangeTag::Insert => '+',
    }
}
fn idx_str(i: Option<usize>) -> String {
    match i {
        Some(i) => i.to_string(),
        None => "_".to_string(),
    }
}
const OLD_BASE: u32 = 1000;
const NEW_BASE: u32 = 2000;
fn val_str(v: u32) -> String {
    if v >= NEW_BASE {
        format!("n{}", v - NEW_BASE)
    } else {
        format!("o{}", v - OLD_BASE)
    }
}

/// Drives an iterator through the adaptor entry points a caller may use instead of plain `next()`
/// (`nth`, `skip`, `step_by`, `count`, `last`, `fold`, `size_hint`) and compares with the sequence `want`
/// that plain iteration is supposed to give. `make` builds a fresh iterator; `conv` shows an item.
pub fn drive_check<I: Iterator, F: Fn() -> I, C: Fn(I::Item) -> String>(make: F, conv: C, want: &[String]) -> Result<(), String> {
    let total = want.len();
    // plain next() with size_hint bracketing at every step
    {
        let mut it = make();
        for k in 0..=total {
            let (lo, hi) = it.size_hint();
            let rem = total - k;
            if lo > rem || hi.map_or(false, |h| h < rem) {
                return Err(format!("size_hint ({}, {:?}) after {} items but {} remain", lo, hi, k, rem));
            }
            let x = it.next().map(&conv);
            if x.as_deref() != want.get(k).map(|s| s.as_str()) {
                return Err(format!("next() #{} gave {:?} expected {:?}", k, x, want.get(k)));
            }
        }
        if it.next().is_some() {
            return Err("next() after the end gave an item".to_string());
        }
    }
    let mut ns: Vec<usize> = vec![0, 1, 2, 3, 7, 8, 9, 12, 16];
    for d in [2usize, 1, 0] {
        ns.push(total.saturating_sub(d));
    }
    ns.push(total + 1);
    ns.sort();
    ns.dedup();
    for c in 0..=total.min(3) {
        for &n in &ns {
            for &n2 in &[0usize, 1, 5, 8] {
                let mut it = make();
                for _ in 0..c {
                    it.next();
                }
                let x = it.nth(n).map(&conv);
                let mut pos = c + n;
                if x.as_deref() != want.get(pos).map(|s| s.as_str()) {
                    return Err(format!("next() x{} then nth({}) gave {:?} expected {:?}", c, n, x, want.get(pos)));
                }
                if pos >= total {
                    continue;
                }
                pos += 1;
                let y = it.nth(n2).map(&conv);
                if y.as_deref() != want.get(pos + n2).map(|s| s.as_str()) {
                    return Err(format!("next() x{}, nth({}), nth({}) gave {:?} expected {:?}", c, n, n2, y, want.get(pos + n2)));
                }
                pos = (pos + n2 + 1).min(total);
                let rest: Vec<String> = it.map(&conv).collect();
                if rest[..] != want[pos..] {
                    return Err(format!("next() x{}, nth({}), nth({}) then draining gave {} items expected {}", c, n, n2, rest.len(), total - pos));
                }
            }
        }
    }
    for k in 0..=total + 1 {
        let got: Vec<String> = make().skip(k).map(&conv).collect();
        if got[..] != want[k.min(total)..] {
            return Err(format!("skip({}) gave [{}] expected [{}]", k, got.join(","), want[k.min(total)..].join(",")));
        }
    }
    for k in 1..=4usize {
        for c in 0..=total.min(2) {
            let mut it = make();
            for _ in 0..c {
                it.next();
            }
            let got: Vec<String> = it.step_by(k).map(&conv).collect();
            let exp: Vec<String> = want[c..].iter().step_by(k).cloned().collect();
            if got != exp {
                return Err(format!("next() x{} then step_by({}) gave [{}] expected [{}]", c, k, got.join(","), exp.join(",")));
            }
        }
    }
    // every consuming adapter from every state: after c calls of next() the REST is consumed by fold / for_each /
    // count / last / try_fold-based adapters (find, position, all) / collect / min_by_key -- an override of any of
    // them must continue where next() stopped, in the middle of an op as well
    let mut cs: Vec<usize> = (0..=total.min(6)).collect();
    for d in [2usize, 1, 0] {
        cs.push(total.saturating_sub(d));
    }
    cs.sort();
    cs.dedup();
    for &c in &cs {
        let adv = || {
            let mut it = make();
            for _ in 0..c {
                it.next();
            }
            it
        };
        let rest = &want[c..];
        let f: Vec<String> = adv().fold(vec![], |mut v, x| {
            v.push(conv(x));
            v
        });
        if f[..] != rest[..] {
            return Err(format!("next() x{} then fold() visits {} items, {} remain", c, f.len(), rest.len()));
        }
        let mut fe: Vec<String> = vec![];
        adv().for_each(|x| fe.push(conv(x)));
        if fe[..] != rest[..] {
            return Err(format!("next() x{} then for_each() visits {} items, {} remain", c, fe.len(), rest.len()));
        }
        if adv().count() != rest.len() {
            return Err(format!("next() x{} then count() gave {} expected {}", c, adv().count(), rest.len()));
        }
        let l = adv().last().map(&conv);
        if l.as_deref() != rest.last().map(|s| s.as_str()) {
            return Err(format!("next() x{} then last() gave {:?} expected {:?}", c, l, rest.last()));
        }
        let mut seen: Vec<String> = vec![];
        let none = adv().find(|_| false);
        if none.is_some() {
            return Err("find(|_| false) found an item".to_string());
        }
        let mut it = adv();
        let all = it.all(|x| {
            seen.push(conv(x));
            true
        });
        if !all || seen[..] != rest[..] {
            return Err(format!("next() x{} then all() visits {} items, {} remain", c, seen.len(), rest.len()));
        }
        if let Some(target) = rest.get(rest.len() / 2) {
            let mut it = adv();
            let p = it.position(|x| &conv(x) == target);
            let first = rest.iter().position(|s| s == target);
            if p != first {
                return Err(format!("next() x{} then position() gave {:?} expected {:?}", c, p, first));
            }
            // and the iterator continues right behind the found item
            let after: Vec<String> = it.map(&conv).collect();
            if after[..] != rest[first.unwrap() + 1..] {
                return Err(format!("next() x{} then position() then draining gave {} items", c, after.len()));
            }
        }
        let mut it = adv();
        let head: Vec<String> = it.by_ref().take(2).map(&conv).collect();
        let tail: Vec<String> = it.fold(vec![], |mut v, x| {
            v.push(conv(x));
            v
        });
        let joined: Vec<String> = head.into_iter().chain(tail).collect();
        if joined[..] != rest[..] {
            return Err(format!("next() x{}, by_ref().take(2), then fold() gave {} items, {} remain", c, joined.len(), rest.len()));
        }
    }
    if make().count() != total {
        return Err(format!("count() gave {} expected {}", make().count(), total));
    }
    let l = make().last().map(&conv);
    if l.as_deref() != want.last().map(|s| s.as_str()) {
        return Err(format!("last() gave {:?} expected {:?}", l, want.last()));
    }
    let f: Vec<String> = make().fold(vec![], |mut v, x| {
        v.push(conv(x));
        v
    });
    if f[..] != want[..] {
        return Err("fold() visits other items than next()".to_string());
    }
    Ok(())
}

fn check_changes(ctx: &mut Ctx, op: Call, len: usize) {
    let req = format!("changes | {}", op.show());
    let old: Vec<u32> = (0..len as u32).map(|i| OLD_BASE + i).collect();
    let new: Vec<u32> = (0..len as u32).map(|i| NEW_BASE + i).collect();
    let dop = op.to_op().unwrap();
    let r = std::panic::catch_unwind(|| {
        let ch: Vec<String> = dop
            .iter_changes(&old[..], &new[..])
            .map(|c| format!("{}.{}.{}.{}", tag_char(c.tag()), idx_str(c.old_index()), idx_str(c.new_index()), val_str(c.value())))
            .collect();
        let sl: Vec<String> = dop
            .iter_slices(&old[..], &new[..])
            .map(|(t, s)| {
                if s.is_empty() {
                    format!("{}.e", tag_char(t))
                } else {
                    let first = val_str(s[0]);
                    let (side, start) = first.split_at(1);
                    let start: usize = start.parse().unwrap();
                    // the slice must be contiguous
                    for (k, v) in s.iter().enumerate() {
                        assert_eq!(val_str(*v), format!("{}{}", side, start + k));
                    }
                    format!("{}.{}.{}.{}", tag_char(t), side, start, start + s.len())
                }
            })
            .collect();
        (ch, sl)
    });
    let (ch, sl) = match r {
        Ok(x) => x,
        Err(_) => {
            ctx.emit(&req, "panic");
            ctx.violation("C13", &req, "expansion panicked on in-bounds op".to_string());
            return;
        }
    };
    ctx.emit(&req, &format!("ok C={} S={}", ch.join(","), sl.join(",")));
    // direct re-statement
    let mut want = vec![];
    let mut wsl = vec![];
    let sl_str = |t: char, side: &str, a: usize, b: usize| if a == b { format!("{}.e", t) } else { format!("{}.{}.{}.{}", t, side, a, b) };
    match op {
        Call::Equal(o, n, l) => {
            for t in 0..l {
                want.push(format!("=.{}.{}.o{}", o + t, n + t, o + t));
            }
            wsl.push(sl_str('=', "o", o, o + l));
        }
        Call::Delete(o, l, _) => {
            for t in 0..l {
                want.push(format!("-.{}._.o{}", o + t, o + t));
            }
            wsl.push(sl_str('-', "o", o, o + l));
        }
        Call::Insert(_, n, l) => {
            for t in 0..l {
                want.push(format!("+._.{}.n{}", n + t, n + t));
            }
            wsl.push(sl_str('+', "n", n, n + l));
        }
        Call::Replace(o, ol, n, nl) => {
            for t in 0..ol {
                want.push(format!("-.{}._.o{}", o + t, o + t));
            }
            for t in 0..nl {
                want.push(format!("+._.{}.n{}", n + t, n + t));
            }
            wsl.push(sl_str('-', "o", o, o + ol));
            wsl.push(sl_str('+', "n", n, n + nl));
        }
        Call::Finish => {}
    }
    if ch != want {
        ctx.violation("C13", &req, format!("iter_changes gave {} expected {}", ch.join(","), want.join(",")));
    }
    if sl != wsl {
        ctx.violation("C13", &req, format!("iter_slices gave {} expected {}", sl.join(","), wsl.join(",")));
    }
    // the same expansion through the other iterator entry points
    let shown = |c: similar::Change<u32>| format!("{}.{}.{}.{}", tag_char(c.tag()), idx_str(c.old_index()), idx_str(c.new_index()), val_str(c.value()));
    match std::panic::catch_unwind(|| drive_check(|| dop.iter_changes(&old[..], &new[..]), shown, &want)) {
        Ok(Ok(())) => {}
        Ok(Err(e)) => ctx.violation("C13", &req, format!("iter_changes: {}", e)),
        Err(_) => ctx.violation("C13", &req, "iter_changes panicked when driven through nth/skip/step_by".to_string()),
    }
    let shown_sl = |(t, s): (ChangeTag, &[u32])| {
        if s.is_empty() {
            format!("{}.e", tag_char(t))
        } else {
            let first = val_str(s[0]);
            let (side, start) = first.split_at(1);
            let start: usize = start.parse().unwrap();
            format!("{}.{}.{}.{}", tag_char(t), side, start, start + s.len())
        }
    };
    match std::panic::catch_unwind(|| drive_check(|| dop.iter_slices(&old[..], &new[..]), shown_sl, &wsl)) {
        Ok(Ok(())) => {}
        Ok(Err(e)) => ctx.violation("C13", &req, format!("iter_slices: {}", e)),
        Err(_) => ctx.violation("C13", &req, "iter_slices panicked when driven through nth/skip/step_by".to_string()),
    }
    // re-applying the op to a capturing hook reproduces it
    let mut cap = Capture::new();
    dop.apply_to_hook(&mut cap).unwrap();
    if cap.ops() != [dop] {
        ctx.violation("C13", &req, "apply_to_hook(Capture) does not reproduce the op".to_string());
    }
    // … also when the capturing hook is reached through the crate's forwarding impls (`&mut D`, twice, and the
    // finish-suppressing wrapper): a generic replay helper `fn replay<D: DiffHook>(ops, d: D)` called with `&mut capture`
    {
        let mut cap = Capture::new();
        {
            let mut r = &mut cap;
            dop.apply_to_hook(&mut r).unwrap();
        }
        if cap.ops() != [dop] {
            ctx.violation("C13", &req, format!("apply_to_hook(&mut &mut Capture) gives {} instead of the op", proto::show_ops(cap.ops())));
        }
        let mut cap = Capture::new();
        {
            let mut r = &mut cap;
            let mut rr = &mut r;
            dop.apply_to_hook(&mut rr).unwrap();
        }
        if cap.ops() != [dop] {
            ctx.violation("C13", &req, format!("apply_to_hook(&mut &mut &mut Capture) gives {} instead of the op", proto::show_ops(cap.ops())));
        }
        let mut nf = similar::algorithms::NoFinishHook::new(Capture::new());
        dop.apply_to_hook(&mut nf).unwrap();
        let inner = nf.into_inner();
        if inner.ops() != [dop] {
            ctx.violation("C13", &req, format!("apply_to_hook(NoFinishHook(Capture)) gives {} instead of the op", proto::show_ops(inner.ops())));
        }
    }
    if want.len() >= 2 {
        ctx.nontrivial(&req);
    }
}

/// ANY op list -- tiling or not, in any order, overlapping -- through the one public door to `AllChangesIter` with
/// hand-made ops: `UnifiedDiffHunk::new(ops, &diff, hint).iter_changes()`. Whole-list iteration must be the concatenation
/// of the per-op expansions (C13), whatever the ops are; compared with the model (`allchanges` request).
fn check_allchanges(ctx: &mut Ctx, ops: &[Call], len: usize) {
    let req = format!("allchanges | {}", proto::show_calls(ops));
    let old: String = (0..len).map(|i| format!("o{}\n", i)).collect();
    let new: String = (0..len).map(|i| format!("n{}\n", i)).collect();
    let dops: Vec<DiffOp> = ops.iter().filter_map(|c| c.to_op()).collect();
    let conv = |c: similar::Change<&str>| format!("{}.{}.{}.{}", tag_char(c.tag()), idx_str(c.old_index()), idx_str(c.new_index()), c.value().trim_end());
    let r = std::panic::catch_unwind(|| {
        let diff = similar::TextDiff::from_lines(&old[..], &new[..]);
        let hunk = similar::udiff::UnifiedDiffHunk::new(dops.clone(), &diff, true);
        let got: Vec<String> = hunk.iter_changes().map(conv).collect();
        let driven = if got.len() <= 30 { drive_check(|| hunk.iter_changes(), conv, &got) } else { Ok(()) };
        (got, driven)
    });
    ctx.count("changes.arbitrary_op_lists");
    let (got, driven) = match r {
        Ok(x) => x,
        Err(_) => {
            ctx.emit(&req, "panic");
            ctx.violation("C13", &req, "iterating the changes of a hand-made op list panicked (all ranges in bounds)".to_string());
            return;
        }
    };
    ctx.emit(&req, &format!("ok C={}", got.join(",")));
    let mut want: Vec<String> = vec![];
    for op in ops {
        match *op {
            Call::Equal(o, n, l) => (0..l).for_each(|t| want.push(format!("=.{}.{}.o{}", o + t, n + t, o + t))),
            Call::Delete(o, l, _) => (0..l).for_each(|t| want.push(format!("-.{}._.o{}", o + t, o + t))),
            Call::Insert(_, n, l) => (0..l).for_each(|t| want.push(format!("+._.{}.n{}", n + t, n + t))),
            Call::Replace(o, ol, n, nl) => {
                (0..ol).for_each(|t| want.push(format!("-.{}._.o{}", o + t, o + t)));
                (0..nl).for_each(|t| want.push(format!("+._.{}.n{}", n + t, n + t)));
            }
            Call::Finish => {}
        }
    }
    if got != want {
        ctx.violation("C13", &req, format!("whole-list iteration gives [{}], the per-op expansions concatenate to [{}]", got.join(","), want.join(",")));
    }
    if let Err(e) = driven {
        ctx.violation("C13", &req, format!("hunk.iter_changes(): {}", e));
    }
    if ops.len() >= 2 && want.len() >= 2 {
        ctx.nontrivial(&req);
    }
}

pub fn suite_changes(ctx: &mut Ctx) {
    let len = match ctx.tier {
        Tier::Quick => 5,
        Tier::Thorough => 8,
    };
    for o in 0..=len {
        for n in 0..=len {
            for a in 0..=(len - o) {
                for b in 0..=(len - n) {
                    if !ctx.take() {
                        continue;
                    }
                    if a == b && a <= (len - o).min(len - n) {
                        check_changes(ctx, Call::Equal(o, n, a), len);
                    }
                    if b == 0 {
                        check_changes(ctx, Call::Delete(o, a, n), len);
                    }
                    if a == 0 {
                        check_changes(ctx, Call::Insert(o, n, b), len);
                    }
                    check_changes(ctx, Call::Replace(o, a, n, b), len);
                }
            }
        }
    }
    // LONG ops (a jump of 8 or more items inside one op, from its delete half into its insert half, ...): lengths up to 20
    for (a, b) in [(3usize, 12usize), (12, 3), (9, 9), (1, 17), (17, 1), (20, 20), (0, 13), (13, 0)] {
        if !ctx.take() {
            continue;
        }
        let len = a.max(b) + 4;
        if a > 0 && b > 0 {
            check_changes(ctx, Call::Replace(1, a, 2, b), len);
            check_allchanges(ctx, &[Call::Equal(0, 0, 1), Call::Replace(1, a, 1, b), Call::Equal(1 + a, 1 + b, 2), Call::Insert(3 + a, 3 + b, 1)], len + 1);
            check_allchanges(ctx, &[Call::Replace(0, a, 0, b), Call::Replace(a, 2, b, 2), Call::Delete(a + 2, 1, b + 2)], len + 1);
        }
        if a == b {
            check_changes(ctx, Call::Equal(2, 1, a), len);
        }
        if b == 0 {
            check_changes(ctx, Call::Delete(0, a, 3), len);
        }
        if a == 0 {
            check_changes(ctx, Call::Insert(2, 0, b), len);
        }
    }
    // arbitrary op lists of 1..3 ops (not necessarily a script: any start positions, overlapping, out of order)
    let l2 = 3usize;
    let mut all_ops: Vec<Call> = vec![];
    for o in 0..=l2 {
        for n in 0..=l2 {
            for a in 0..=(l2 - o).min(2) {
                for b in 0..=(l2 - n).min(2) {
                    if a == b {
                        all_ops.push(Call::Equal(o, n, a));
                    }
                    if b == 0 {
                        all_ops.push(Call::Delete(o, a, n));
                    }
                    if a == 0 {
                        all_ops.push(Call::Insert(o, n, b));
                    }
                    if a > 0 && b > 0 {
                        all_ops.push(Call::Replace(o, a, n, b));
                    }
                }
            }
        }
    }
    for (i, x) in all_ops.iter().enumerate() {
        for (j, y) in all_ops.iter().enumerate() {
            if !ctx.take() {
                continue;
            }
            check_allchanges(ctx, &[*x, *y], l2 + 1);
            if (i + j) % 7 == 0 {
                let z = all_ops[(i * 31 + j * 17) % all_ops.len()];
                check_allchanges(ctx, &[*x, *y, z], l2 + 1);
                check_allchanges(ctx, &[z, *x, z, *y], l2 + 1);
            }
        }
    }
}

pub fn replay(line: &str) {
    let parts: Vec<&str> = line.split('|').map(|s| s.trim()).collect();
    let hd: Vec<&str> = parts[0].split_whitespace().collect();
    let mut ctx = super::algs::scratch_ctx();
    match hd[0] {
        "group" => {
            let ops = proto::parse_calls(parts[1]).expect("ops");
            let n: usize = hd[1].parse().unwrap();
            let dops: Vec<DiffOp> = ops.iter().filter_map(|c| c.to_op()).collect();
            let got = group_diff_ops(dops, n);
            let shown: Vec<String> = got.iter().map(|g| proto::show_ops(g)).collect();
            println!("implementation: ok G={}", shown.join(";"));
            check_group(&mut ctx, &ops, n);
        }
        "changes" => {
            let ops = proto::parse_calls(parts[1]).expect("op");
            let (a, b) = ends(&ops[0]);
            check_changes(&mut ctx, ops[0], a.max(b) + 1);
        }
        _ => println!("replay of {} requests is done by the text suites", hd[0]),
    }
    super::algs::report(&ctx);
}

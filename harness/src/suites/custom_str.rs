//! A user-defined text type: `DiffableStr` is a public trait, so a caller may diff texts of a type of their own. `CStr` is
//! a byte string (all tokenizers and helpers delegate to the `[u8]` implementation) whose `Hash` is lawful but COARSE:
//! equal values hash equally, and so do many unequal ones (only the length modulo 3 is hashed). Whatever identifies tokens by
//! a hash or fingerprint of theirs instead of by `==` gives different tokens one identity here at once -- no search
//! for a collision of a particular hash function is needed.
use std::borrow::{Borrow, Cow};
use std::hash::{Hash, Hasher};
use std::ops::Range;

use similar::DiffableStr;

#[repr(transparent)]
#[derive(PartialEq, Eq, PartialOrd, Ord, Debug)]
pub struct CStr([u8]);

#[derive(PartialEq, Eq, PartialOrd, Ord, Debug, Clone)]
pub struct CString(Vec<u8>);

impl CStr {
    pub fn new(b: &[u8]) -> &CStr {
        // SAFETY: `CStr` is `repr(transparent)` over `[u8]`
        unsafe { &*(b as *const [u8] as *const CStr) }
    }
    pub fn bytes(&self) -> &[u8] {
        &self.0
    }
}

impl Hash for CStr {
    fn hash<H: Hasher>(&self, h: &mut H) {
        (self.0.len() % 3).hash(h)
    }
}

impl Borrow<CStr> for CString {
    fn borrow(&self) -> &CStr {
        CStr::new(&self.0)
    }
}

impl ToOwned for CStr {
    type Owned = CString;
    fn to_owned(&self) -> CString {
        CString(self.0.to_vec())
    }
}

fn wrap(v: Vec<&[u8]>) -> Vec<&CStr> {
    v.into_iter().map(CStr::new).collect()
}

impl DiffableStr for CStr {
    fn tokenize_lines(&self) -> Vec<&Self> {
        wrap(self.0.tokenize_lines())
    }
    fn tokenize_lines_and_newlines(&self) -> Vec<&Self> {
        wrap(self.0.tokenize_lines_and_newlines())
    }
    fn tokenize_words(&self) -> Vec<&Self> {
        wrap(self.0.tokenize_words())
    }
    fn tokenize_chars(&self) -> Vec<&Self> {
        wrap(self.0.tokenize_chars())
    }
    fn tokenize_unicode_words(&self) -> Vec<&Self> {
        wrap(self.0.tokenize_unicode_words())
    }
    fn tokenize_graphemes(&self) -> Vec<&Self> {
        wrap(self.0.tokenize_graphemes())
    }
    fn as_str(&self) -> Option<&str> {
        std::str::from_utf8(&self.0).ok()
    }
    fn to_string_lossy(&self) -> Cow<'_, str> {
        String::from_utf8_lossy(&self.0)
    }
    fn ends_with_newline(&self) -> bool {
        self.0.ends_with_newline()
    }
    fn len(&self) -> usize {
        self.0.len()
    }
    fn slice(&self, rng: Range<usize>) -> &Self {
        CStr::new(&self.0[rng])
    }
    fn as_bytes(&self) -> &[u8] {
        &self.0
    }
}

//! A user-defined text type: `DiffableStr` is a public trait, so a caller may diff texts of a type of their own. `CStr` is
//! a byte string (all tokenizers and helpers delegate to the `[u8]` implementation) whose `Hash` is lawful but COARSE:
//! equal values hash equally, and so do many unequal ones (only the length modulo 3 is hashed). Whatever identifies tokens by
//! a hash or fingerprint of theirs instead of by `==` gives different tokens one identity here at once -- no search
//! for a collision of a particular hash function is needed.
use std::borrow::{Borrow, Cow};
use std::hash::{Hash, Hasher};
use std::ops::Range;

use similar::DiffableStr;

#[repr(transparent)]
#[derive(PartialEq, Eq, PartialOrd, Ord, Debug)]
pub struct CStr([u8]);

#[derive(PartialEq, Eq, PartialOrd, Ord, Debug, Clone)]
pub struct CString(Vec<u8>);

impl CStr {
    pub fn new(b: &[u8]) -> &CStr {
        // SAFETY: `CStr` is `repr(transparent)` over `[u8]`
        unsafe { &*(b as *const [u8] as *const CStr) }
    }
    pub fn bytes(&self) -> &[u8] {
        &self.0
    }
}

impl Hash for CStr {
    fn hash<H: Hasher>(&self, h: &mut H) {
        (self.0.len() % 3).hash(h)
    }
}

impl Borrow<CStr> for CString {
    fn borrow(&self) -> &CStr {
        CStr::new(&self.0)
    }
}

impl ToOwned for CStr {
    type Owned = CString;
    fn to_owned(&self) -> CString {
        CString(self.0.to_vec())
    }
}

fn wrap(v: Vec<&[u8]>) -> Vec<&CStr> {
    v.into_iter().map(CStr::new).collect()
}

impl DiffableStr for CStr {
    fn tokenize_lines(&self) -> Vec<&Self> {
        wrap(self.0.tokenize_lines())
    }
    fn tokenize_lines_and_newlines(&self) -> Vec<&Self> {
        wrap(self.0.tokenize_lines_and_newlines())
    }
    fn tokenize_words(&self) -> Vec<&Self> {
        wrap(self.0.tokenize_words())
    }
    fn tokenize_chars(&self) -> Vec<&Self> {
        wrap(self.0.tokenize_chars())
    }
    fn tokenize_unicode_words(&self) -> Vec<&Self> {
        wrap(self.0.tokenize_unicode_words())
    }
    fn tokenize_graphemes(&self) -> Vec<&Self> {
        wrap(self.0.tokenize_graphemes())
    }
    fn as_str(&self) -> Option<&str> {
        std::str::from_utf8(&self.0).ok()
    }
    fn to_string_lossy(&self) -> Cow<'_, str> {
        String::from_utf8_lossy(&self.0)
    }
    fn ends_with_newline(&self) -> bool {
        self.0.ends_with_newline()
    }
    fn len(&self) -> usize {
        self.0.len()
    }
    fn slice(&self, rng: Range<usize>) -> &Self {
        CStr::new(&self.0[rng])
    }
    fn as_bytes(&self) -> &[u8] {
        &self.0
    }
}

/// A second user-defined text type: equality, order and hash IGNORE ASCII CASE (lawful: equal values hash equally and
/// compare `Equal`). Equal tokens need not be byte-identical here, so whatever compares or numbers tokens by their bytes
/// instead of by `==`, or takes the value of an Equal change from the wrong side, shows.
#[repr(transparent)]
#[derive(Debug)]
pub struct CiStr([u8]);

#[derive(Debug, Clone)]
pub struct CiString(Vec<u8>);

impl CiStr {
    pub fn new(b: &[u8]) -> &CiStr {
        // SAFETY: `CiStr` is `repr(transparent)` over `[u8]`
        unsafe { &*(b as *const [u8] as *const CiStr) }
    }
    pub fn bytes(&self) -> &[u8] {
        &self.0
    }
    fn folded(&self) -> impl Iterator<Item = u8> + '_ {
        self.0.iter().map(|b| b.to_ascii_lowercase())
    }
}
impl PartialEq for CiStr {
    fn eq(&self, o: &CiStr) -> bool {
        self.0.len() == o.0.len() && self.folded().eq(o.folded())
    }
}
impl Eq for CiStr {}
impl PartialOrd for CiStr {
    fn partial_cmp(&self, o: &CiStr) -> Option<std::cmp::Ordering> {
        Some(self.cmp(o))
    }
}
impl Ord for CiStr {
    fn cmp(&self, o: &CiStr) -> std::cmp::Ordering {
        self.folded().cmp(o.folded())
    }
}
impl Hash for CiStr {
    fn hash<H: Hasher>(&self, h: &mut H) {
        for b in self.folded() {
            b.hash(h);
        }
    }
}
impl Borrow<CiStr> for CiString {
    fn borrow(&self) -> &CiStr {
        CiStr::new(&self.0)
    }
}
impl ToOwned for CiStr {
    type Owned = CiString;
    fn to_owned(&self) -> CiString {
        CiString(self.0.to_vec())
    }
}
fn wrap_ci(v: Vec<&[u8]>) -> Vec<&CiStr> {
    v.into_iter().map(CiStr::new).collect()
}
impl DiffableStr for CiStr {
    fn tokenize_lines(&self) -> Vec<&Self> {
        wrap_ci(self.0.tokenize_lines())
    }
    fn tokenize_lines_and_newlines(&self) -> Vec<&Self> {
        wrap_ci(self.0.tokenize_lines_and_newlines())
    }
    fn tokenize_words(&self) -> Vec<&Self> {
        wrap_ci(self.0.tokenize_words())
    }
    fn tokenize_chars(&self) -> Vec<&Self> {
        wrap_ci(self.0.tokenize_chars())
    }
    fn tokenize_unicode_words(&self) -> Vec<&Self> {
        wrap_ci(self.0.tokenize_unicode_words())
    }
    fn tokenize_graphemes(&self) -> Vec<&Self> {
        wrap_ci(self.0.tokenize_graphemes())
    }
    fn as_str(&self) -> Option<&str> {
        std::str::from_utf8(&self.0).ok()
    }
    fn to_string_lossy(&self) -> Cow<'_, str> {
        String::from_utf8_lossy(&self.0)
    }
    fn ends_with_newline(&self) -> bool {
        self.0.ends_with_newline()
    }
    fn len(&self) -> usize {
        self.0.len()
    }
    fn slice(&self, rng: Range<usize>) -> &Self {
        CiStr::new(&self.0[rng])
    }
    fn as_bytes(&self) -> &[u8] {
        &self.0
    }
}

/// A third user-defined text type: TAGGED text. The first byte of every token is a non-printing tag (a style, a speaker, a
/// column) that takes part in `==`, `Ord` and `Hash` but is NOT part of what `as_bytes` renders. Equality is therefore
/// STRICTER than equality of the rendered bytes: two tokens may print alike and still differ. Whatever identifies tokens by
/// `as_bytes()` instead of by `==` pairs unequal tokens here.
#[repr(transparent)]
#[derive(PartialEq, Eq, PartialOrd, Ord, Hash, Debug)]
pub struct TStr([u8]);

#[derive(PartialEq, Eq, PartialOrd, Ord, Hash, Debug, Clone)]
pub struct TString(Vec<u8>);

impl TStr {
    pub fn new(b: &[u8]) -> &TStr {
        // SAFETY: `TStr` is `repr(transparent)` over `[u8]`
        unsafe { &*(b as *const [u8] as *const TStr) }
    }
    pub fn bytes(&self) -> &[u8] {
        &self.0
    }
}
impl Borrow<TStr> for TString {
    fn borrow(&self) -> &TStr {
        TStr::new(&self.0)
    }
}
impl ToOwned for TStr {
    type Owned = TString;
    fn to_owned(&self) -> TString {
        TString(self.0.to_vec())
    }
}
fn wrap_t(v: Vec<&[u8]>) -> Vec<&TStr> {
    v.into_iter().map(TStr::new).collect()
}
impl DiffableStr for TStr {
    fn tokenize_lines(&self) -> Vec<&Self> {
        wrap_t(self.0.tokenize_lines())
    }
    fn tokenize_lines_and_newlines(&self) -> Vec<&Self> {
        wrap_t(self.0.tokenize_lines_and_newlines())
    }
    fn tokenize_words(&self) -> Vec<&Self> {
        wrap_t(self.0.tokenize_words())
    }
    fn tokenize_chars(&self) -> Vec<&Self> {
        wrap_t(self.0.tokenize_chars())
    }
    fn tokenize_unicode_words(&self) -> Vec<&Self> {
        wrap_t(self.0.tokenize_unicode_words())
    }
    fn tokenize_graphemes(&self) -> Vec<&Self> {
        wrap_t(self.0.tokenize_graphemes())
    }
    fn as_str(&self) -> Option<&str> {
        std::str::from_utf8(self.as_bytes()).ok()
    }
    fn to_string_lossy(&self) -> Cow<'_, str> {
        String::from_utf8_lossy(self.as_bytes())
    }
    fn ends_with_newline(&self) -> bool {
        self.0.ends_with_newline()
    }
    fn len(&self) -> usize {
        self.0.len()
    }
    fn slice(&self, rng: Range<usize>) -> &Self {
        TStr::new(&self.0[rng])
    }
    /// the rendered bytes: everything after the tag
    fn as_bytes(&self) -> &[u8] {
        if self.0.len() > 1 {
            &self.0[1..]
        } else {
            &self.0
        }
    }
}

/// A fourth user-defined text type: CHARACTER-INDEXED text. `len()` is the number of characters and `slice(rng)` takes a
/// range of character positions (the trait documents them as "the length of the string" and "slices the string": the unit is
/// the type's own); everything else is the `str` implementation. Whatever mixes byte offsets (`as_bytes()`, pointer
/// arithmetic) with `len` / `slice` units goes wrong on the first multi-byte character.
#[repr(transparent)]
#[derive(PartialEq, Eq, PartialOrd, Ord, Hash, Debug)]
pub struct UStr(str);

#[derive(PartialEq, Eq, PartialOrd, Ord, Hash, Debug, Clone)]
pub struct UString(String);

impl UStr {
    pub fn new(s: &str) -> &UStr {
        // SAFETY: `UStr` is `repr(transparent)` over `str`
        unsafe { &*(s as *const str as *const UStr) }
    }
    pub fn text(&self) -> &str {
        &self.0
    }
    fn byte_pos(&self, char_pos: usize) -> usize {
        self.0.char_indices().map(|(i, _)| i).chain(std::iter::once(self.0.len())).nth(char_pos).expect("character position out of range")
    }
}
impl Borrow<UStr> for UString {
    fn borrow(&self) -> &UStr {
        UStr::new(&self.0)
    }
}
impl ToOwned for UStr {
    type Owned = UString;
    fn to_owned(&self) -> UString {
        UString(self.0.to_string())
    }
}
fn wrap_u(v: Vec<&str>) -> Vec<&UStr> {
    v.into_iter().map(UStr::new).collect()
}
impl DiffableStr for UStr {
    fn tokenize_lines(&self) -> Vec<&Self> {
        wrap_u(self.0.tokenize_lines())
    }
    fn tokenize_lines_and_newlines(&self) -> Vec<&Self> {
        wrap_u(self.0.tokenize_lines_and_newlines())
    }
    fn tokenize_words(&self) -> Vec<&Self> {
        wrap_u(self.0.tokenize_words())
    }
    fn tokenize_chars(&self) -> Vec<&Self> {
        wrap_u(self.0.tokenize_chars())
    }
    fn tokenize_unicode_words(&self) -> Vec<&Self> {
        wrap_u(self.0.tokenize_unicode_words())
    }
    fn tokenize_graphemes(&self) -> Vec<&Self> {
        wrap_u(self.0.tokenize_graphemes())
    }
    fn as_str(&self) -> Option<&str> {
        Some(&self.0)
    }
    fn to_string_lossy(&self) -> Cow<'_, str> {
        Cow::Borrowed(&self.0)
    }
    fn ends_with_newline(&self) -> bool {
        self.0.ends_with_newline()
    }
    /// the number of CHARACTERS
    fn len(&self) -> usize {
        self.0.chars().count()
    }
    /// a range of CHARACTER positions
    fn slice(&self, rng: Range<usize>) -> &Self {
        UStr::new(&self.0[self.byte_pos(rng.start)..self.byte_pos(rng.end)])
    }
    fn as_bytes(&self) -> &[u8] {
        self.0.as_bytes()
    }
}

//! Enumerators and structured random generators.
use crate::rng::Rng;

/// all sequences over `0..k` of length `0..=max_len`
pub fn all_seqs(k: u32, max_len: usize) -> Vec<Vec<u32>> {
    let mut out = vec![vec![]];
    let mut layer: Vec<Vec<u32>> = vec![vec![]];
    for _ in 0..max_len {
        let mut next = vec![];
        for s in &layer {
            for x in 0..k {
                let mut t = s.clone();
                t.push(x);
                next.push(t);
            }
        }
        out.extend(next.iter().cloned());
        layer = next;
    }
    out
}

/// all `(s, e)` with `s <= e <= len`
pub fn subranges(len: usize) -> Vec<(usize, usize)> {
    let mut v = vec![];
    for s in 0..=len {
        for e in s..=len {
            v.push((s, e));
        }
    }
    v
}

#[derive(Clone, Copy, Debug)]
pub enum Family {
    NearIdentical,
    BlockMove,
    Periodic,
    HeavyRepeats,
    Unrelated,
    UniqueRich,
    SmallAlphabet,
}
pub const FAMILIES: [Family; 7] = [
    Family::NearIdentical,
    Family::BlockMove,
    Family::Periodic,
    Family::HeavyRepeats,
    Family::Unrelated,
    Family::UniqueRich,
    Family::SmallAlphabet,
];

fn edit(rng: &mut Rng, base: &[u32], edits: usize, alphabet: u32) -> Vec<u32> {
    let mut v = base.to_vec();
    for _ in 0..edits {
        match rng.below(3) {
            0 if !v.is_empty() => {
                let i = rng.below(v.len());
                v.remove(i);
            }
            1 => {
                let i = rng.below(v.len() + 1);
                v.insert(i, rng.below(alphabet as usize) as u32);
            }
            _ if !v.is_empty() => {
                let i = rng.below(v.len());
                v[i] = rng.below(alphabet as usize) as u32;
            }
            _ => {}
        }
    }
    v
}

/// a pair of sequences of about `size` items from one of the families
pub fn gen_pair(rng: &mut Rng, fam: Family, size: usize) -> (Vec<u32>, Vec<u32>) {
    let size = size.max(1);
    match fam {
        Family::NearIdentical => {
            let alpha = rng.range(2, size.max(2) * 2) as u32;
            let base: Vec<u32> = (0..size).map(|_| rng.below(alpha as usize) as u32).collect();
            let e = rng.range(0, 1 + size / 8);
            let new = edit(rng, &base, e, alpha);
            (base, new)
        }
        Family::BlockMove => {
            let base: Vec<u32> = (0..size as u32).map(|i| i % (1 + size as u32 / 2) + rng.below(2) as u32).collect();
            let mut new = base.clone();
            if size >= 4 {
                let a = rng.below(size - 2);
                let l = rng.range(1, (size - a).min(size / 3 + 1));
                let blk: Vec<u32> = new.drain(a..a + l).collect();
                let at = rng.below(new.len() + 1);
                for (i, x) in blk.into_iter().enumerate() {
                    new.insert(at + i, x);
                }
            }
            (base, new)
        }
        Family::Periodic => {
            let p = rng.range(1, 4);
            let base: Vec<u32> = (0..size).map(|i| (i % p) as u32).collect();
            let shift = rng.below(p + 1);
            let nl = rng.range(size.saturating_sub(3), size + 3);
            let mut new: Vec<u32> = (0..nl).map(|i| ((i + shift) % p) as u32).collect();
            if rng.chance(1, 2) && !new.is_empty() {
                let i = rng.below(new.len());
                new[i] = 9;
            }
            (base, new)
        }
        Family::HeavyRepeats => {
            let base: Vec<u32> = (0..size).map(|_| rng.below(2) as u32).collect();
            let e = rng.range(1, 2 + size / 4);
            let new = edit(rng, &base, e, 3);
            (base, new)
        }
        Family::Unrelated => {
            let a: Vec<u32> = (0..size).map(|_| rng.below(size * 2 + 1) as u32).collect();
            let bl = rng.range(size / 2, size + size / 2);
            let b: Vec<u32> = (0..bl).map(|_| (size * 2 + 1 + rng.below(size * 2 + 1)) as u32).collect();
            (a, b)
        }
        Family::UniqueRich => {
            // mostly unique items, some shuffled, plus a few repeated fillers
            let mut base: Vec<u32> = (0..size as u32).map(|i| 10 + i).collect();
            for _ in 0..size / 4 {
                let i = rng.below(base.len());
                base[i] = rng.below(3) as u32;
            }
            let mut new = base.clone();
            for _ in 0..rng.range(0, 1 + size / 5) {
                if new.len() >= 2 {
                    let i = rng.below(new.len());
                    let j = rng.below(new.len());
                    new.swap(i, j);
                }
            }
            let e = rng.range(0, 1 + size / 8);
            let new = edit(rng, &new, e, 12 + size as u32);
            (base, new)
        }
        Family::SmallAlphabet => {
            let a: Vec<u32> = (0..size).map(|_| rng.below(3) as u32).collect();
            let bl = rng.range(size.saturating_sub(2), size + 2);
            let b: Vec<u32> = (0..bl).map(|_| rng.below(3) as u32).collect();
            (a, b)
        }
    }
}

//! Unit-level correspondence: the crate-internal helpers that the `cfg(similar_verif)` hook `verif_internals`
//! makes reachable are compared ONE BY ONE with their models (requests `usnake utable ucpl ucsl uunique ucleanup
//! ushift uupper uquick uorig upush`, PROTOCOL.md), each with an independent validator of what the helper is for.
//! The other suites compare whole public entry points; here an intermediate value that does not change the final
//! answer on the explored inputs (a table entry, a `V` cell, a split point, a pointer) still has to agree.
use similar::algorithms::verif_internals as vi;
use similar::algorithms::{lcs, myers};
use similar::verif_inline_internals as vin;
use similar::verif_text_internals as vt;
use similar::{DiffOp, TextDiff};

use super::gen;
use super::text::{hex, lens_str, random_units};
use crate::obs::{with_world, NItem, OItem, Off, CONST_HASH, STR_HASH, WEAK_HASH};
use crate::oracle;
use crate::proto::{self, Call};
use crate::rng::Rng;
use crate::{Ctx, Tier};

fn items(old: &[u32], new: &[u32], salt: u32) -> (Vec<OItem>, Vec<NItem>) {
    (old.iter().map(|&x| OItem(x, salt)).collect(), new.iter().map(|&x| NItem(x, salt)).collect())
}

fn nats(v: &[usize]) -> String {
    v.iter().map(|x| x.to_string()).collect::<Vec<_>>().join(",")
}

fn seq_sections(o_off: usize, old: &[u32], n_off: usize, new: &[u32], r: (usize, usize, usize, usize)) -> String {
    format!("{} | {} | {} {} {} {}", proto::show_seq(o_off, old), proto::show_seq(n_off, new), r.0, r.1, r.2, r.3)
}

/// absolute range -> the labels it covers
fn sub<'a>(v: &'a [u32], off: usize, s: usize, e: usize) -> &'a [u32] {
    &v[s - off..e - off]
}

/* ------------------------------------------------------------------------------------------ */
/* Myers: one middle-snake search on fresh V arrays                                            */

fn snake_case(ctx: &mut Ctx, old: &[u32], new: &[u32], o_off: usize, n_off: usize, r: (usize, usize, usize, usize), dl: Option<u64>) {
    let (os, oe, ns, ne) = r;
    let (o, n) = items(old, new, 0);
    let req = format!("usnake {} | {}", proto::opt(dl), seq_sections(o_off, old, n_off, new, r));
    let (res, cmps, _, probes) = with_world(dl, false, |d| {
        if o_off == 0 && n_off == 0 {
            myers::verif_find_middle_snake(&o[..], os..oe, &n[..], ns..ne, d)
        } else {
            myers::verif_find_middle_snake(&Off { off: o_off, v: o.clone() }, os..oe, &Off { off: n_off, v: n.clone() }, ns..ne, d)
        }
    });
    let ans = match &res {
        None => "panic".to_string(),
        Some((sp, vf, vb)) => format!(
            "ok S={} VF={} VB={} c={} p={}",
            match sp {
                Some((x, y)) => format!("{},{}", x, y),
                None => "none".to_string(),
            },
            nats(vf),
            nats(vb),
            cmps,
            probes
        ),
    };
    ctx.emit(&req, &ans);
    ctx.count("unit.snake");
    // validator: without a deadline a split point is found, lies in the box, on a shortest path, and is not a corner
    // of a stripped box (so both halves are strictly smaller: the recursion of `conquer` terminates)
    match res {
        None => ctx.violation("C01", &req, "find_middle_snake panicked on a stripped, non-empty box".to_string()),
        Some((None, _, _)) => {
            if dl.is_none() {
                ctx.violation("C03", &req, "find_middle_snake found no split point although no deadline was set".to_string());
            }
            ctx.count("unit.snake.none");
        }
        Some((Some((x, y)), _, _)) => {
            if x < os || x > oe || y < ns || y > ne {
                ctx.violation("C01", &req, format!("split point ({},{}) outside the box", x, y));
                return;
            }
            if (x, y) == (os, ns) || (x, y) == (oe, ne) {
                ctx.violation("C01", &req, format!("split point ({},{}) is a corner of a stripped box: conquer would not make progress", x, y));
            }
            let whole = oracle::lcs_len(sub(old, o_off, os, oe), sub(new, n_off, ns, ne));
            let left = oracle::lcs_len(sub(old, o_off, os, x), sub(new, n_off, ns, y));
            let right = oracle::lcs_len(sub(old, o_off, x, oe), sub(new, n_off, y, ne));
            if left + right != whole {
                ctx.violation("C03", &req, format!("split point ({},{}) is on no shortest path: LCS {} + {} < {}", x, y, left, right, whole));
            }
            if dl.is_none() {
                ctx.nontrivial(&req);
            }
        }
    }
}

/// the box `conquer` hands to `find_middle_snake`: both sides non-empty, first items differ, last items differ
fn stripped(old: &[u32], new: &[u32]) -> bool {
    !old.is_empty() && !new.is_empty() && old[0] != new[0] && old[old.len() - 1] != new[new.len() - 1]
}

/* ------------------------------------------------------------------------------------------ */
/* LCS: the table                                                                             */

fn table_case(ctx: &mut Ctx, old: &[u32], new: &[u32], o_off: usize, n_off: usize, r: (usize, usize, usize, usize), dl: Option<u64>) {
    let (os, oe, ns, ne) = r;
    let (o, n) = items(old, new, 0);
    let req = format!("utable {} | {}", proto::opt(dl), seq_sections(o_off, old, n_off, new, r));
    let (res, cmps, _, probes) = with_world(dl, false, |d| {
        if o_off == 0 && n_off == 0 {
            lcs::verif_make_table(&o[..], os..oe, &n[..], ns..ne, d)
        } else {
            lcs::verif_make_table(&Off { off: o_off, v: o.clone() }, os..oe, &Off { off: n_off, v: n.clone() }, ns..ne, d)
        }
    });
    let ans = match &res {
        None => "panic".to_string(),
        Some(None) => format!("ok T=none c={} p={}", cmps, probes),
        Some(Some(t)) => format!("ok T={} c={} p={}", t.iter().map(|((i, j), v)| format!("{}.{}.{}", i, j, v)).collect::<Vec<_>>().join(","), cmps, probes),
    };
    ctx.emit(&req, &ans);
    ctx.count("unit.table");
    match res {
        None => ctx.violation("C01", &req, "make_table panicked on in-bounds ranges".to_string()),
        Some(None) => {
            if dl.is_none() {
                ctx.violation("C03", &req, "make_table gave up although no deadline was set".to_string());
            }
        }
        Some(Some(t)) => {
            // entry (i,j) = LCS length of new[ns+i..ne] vs old[os+j..oe]; absent exactly when that is 0
            let (so, sn) = (sub(old, o_off, os, oe), sub(new, n_off, ns, ne));
            let map: std::collections::BTreeMap<(usize, usize), u32> = t.iter().copied().collect();
            for i in 0..sn.len() {
                for j in 0..so.len() {
                    let want = oracle::lcs_len(&so[j..], &sn[i..]) as u32;
                    let got = map.get(&(i, j)).copied().unwrap_or(0);
                    if got != want || (want == 0 && map.contains_key(&(i, j))) {
                        ctx.violation("C03", &req, format!("table[({},{})] = {} but the LCS of the two suffixes has length {}", i, j, got, want));
                        return;
                    }
                }
            }
            if map.keys().any(|&(i, j)| i >= sn.len() || j >= so.len()) {
                ctx.violation("C03", &req, "table has an entry outside the two ranges".to_string());
            }
            if t.len() >= 2 {
                ctx.nontrivial(&req);
            }
        }
    }
}

/* ------------------------------------------------------------------------------------------ */
/* common prefix / suffix                                                                      */

fn cpl_case(ctx: &mut Ctx, old: &[u32], new: &[u32], o_off: usize, n_off: usize, r: (usize, usize, usize, usize)) {
    let (os, oe, ns, ne) = r;
    let (o, n) = items(old, new, 0);
    for suffix in [false, true] {
        let req = format!("{} | {}", if suffix { "ucsl" } else { "ucpl" }, seq_sections(o_off, old, n_off, new, r));
        let (res, cmps, _, _) = with_world(None, false, |_| {
            let (oo, nn) = (Off { off: o_off, v: o.clone() }, Off { off: n_off, v: n.clone() });
            if suffix {
                vi::common_suffix_len(&oo, os..oe, &nn, ns..ne)
            } else {
                vi::common_prefix_len(&oo, os..oe, &nn, ns..ne)
            }
        });
        let ans = match res {
            None => "panic".to_string(),
            Some(l) => format!("ok L={} c={}", l, cmps),
        };
        ctx.emit(&req, &ans);
        ctx.count("unit.cpl");
        let (so, sn) = (sub(old, o_off, os, oe), sub(new, n_off, ns, ne));
        let want = if suffix {
            so.iter().rev().zip(sn.iter().rev()).take_while(|(a, b)| a == b).count()
        } else {
            so.iter().zip(sn.iter()).take_while(|(a, b)| a == b).count()
        };
        match res {
            None => ctx.violation("C01", &req, "panicked on in-bounds ranges".to_string()),
            Some(l) if l != want => ctx.violation("C01", &req, format!("returned {} but the common {} has length {}", l, if suffix { "suffix" } else { "prefix" }, want)),
            Some(l) => {
                if l > 0 {
                    ctx.nontrivial(&req);
                }
            }
        }
    }
}

/* ------------------------------------------------------------------------------------------ */
/* unique                                                                                      */

fn unique_case(ctx: &mut Ctx, v: &[u32], off: usize, s: usize, e: usize, salt: u32) {
    let it: Vec<OItem> = v.iter().map(|&x| OItem(x, salt)).collect();
    let req = format!("uunique | {} | {} {}", proto::show_seq(off, v), s, e);
    let (res, _, _, _) = with_world(None, false, |_| {
        let l = Off { off, v: it.clone() };
        vi::unique(&l, s..e).iter().map(|u| u.original_index()).collect::<Vec<usize>>()
    });
    let ans = match &res {
        None => "panic".to_string(),
        Some(u) => format!("ok U={}", nats(u)),
    };
    ctx.emit(&req, &ans);
    ctx.count("unit.unique");
    let sl = sub(v, off, s, e);
    let want: Vec<usize> = (0..sl.len()).filter(|&i| sl.iter().filter(|&&x| x == sl[i]).count() == 1).map(|i| s + i).collect();
    match res {
        None => ctx.violation("C15", &req, "unique panicked on an in-bounds range".to_string()),
        Some(u) if u != want => ctx.violation("C15", &req, format!("unique returned [{}] but the items occurring exactly once are at [{}] (hash salt {})", nats(&u), nats(&want), salt)),
        Some(u) => {
            if !u.is_empty() && u.len() < sl.len() {
                ctx.nontrivial(&req);
            }
        }
    }
}

/* ------------------------------------------------------------------------------------------ */
/* clean-up and its two shift helpers                                                          */

fn to_ops(calls: &[Call]) -> Vec<DiffOp> {
    calls.iter().filter_map(|c| c.to_op()).collect()
}
fn to_calls(ops: &[DiffOp]) -> Vec<Call> {
    ops.iter().map(Call::from_op).collect()
}

fn check_script_result(ctx: &mut Ctx, req: &str, old: &[u32], new: &[u32], before: &[Call], after: &[Call], what: &str) {
    let r = (0, old.len(), 0, new.len());
    if let Err(e) = oracle::walk(old, new, 0, 0, r, after, false) {
        ctx.violation("C10", req, format!("{} turned a valid script into an invalid one: {}", what, e));
        return;
    }
    let (d0, i0, _) = oracle::cost(before);
    let (d1, i1, _) = oracle::cost(after);
    if d0 != d1 || i0 != i1 {
        ctx.violation("C10", req, format!("{} changed the deleted/inserted items from {}/{} to {}/{}", what, d0, i0, d1, i1));
    }
}

fn cleanup_case(ctx: &mut Ctx, old: &[u32], new: &[u32], script: &[Call]) {
    let (o, n) = items(old, new, 0);
    let mut first: Option<Vec<Call>> = None;
    for repair in [false, true] {
        let req = format!("ucleanup {} | {} | {} | {}", repair as u8, proto::show_seq(0, old), proto::show_seq(0, new), proto::show_calls(script));
        let (res, cmps, _, _) = with_world(None, repair, |_| {
            let mut ops = to_ops(script);
            vi::cleanup_diff_ops(&o[..], &n[..], &mut ops);
            ops
        });
        let ans = match &res {
            None => "panic".to_string(),
            Some(ops) => format!("ok O={} c={}", proto::show_ops(ops), cmps),
        };
        ctx.emit(&req, &ans);
        ctx.count("unit.cleanup");
        match res {
            None => ctx.violation("C10", &req, "cleanup_diff_ops panicked on a valid script".to_string()),
            Some(ops) => {
                let after = to_calls(&ops);
                check_script_result(ctx, &req, old, new, script, &after, "cleanup_diff_ops");
                // C09 clause 4 on the clean-up's own output: an insertion followed by an Equal op cannot slide further down
                for w in after.windows(2) {
                    if let (Call::Insert(_, cn, _), Call::Equal(eo, _, _)) = (w[0], w[1]) {
                        if new[cn] == old[eo] {
                            ctx.violation("C09", &req, format!("after the clean-up the insertion {} could still slide down over {}", w[0].show(), w[1].show()));
                        }
                    }
                }
                if after != script {
                    ctx.nontrivial(&req);
                    ctx.count("unit.cleanup.changed");
                }
                match &first {
                    None => first = Some(after),
                    Some(f) => {
                        if *f != after {
                            ctx.count("unit.cleanup.repair_changes_result");
                        }
                    }
                }
            }
        }
    }
}

fn shift_case(ctx: &mut Ctx, old: &[u32], new: &[u32], script: &[Call], pointer: usize, up: bool, repair: bool) {
    let (o, n) = items(old, new, 0);
    let req = format!(
        "ushift {} {} {} | {} | {} | {}",
        if up { "up" } else { "down" },
        repair as u8,
        pointer,
        proto::show_seq(0, old),
        proto::show_seq(0, new),
        proto::show_calls(script)
    );
    let (res, cmps, _, _) = with_world(None, repair, |_| {
        let mut ops = to_ops(script);
        let p = vi::verif_shift_diff_ops(up, &mut ops, &o[..], &n[..], pointer);
        (ops, p)
    });
    let ans = match &res {
        None => "panic".to_string(),
        Some((ops, p)) => format!("ok O={} P={} c={}", proto::show_ops(ops), p, cmps),
    };
    ctx.emit(&req, &ans);
    ctx.count("unit.shift");
    match res {
        None => ctx.violation("C10", &req, "the shift helper panicked on a valid script".to_string()),
        Some((ops, p)) => {
            let after = to_calls(&ops);
            check_script_result(ctx, &req, old, new, script, &after, if up { "shift_diff_ops_up" } else { "shift_diff_ops_down" });
            if p >= ops.len() {
                ctx.violation("C10", &req, format!("returned pointer {} is outside the {} ops", p, ops.len()));
            } else {
                // the op under the returned pointer is still a change of the kind that was being shifted
                let kind = |c: &Call| matches!(c, Call::Delete(..)) as u8 * 1 + matches!(c, Call::Insert(..)) as u8 * 2;
                if kind(&after[p]) != kind(&script[pointer]) {
                    ctx.violation("C10", &req, format!("the pointer moved from {} to {}", script[pointer].show(), after[p].show()));
                }
            }
            if after != script {
                ctx.nontrivial(&req);
                ctx.count("unit.shift.changed");
            }
        }
    }
}

fn random_script(rng: &mut Rng, old: &[u32], new: &[u32]) -> Vec<Call> {
    let (mut o, mut n) = (0, 0);
    let mut s = vec![];
    while o < old.len() || n < new.len() {
        let can_eq = o < old.len() && n < new.len() && old[o] == new[n];
        let choice = rng.below(if can_eq { 5 } else { 2 });
        if choice >= 2 {
            let mut l = 1;
            while o + l < old.len() && n + l < new.len() && old[o + l] == new[n + l] && rng.chance(1, 2) {
                l += 1;
            }
            s.push(Call::Equal(o, n, l));
            o += l;
            n += l;
        } else if (choice == 0 && o < old.len()) || n >= new.len() {
            let l = 1 + rng.below((old.len() - o).min(3));
            s.push(Call::Delete(o, l, n));
            o += l;
        } else {
            let l = 1 + rng.below((new.len() - n).min(3));
            s.push(Call::Insert(o, n, l));
            n += l;
        }
    }
    s
}

/// all valid scripts with exact carried indices (small inputs only)
fn all_scripts(old: &[u32], new: &[u32], o: usize, n: usize, cur: &mut Vec<Call>, out: &mut Vec<Vec<Call>>, cap: usize) {
    if out.len() >= cap {
        return;
    }
    if o == old.len() && n == new.len() {
        out.push(cur.clone());
        return;
    }
    let mut l = 0;
    while o + l < old.len() && n + l < new.len() && old[o + l] == new[n + l] {
        l += 1;
        cur.push(Call::Equal(o, n, l));
        all_scripts(old, new, o + l, n + l, cur, out, cap);
        cur.pop();
    }
    for l in 1..=(old.len() - o) {
        cur.push(Call::Delete(o, l, n));
        all_scripts(old, new, o + l, n, cur, out, cap);
        cur.pop();
    }
    for l in 1..=(new.len() - n) {
        cur.push(Call::Insert(o, n, l));
        all_scripts(old, new, o, n + l, cur, out, cap);
        cur.pop();
    }
}

fn script_cases(ctx: &mut Ctx, old: &[u32], new: &[u32], s: &[Call]) {
    cleanup_case(ctx, old, new, s);
    for (p, c) in s.iter().enumerate() {
        if matches!(c, Call::Delete(..) | Call::Insert(..)) {
            for up in [true, false] {
                shift_case(ctx, old, new, s, p, up, false);
                if p % 2 == 0 {
                    shift_case(ctx, old, new, s, p, up, true);
                }
            }
        }
    }
}

/* ------------------------------------------------------------------------------------------ */
/* ratio pre-filters of get_close_matches                                                      */

fn upper_case(ctx: &mut Ctx, l1: usize, l2: usize) {
    let req = format!("uupper {} {} | -", l1, l2);
    let (a, b) = (vec![0u8; l1], vec![1u8; l2]);
    let f = vt::upper_seq_ratio(&a[..], &b[..]);
    ctx.emit(&req, &format!("ok F={}", f.to_bits()));
    ctx.count("unit.upper");
    if !(0.0..=1.0).contains(&f) {
        ctx.violation("C18", &req, format!("upper_seq_ratio = {} is not in 0..=1", f));
    }
    if l1 != l2 {
        ctx.nontrivial(&req);
    }
}

fn quick_case(ctx: &mut Ctx, word: &str, cand: &str) {
    let wt: Vec<&str> = word.char_indices().map(|(i, c)| &word[i..i + c.len_utf8()]).collect();
    let ct: Vec<&str> = cand.char_indices().map(|(i, c)| &cand[i..i + c.len_utf8()]).collect();
    let toks = |t: &[&str]| if t.is_empty() { "-".to_string() } else { t.iter().map(|x| hex(x.as_bytes())).collect::<Vec<_>>().join(",") };
    let req = format!("uquick | {} | {}", toks(&wt), toks(&ct));
    let q = vt::QuickSeqRatio::new(&wt[..]).calc(&ct[..]);
    ctx.emit(&req, &format!("ok F={}", q.to_bits()));
    ctx.count("unit.quick");
    // the pre-filters are upper bounds of the real ratio (so they never discard a candidate that meets the cutoff)
    let real = TextDiff::from_slices(&wt[..], &ct[..]).ratio();
    let upper = vt::upper_seq_ratio(&wt[..], &ct[..]);
    if q < real {
        ctx.violation("C18", &req, format!("QuickSeqRatio::calc = {} is below the real ratio {}", q, real));
    }
    if upper < real {
        ctx.violation("C18", &req, format!("upper_seq_ratio = {} is below the real ratio {}", upper, real));
    }
    if real > 0.0 && real < 1.0 {
        ctx.nontrivial(&req);
    }
}

/* ------------------------------------------------------------------------------------------ */
/* inline: the word table, get_original_slices, push_values                                    */

fn orig_case(ctx: &mut Ctx, lines: &[&str]) {
    let words = vin::multi_lookup_words(lines);
    // the external word segmenter's answer, per line (the model takes it as a parameter)
    let mut segs: Vec<Vec<usize>> = vec![vec![]; lines.len()];
    for (w, li, _) in &words {
        segs[*li].push(w.len());
    }
    let lines_sec = if lines.is_empty() { "-".to_string() } else { lines.iter().map(|l| hex(l.as_bytes())).collect::<Vec<_>>().join(",") };
    let seg_sec = if lines.is_empty() { "-".to_string() } else { segs.iter().map(|s| lens_str(s)).collect::<Vec<_>>().join(";") };
    let wtab = words.iter().map(|(w, li, off)| format!("{}.{}.{}", hex(w.as_bytes()), li, off)).collect::<Vec<_>>().join(",");
    // contract of the external segmenter (checked, as in the inline suite): the words of a line tile it
    for (li, l) in lines.iter().enumerate() {
        if segs[li].iter().sum::<usize>() != l.len() || segs[li].iter().any(|&x| x == 0) {
            ctx.count("unit.orig.contract_failures");
            return;
        }
    }
    let nw = words.len();
    let mut pairs = vec![];
    for idx in 0..=nw {
        for len in 0..=(nw - idx) {
            pairs.push((idx, len));
        }
    }
    // keep the quadratic enumeration small
    let step = 1 + pairs.len() / 40;
    for (k, &(idx, len)) in pairs.iter().enumerate() {
        if k % step != 0 && !(idx == 0 && len == nw) {
            continue;
        }
        let req = format!("uorig {} {} | {} | {}", idx, len, lines_sec, seg_sec);
        let res = std::panic::catch_unwind(|| vin::original_slices(lines, idx, len));
        let ans = match &res {
            Err(_) => "panic".to_string(),
            Ok(sl) => format!("ok S={} W={}", sl.iter().map(|(li, s)| format!("{}:{}", li, hex(s.as_bytes()))).collect::<Vec<_>>().join(","), wtab),
        };
        ctx.emit(&req, &ans);
        ctx.count("unit.orig");
        match res {
            Err(_) => ctx.violation("C16", &req, "get_original_slices panicked on an in-range word run".to_string()),
            Ok(sl) => {
                let want: String = words[idx..idx + len].iter().map(|(w, _, _)| *w).collect();
                let got: String = sl.iter().map(|(_, s)| *s).collect();
                if want != got {
                    ctx.violation("C16", &req, format!("the slices concatenate to {:?}, the words to {:?}", got, want));
                }
                if sl.windows(2).any(|w| w[0].0 >= w[1].0) || sl.iter().any(|(li, s)| !lines[*li].contains(*s) || s.is_empty()) {
                    ctx.violation("C16", &req, "a slice is empty, not part of its line, or the line indices do not increase".to_string());
                }
                if sl.len() >= 2 {
                    ctx.nontrivial(&req);
                }
            }
        }
    }
}

fn push_case(ctx: &mut Ctx, calls: &[(usize, bool, String)]) {
    let cs: Vec<(usize, bool, &str)> = calls.iter().map(|(i, e, s)| (*i, *e, s.as_str())).collect();
    let req = format!(
        "upush str | {} | -",
        if cs.is_empty() { "-".to_string() } else { cs.iter().map(|(i, e, s)| format!("{}.{}.{}", i, *e as u8, hex(s.as_bytes()))).collect::<Vec<_>>().join(",") }
    );
    let res = std::panic::catch_unwind(|| vin::push_values_seq(&cs[..]));
    let ans = match &res {
        Err(_) => "panic".to_string(),
        Ok(v) => format!(
            "ok V={}",
            v.iter().map(|l| l.iter().map(|(e, s)| format!("e{}{}", *e as u8, hex(s.as_bytes()))).collect::<Vec<_>>().join("+")).collect::<Vec<_>>().join(";")
        ),
    };
    ctx.emit(&req, &ans);
    ctx.count("unit.push");
    match res {
        Err(_) => ctx.violation("C16", &req, "push_values panicked".to_string()),
        Ok(v) => {
            for (idx, l) in v.iter().enumerate() {
                let want: String = cs.iter().filter(|c| c.0 == idx).map(|c| c.2).collect();
                let got: String = l.iter().map(|(_, s)| *s).collect();
                if want != got {
                    ctx.violation("C16", &req, format!("line {}: the segments concatenate to {:?}, the pushed values to {:?}", idx, got, want));
                }
                if l.iter().any(|(e, s)| *e && (s.contains('\n') || s.contains('\r'))) {
                    ctx.violation("C16", &req, format!("line {}: an emphasised segment contains a line break", idx));
                }
            }
            if cs.iter().any(|c| c.1 && (c.2.contains('\n') || c.2.contains('\r'))) {
                ctx.nontrivial(&req);
            }
        }
    }
}

/* ------------------------------------------------------------------------------------------ */

pub fn suite_unit(ctx: &mut Ctx, which: &str) {
    let on = |w: &str| which == w;
    let (lfull, lsub, nrand, rsize) = match ctx.tier {
        Tier::Quick => (4, 3, 1500u64, 40),
        Tier::Thorough => (5, 4, 30000u64, 160),
    };
    // --- exhaustive small scope: snake / table / prefix / suffix on every in-bounds pair of sub-ranges
    let seqs = gen::all_seqs(3, lfull);
    for old in &seqs {
        for new in &seqs {
            if !ctx.take() {
                continue;
            }
            let full = (0, old.len(), 0, new.len());
            let small = old.len() <= lsub && new.len() <= lsub;
            let ranges: Vec<(usize, usize, usize, usize)> = if small {
                let mut v = vec![];
                for (os, oe) in gen::subranges(old.len()) {
                    for (ns, ne) in gen::subranges(new.len()) {
                        v.push((os, oe, ns, ne));
                    }
                }
                v
            } else {
                vec![full]
            };
            for (k, &r) in ranges.iter().enumerate() {
                // offsets: the lookups subtract an offset like `OffsetLookup`
                let (oo, no) = [(0, 0), (3, 0), (2, 5)][k % 3];
                let rr = (r.0 + oo, r.1 + oo, r.2 + no, r.3 + no);
                if on("umyers") {
                    cpl_case(ctx, old, new, oo, no, rr);
                }
                if on("ulcs") {
                    for dl in [None, Some(0), Some(1), Some(2)] {
                        table_case(ctx, old, new, oo, no, rr, dl);
                    }
                }
                if on("umyers") && stripped(&old[r.0..r.1], &new[r.2..r.3]) {
                    for dl in [None, Some(0), Some(1), Some(2), Some(3)] {
                        snake_case(ctx, old, new, oo, no, rr, dl);
                    }
                }
            }
        }
    }
    // --- unique: every sequence, every sub-range, four kinds of hashing
    for v in gen::all_seqs(3, lfull + 1) {
        if !on("uunique") {
            break;
        }
        if !ctx.take() {
            continue;
        }
        for (k, (s, e)) in gen::subranges(v.len()).into_iter().enumerate() {
            let salt = [0, 7, WEAK_HASH, CONST_HASH, STR_HASH][k % 5];
            let off = [0, 4][k % 2];
            unique_case(ctx, &v, off, s + off, e + off, salt);
        }
    }
    // --- clean-up and shift helpers: every valid script of small inputs
    let bin = gen::all_seqs(2, lsub);
    for old in &bin {
        for new in &bin {
            if !on("ucompact") {
                break;
            }
            if !ctx.take() {
                continue;
            }
            let mut out = vec![];
            all_scripts(old, new, 0, 0, &mut vec![], &mut out, 2000);
            for s in &out {
                script_cases(ctx, old, new, s);
            }
        }
    }
    // --- random, larger
    for i in 0..nrand {
        if !ctx.take() {
            continue;
        }
        let mut rng = Rng::new(ctx.seed ^ 0x0171 ^ i.wrapping_mul(0x9E3779B97F4A7C15));
        let fam = gen::FAMILIES[(i as usize) % gen::FAMILIES.len()];
        let size = 2 + rng.below(rsize);
        let (old, new) = gen::gen_pair(&mut rng, fam, size);
        let full = (0, old.len(), 0, new.len());
        match i % 4 {
            0 if on("umyers") => {
                // strip the common ends, then search the middle snake of what is left (what `conquer` does)
                let p = old.iter().zip(new.iter()).take_while(|(a, b)| a == b).count();
                let s = old[p..].iter().rev().zip(new[p..].iter().rev()).take_while(|(a, b)| a == b).count();
                let r = (p, old.len() - s, p, new.len() - s);
                if stripped(&old[r.0..r.1], &new[r.2..r.3]) {
                    let dl = [None, None, Some(rng.below(6) as u64)][rng.below(3)];
                    snake_case(ctx, &old, &new, 0, 0, r, dl);
                }
                cpl_case(ctx, &old, &new, 0, 0, full);
            }
            1 if on("ulcs") => {
                let size = size.min(24);
                let (old, new) = (&old[..old.len().min(size)], &new[..new.len().min(size)]);
                let dl = [None, None, Some(rng.below(8) as u64)][rng.below(3)];
                table_case(ctx, old, new, 1, 2, (1, old.len() + 1, 2, new.len() + 2), dl);
            }
            2 if on("uunique") => {
                let salt = [0, 3, WEAK_HASH, STR_HASH][rng.below(4)];
                let s = rng.below(old.len() + 1);
                let e = s + rng.below(old.len() - s + 1);
                unique_case(ctx, &old, 0, s, e, salt);
            }
            3 if on("ucompact") => {
                let fam = [gen::Family::HeavyRepeats, gen::Family::Periodic, gen::Family::SmallAlphabet, gen::Family::NearIdentical][rng.below(4)];
                let sz = 2 + rng.below(20);
                let (mut old, mut new) = gen::gen_pair(&mut rng, fam, sz);
                if i % 28 == 3 {
                    // one long run of changes between two shared items (dozens of single delete / insert ops in a row)
                    old = std::iter::once(1).chain((0..rng.range(12, 40) as u32).map(|x| 100 + x)).chain(std::iter::once(2)).collect();
                    new = std::iter::once(1).chain((0..rng.range(12, 40) as u32).map(|x| 300 + x)).chain(std::iter::once(2)).collect();
                }
                let s = random_script(&mut rng, &old, &new);
                script_cases(ctx, &old, &new, &s);
            }
            _ => {}
        }
    }
    // --- ratio pre-filters
    if on("uclose") && ctx.take() {
        for l1 in 0..24 {
            for l2 in 0..24 {
                upper_case(ctx, l1, l2);
            }
        }
        for &(l1, l2) in &[(1usize << 24, 1usize), ((1 << 24) + 1, 1 << 24), ((1 << 24) - 1, (1 << 24) + 3), (0, 1 << 25), (3, 1 << 25), (12345678, 23456789)] {
            upper_case(ctx, l1, l2);
        }
    }
    const ALPHA: [&str; 8] = ["a", "b", "c", "é", "日", "👍", "x", "a"];
    for i in 0..nrand {
        if !on("uclose") {
            break;
        }
        if !ctx.take() {
            continue;
        }
        let mut rng = Rng::new(ctx.seed ^ 0x0c10 ^ i.wrapping_mul(0x9E3779B97F4A7C15));
        let k = 2 + rng.below(ALPHA.len() - 1);
        let word: String = (0..rng.below(10)).map(|_| ALPHA[rng.below(k)]).collect();
        let mut cand: String = if rng.chance(1, 2) { word.clone() } else { (0..rng.below(10)).map(|_| ALPHA[rng.below(k)]).collect() };
        for _ in 0..rng.below(3) {
            cand.push_str(ALPHA[rng.below(k)]);
        }
        quick_case(ctx, &word, &cand);
    }
    // --- inline helpers
    for i in 0..nrand / 3 {
        if !on("uinline") {
            break;
        }
        if !ctx.take() {
            continue;
        }
        let mut rng = Rng::new(ctx.seed ^ 0x1411e ^ i.wrapping_mul(0x9E3779B97F4A7C15));
        let units = random_units(&mut rng, 4, false);
        let text: Vec<u8> = units.concat();
        let text = String::from_utf8(text).unwrap();
        let lines: Vec<&str> = text.split_inclusive('\n').collect();
        orig_case(ctx, &lines);
        let mut calls = vec![];
        for _ in 0..rng.below(6) {
            let u = random_units(&mut rng, 2, false);
            let s = String::from_utf8(u.concat()).unwrap();
            calls.push((rng.below(4), rng.chance(1, 2), s));
        }
        push_case(ctx, &calls);
    }
}

fn parse_seq(s: &str) -> (usize, Vec<u32>) {
    let v: Vec<u64> = s.split_whitespace().map(|x| x.parse().expect("number")).collect();
    (v[0] as usize, v[1..].iter().map(|&x| x as u32).collect())
}

fn parse_range(s: &str) -> (usize, usize, usize, usize) {
    let v: Vec<usize> = s.split_whitespace().map(|x| x.parse().expect("number")).collect();
    (v[0], v[1], v[2], v[3])
}

fn parse_dl(s: &str) -> Option<u64> {
    if s == "-" {
        None
    } else {
        Some(s.parse().expect("deadline"))
    }
}

fn unhex_str(s: &str) -> String {
    String::from_utf8(super::text::unhex(s).expect("hex")).expect("utf-8")
}

/// re-run one unit request against the real code and print the answer and the validator verdicts
pub fn replay(line: &str) {
    let parts: Vec<&str> = line.split('|').map(|s| s.trim()).collect();
    let hd: Vec<&str> = parts[0].split_whitespace().collect();
    let mut ctx = super::algs::scratch_ctx();
    match hd[0] {
        "usnake" | "utable" | "ucpl" | "ucsl" => {
            let (oo, old) = parse_seq(parts[1]);
            let (no, new) = parse_seq(parts[2]);
            let r = parse_range(parts[3]);
            match hd[0] {
                "usnake" => snake_case(&mut ctx, &old, &new, oo, no, r, parse_dl(hd[1])),
                "utable" => table_case(&mut ctx, &old, &new, oo, no, r, parse_dl(hd[1])),
                _ => cpl_case(&mut ctx, &old, &new, oo, no, r),
            }
        }
        "uunique" => {
            let (off, v) = parse_seq(parts[1]);
            let se: Vec<usize> = parts[2].split_whitespace().map(|x| x.parse().unwrap()).collect();
            for salt in [0, 7, WEAK_HASH, CONST_HASH, STR_HASH] {
                unique_case(&mut ctx, &v, off, se[0], se[1], salt);
            }
        }
        "ucleanup" | "ushift" => {
            let (_, old) = parse_seq(parts[1]);
            let (_, new) = parse_seq(parts[2]);
            let s = proto::parse_calls(parts[3]).expect("script");
            if hd[0] == "ucleanup" {
                cleanup_case(&mut ctx, &old, &new, &s);
            } else {
                shift_case(&mut ctx, &old, &new, &s, hd[3].parse().unwrap(), hd[1] == "up", hd[2] == "1");
            }
        }
        "uupper" => upper_case(&mut ctx, hd[1].parse().unwrap(), hd[2].parse().unwrap()),
        "uquick" => {
            let cat = |s: &str| -> String { if s == "-" { String::new() } else { s.split(',').map(unhex_str).collect() } };
            quick_case(&mut ctx, &cat(parts[1]), &cat(parts[2]));
        }
        "uorig" => {
            let lines: Vec<String> = if parts[1] == "-" { vec![] } else { parts[1].split(',').map(unhex_str).collect() };
            let l: Vec<&str> = lines.iter().map(|s| s.as_str()).collect();
            orig_case(&mut ctx, &l);
        }
        "upush" => {
            let calls: Vec<(usize, bool, String)> = if parts[1] == "-" {
                vec![]
            } else {
                parts[1]
                    .split(',')
                    .map(|c| {
                        let f: Vec<&str> = c.split('.').collect();
                        (f[0].parse().unwrap(), f[1] == "1", unhex_str(f[2]))
                    })
                    .collect()
            };
            push_case(&mut ctx, &calls);
        }
        _ => println!("unknown unit request {}", hd[0]),
    }
    super::algs::report(&ctx);
}
